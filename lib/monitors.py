"""Trace monitors: the properties restated over observable events of an *implementation* trace.
They are the search-for-a-failing-input part of the checks (never a substitute for the theorems).
Each monitor returns a list of violations: dict(cls=<class id or None>, what=<text>)."""
from trace import garbles, qos0_partial,  parse_trace, connections, list_field
import re
import mqttspec

NETOPS = {1, 2, 3, 4, 5, 6, 7}


def V(what, cls=None):
    return {'cls': cls, 'what': what}


def case_cfg(case_line):
    t = case_line.split()
    return {'rx': int(t[1]), 'tx': int(t[2])}


def parse_server_packets(b):
    """frame a server->client stream leniently: list of (first, body)"""
    out = []
    i = 0
    while i < len(b):
        try:
            n, j = mqttspec.varint(b, i + 1)
        except Exception:
            break
        if j + n > len(b):
            break
        out.append((b[i], bytes(b[j:j + n])))
        i = j + n
    return out


def connack_info(inbound):
    """(session_present, reason, {prop id: value}) of the first inbound packet if it is a CONNACK"""
    pk = parse_server_packets(inbound)
    if not pk or pk[0][0] != 0x20 or len(pk[0][1]) < 3:
        return None
    body = pk[0][1]
    props = {}
    try:
        c = mqttspec.Cur(body[2:])
        n = c.var()
        blk = mqttspec.Cur(c.take(n))
        while not blk.done():
            pid = blk.var()
            shape = mqttspec.PROPS[pid][0]
            v = {'b': blk.u8, '2': blk.u16, '4': blk.u32, 'v': blk.var, 's': blk.utf8, 'd': blk.binary}.get(shape)
            props[pid] = v() if v else (blk.utf8(), blk.utf8())
    except Exception:
        return None
    return body[0] & 1, body[1], props


# ---------------------------------------------------------------- C01
def mon_c01(case_line, acts):
    out = []
    for c in connections(acts):
        # environment assumptions of C01: cancel-safe operations only, a lawful transport
        excused = False
        for i in c['actions']:
            a = acts[i]
            if a.code == 1 and a.result == 'cancelled' and qos0_partial(a):
                excused = True          # a QoS 0 publish (also one downgraded to QoS 0) is documented as not cancel-safe
            if any(e[0] == 'w' and e[2] is None and e[3] == 'zero' for e in a.events):
                excused = True          # Ok(0) for a non-empty buffer breaks the embedded-io contract
            if a.code == 0 and a.result == 'cancelled':
                excused = True          # a cancelled connect() drops the transport
        if excused:
            continue
        pk, tail, problems = mqttspec.parse_client_stream(c['wire'], strict_flags=False)
        if pk and pk[0]['type'] != 'CONNECT':
            out.append(V('first packet on the transport is %s, not CONNECT' % pk[0]['type']))
        for k, p in enumerate(pk):
            if p['type'] == 'CONNECT' and k > 0:
                out.append(V('second CONNECT on one transport'))
            if p['type'] == 'MALFORMED':
                cls = None
                err = p['error']
                if 'packet identifier 0' in err and (p['first'] >> 4) in (4, 5, 7):
                    continue            # the client echoes the broker's identifier 0 (broker misbehaviour)
                if 'empty topic' in err or 'U+0000' in err or 'without topic filter' in err or 'appears twice' in err:
                    continue            # invalid user input (C01 quantifies over valid user inputs)
                out.append(V('malformed packet on the wire: %s (%s)' % (err, p['raw'].hex()), classify_c01(c, acts, p)))
                continue
            want = {'PUBREL': 2, 'SUBSCRIBE': 2, 'UNSUBSCRIBE': 2}.get(p['type'])
            if p['type'] != 'PUBLISH' and p['flags'] != (want or 0):
                cls = 'K01a' if p['type'] in ('SUBSCRIBE', 'UNSUBSCRIBE') and p['flags'] == 0b1010 else None
                out.append(V('%s with reserved flags %s (%s)' % (p['type'], bin(p['flags']), p['raw'][:8].hex()), cls))
        # a disconnect() that reports success has put a whole DISCONNECT on the wire as the last packet
        sofar = bytearray()
        orphan = None      # (action index, partial packet bytes) not owned by any entry the session has in progress
        for i in c['actions']:
            a = acts[i]
            wrote = False
            for e in a.events:
                if e[0] == 'w' and e[2]:
                    sofar += bytes.fromhex(e[3])
                    wrote = True
            if wrote and orphan is not None:
                out.append(V('action %d left the partial packet %s on the wire that no queued entry owns; action %d wrote '
                             'more bytes behind it' % (orphan[0], orphan[1].hex(), i),
                             'K01c' if acts[orphan[0]].code == 4 else None))
                break               # from here on the stream of this transport is garbled: one report per transport
            fr, tl, er = mqttspec.split_stream(bytes(sofar))
            st = a.state or {}
            if tl and not er and st.get('live') == '1':
                owned = False
                for key in ('ret', 'ctl', 'rel'):
                    for x in list_field(st.get(key, '[]')):
                        if (':W%d:' % len(tl)) in (x + ':') :
                            if key != 'ret' or x.split(':')[-1].startswith(tl.hex()):
                                owned = True
                if not owned:
                    orphan = orphan or (i, bytes(tl))      # keep the action that first left it
                else:
                    orphan = None
            elif not tl:
                orphan = None
            if a.code == 4 and wrote and (a.result or '').startswith('ok'):
                fr, tl, er = mqttspec.split_stream(bytes(sofar))
                if tl or er or not fr or fr[-1][0] >> 4 != 14:
                    out.append(V('disconnect() returned Ok but its DISCONNECT is not a whole packet of the stream: '
                                 'it was written inside another packet (…%s)' % bytes(sofar).hex()[-24:],
                                 classify_c01(c, acts, None)))
        names = [p['type'] for p in pk]
        if 'DISCONNECT' in names:
            k = names.index('DISCONNECT')
            if k != len(pk) - 1 or tail:
                out.append(V('bytes follow a DISCONNECT: %s' % c['wire'].hex()[-40:], classify_c01(c, acts, None)))
        if tail:
            # the tail must be the beginning of one packet: a legal first byte at least
            typ = tail[0] >> 4
            if typ not in mqttspec.NAMES:
                out.append(V('partial packet starts with illegal type %d' % typ, classify_c01(c, acts, None)))
    return out


def classify_c01(c, acts, p):
    """K01b: disconnect() issued while another packet was half written; K01c: a cancelled disconnect()"""
    for i in c['actions']:
        a = acts[i]
        if a.code == 4:
            if a.result == 'cancelled' and any(e[0] == 'w' and e[2] for e in a.events):
                return 'K01c'
            prev = acts[i - 1].state if i > 0 else None
            if prev and any(':W' in x and not x.endswith(':W0') and ':W0:' not in x
                            for key in ('ret', 'ctl', 'rel') for x in list_field(prev.get(key, '[]'))):
                return 'K01b'
    return None


# ---------------------------------------------------------------- C11
def mon_c11(case_line, acts):
    out = []
    dead = False
    # a DISCONNECT of the broker, once read, ends the connection whatever its reason code says
    bye = {}
    for ev in Flow(acts).events:
        if ev[0] == 'rx' and ev[2] == 0xE0:
            bye.setdefault(ev[4], ev[3])
    for i, a in enumerate(acts):
        st = a.state or {}
        if i in bye and st.get('conn') == '1' and a.code in NETOPS and a.result not in ('PANIC', 'FUEL'):
            if st.get('live') != '0' or a.result not in ('err Disconnected', 'err InvalidPacket'):
                out.append(V('the broker sent DISCONNECT (%s) during action #%d (%d): result %r, live=%s - the handle must be dead'
                             % (bytes(bye[i]).hex(), i, a.code, a.result, st.get('live'))))
        if a.code == 0 or a.code == 10:
            dead = False
        if st.get('conn') != '1':
            dead = False
            continue
        if dead:
            if a.code in NETOPS:
                io = [e for e in a.events if e[0] in 'wrf']
                if io:
                    out.append(V('action #%d (%d) touched the transport after the handle died: %s' % (i, a.code, io[:2])))
                want = 'ok done' if a.code == 4 else 'err Disconnected'
                if a.result != want:
                    out.append(V('action #%d (%d) on a dead handle returned %r' % (i, a.code, a.result)))
            if st.get('live') != '0' or st.get('cp') != '000':
                out.append(V('dead handle reports live=%s cp=%s at action #%d' % (st.get('live'), st.get('cp'), i)))
        else:
            fatal = a.code in NETOPS and a.result in ('err Transport', 'err Disconnected', 'err InvalidPacket')
            if a.code == 1 and a.detail == '0' and a.result == 'err Transport' and False:
                fatal = False
            if a.code == 4 and a.result is not None and a.result != 'cancelled' and not a.result.startswith('err InvalidRequest') \
                    and not a.result.startswith('err BufferTooSmall') and not a.result.startswith('err PacketTooLarge'):
                fatal = True
            if a.code == 11:
                fatal = True
            if fatal and st.get('live') != '0':
                out.append(V('%r at action #%d did not latch the handle (live=%s)' % (a.result, i, st.get('live'))))
        if st.get('live') == '0':
            dead = True
    return out


# ---------------------------------------------------------------- C14
def mon_c14(case_line, acts):
    out = []
    cfg = case_cfg(case_line)
    for c in connections(acts):
        pk, tail, problems = mqttspec.parse_client_stream(c['wire'], strict_flags=False)
        if pk and pk[0]['type'] == 'CONNECT':
            mps = dict(pk[0].get('props', [])).get(0x27)
            if mps != cfg['rx'] and cfg['rx'] > 0:
                out.append(V('CONNECT advertises Maximum Packet Size %s, receive buffer is %d' % (mps, cfg['rx'])))
        info = connack_info(c['inbound'])
        if not info or info[1] >= 0x80:
            continue
        limit = info[2].get(0x27)
        if limit is None:
            continue
        for p in pk[1:]:
            if len(p['raw']) > limit:
                out.append(V('%s of %d bytes sent, broker Maximum Packet Size is %d' % (p['type'], len(p['raw']), limit)))
    # inbound: a read window never exceeds the receive buffer
    for i, a in enumerate(acts):
        for e in a.events:
            if e[0] == 'r' and e[1] > max(cfg['rx'], 0):
                out.append(V('read window of %d bytes with a %d byte receive buffer' % (e[1], cfg['rx'])))
    # inbound: a packet longer than the advertised maximum ends the connection (it is not merely refused)
    consumed = bytearray()
    for i, a in enumerate(acts):
        if a.code == 0:
            consumed = bytearray()
        for e in a.events:
            if e[0] == 'r' and e[2]:
                consumed += bytes.fromhex(e[3])
        st = a.state or {}
        if (a.result or '') == 'err InvalidPacket' and st.get('live') == '1' and cfg['rx'] > 0:
            # walk the frames the reader has seen; is the one it stopped at longer than the receive buffer?
            pos = 0
            over = None
            b = bytes(consumed)
            while pos < len(b):
                try:
                    n, j = mqttspec.varint(b, pos + 1)
                except (mqttspec.Malformed, IndexError):
                    break
                total = (j - pos) + n
                if total > cfg['rx']:
                    over = total
                    break
                pos += total
            if over is not None:
                out.append(V('an inbound packet of %d bytes exceeds the advertised Maximum Packet Size %d; action #%d refuses it '
                             'with InvalidPacket but leaves the connection live' % (over, cfg['rx'], i)))
                break
    return out


def mon_refused_too_large(case_line, acts):
    """a publish / subscribe / unsubscribe refused with the packet-too-large error has retained nothing: the refused packet
    must not sit in the queue, where no acknowledgement can ever remove it and every later poll() stumbles over it"""
    out = []
    for i, a in enumerate(acts):
        if i == 0 or a.code not in (1, 2, 3) or (a.result or '') != 'err PacketTooLarge':
            continue
        st, prev = a.state or {}, acts[i - 1].state or {}
        if 'ret' not in st or 'ret' not in prev:
            continue
        ids = lambda x: [e.split(':')[0] for e in list_field(x.get('ret', '[]'))]
        new = [p for p in ids(st) if p not in ids(prev)]
        if new:
            out.append(V('the request of action #%d was refused with PacketTooLarge but its packet (identifier %s) stays '
                         'retained: nothing will ever acknowledge it' % (i, new)))
            break
    return out


# ---------------------------------------------------------------- C06 / C07 / C02 / C03: wire + ack accounting
class Flow:
    """incremental view of one session: client packets completed on the wire and acks consumed, in event order"""

    def __init__(self, acts):
        self.events = []   # ('tx', conn#, packet dict) | ('rx', conn#, first, body) | ('conn', conn#, sp, reason, props) | ('op', i)
        conn = -1
        wire = bytearray()
        inb = bytearray()
        wpos = 0
        ipos = 0
        garbled = False
        for i, a in enumerate(acts):
            if a.code == 0:
                conn += 1
                wire = bytearray()
                inb = bytearray()
                wpos = ipos = 0
                garbled = False
                self.events.append(('newconn', conn, i))
            if garbles(a, acts[i - 1].state if i > 0 else None):
                garbled = True      # see trace.garbles: nothing written from here on can be decoded
            for e in a.events:
                if e[0] == 'w' and e[2] and garbled:
                    continue
                if e[0] == 'w' and e[2]:
                    wire += bytes.fromhex(e[3])
                    frames, tail, err = mqttspec.split_stream(wire[wpos:])
                    for first, body, raw in frames:
                        try:
                            p = mqttspec.parse_packet(first, body, strict_flags=False)
                        except mqttspec.Malformed as ex:
                            p = {'type': 'MALFORMED', 'error': str(ex), 'first': first}
                        p['raw'] = raw
                        self.events.append(('tx', conn, p, i))
                        wpos += len(raw)
                elif e[0] == 'r' and e[2]:
                    inb += bytes.fromhex(e[3])
                    pk = parse_server_packets(inb[ipos:])
                    for first, body in pk:
                        self.events.append(('rx', conn, first, body, i))
                        ipos += 1 + len(body) + len(_varint_bytes(len(body)))
            self.events.append(('end', conn, i))


def _varint_bytes(n):
    out = bytearray()
    while True:
        b = n % 128
        n //= 128
        if n:
            b |= 0x80
        out.append(b)
        if not n:
            return bytes(out)


def mon_acked_never_again(case_line, acts):
    """C02 / C03, from the wire alone (no client state is consulted, so a client whose bookkeeping is wrong cannot
    excuse itself): once the PUBACK of a QoS 1 PUBLISH, or the PUBREC of a QoS 2 PUBLISH, that was written whole on the
    current connection has been read by the client, that PUBLISH is never written again - not on this connection, not
    with DUP on a later one.  A new message that reuses the identifier starts without DUP and opens a new exchange."""
    out = []
    fl = Flow(acts)
    sent = {}      # pid -> (image modulo DUP, qos, connection of the last whole transmission)
    acked = {}     # pid -> (image, action index of the acknowledgement)
    for ev in fl.events:
        if ev[0] == 'newconn':
            if (acts[ev[2]].result or '') == 'ok connected':
                sent = {}; acked = {}
        elif ev[0] == 'tx':
            p = ev[2]
            if p['type'] != 'PUBLISH' or p.get('qos', 0) == 0:
                continue
            pid, img = p['pid'], _nodup(p['raw'])
            if pid in acked and acked[pid][0] == img and p['dup']:
                out.append(V('PUBLISH id %d (QoS %d) written again with DUP at action #%d although its %s was read at action #%d'
                             % (pid, p['qos'], ev[3], 'PUBACK' if p['qos'] == 1 else 'PUBREC', acked[pid][1])))
                return out
            if not p['dup']:
                acked.pop(pid, None)
            sent[pid] = (img, p['qos'], ev[1])
        elif ev[0] == 'rx' and (ev[2] >> 4) in (4, 5):
            try:
                pk = mqttspec.parse_server_packet(ev[2], ev[3])
            except Exception:
                continue
            pid = pk.get('pid')
            typ = ev[2] >> 4
            if pid in sent and sent[pid][2] == ev[1] and sent[pid][1] == (1 if typ == 4 else 2):
                acked[pid] = (sent[pid][0], ev[4])
    return out


def mon_c06(case_line, acts):
    """unresolved QoS>0 PUBLISH packets never exceed the Receive Maximum of the current CONNACK"""
    out = []
    # "no QoS 2 exchange is ever dropped because too many of them are waiting for PUBCOMP": a PUBREC for a retained QoS 2
    # PUBLISH is never answered with the in-flight-exhausted error
    for i0, a0 in enumerate(acts):
        if a0.code in (5, 6, 7) and (a0.result or '') == 'err InflightExhausted' and i0 > 0:
            before = _ret_bytes(acts[i0 - 1].state)
            after = _ret_bytes(a0.state)
            gone = [pid for pid, img in before.items() if pid not in after and img and img[0] >> 4 == 3 and (img[0] >> 1) & 3 == 2]
            if gone:
                out.append(V('action #%d returned InflightExhausted: the PUBREC of the QoS 2 publish %s removed the PUBLISH but no '
                             'release slot was left - the exchange is dropped' % (i0, gone)))
                return out
    fl = Flow(acts)
    unresolved = {}        # pid -> qos
    released = set()       # QoS 2 identifiers whose PUBREL has been written
    subs = set()           # identifiers of SUBSCRIBE / UNSUBSCRIBE packets awaiting their acknowledgement
    overrun_conn = None
    rm = 65535
    first_on_conn = False
    # a QoS 0 publish dropped in the middle of its packet (documented as not cancel-safe) garbles the stream: what
    # the broker — and this monitor — can decode afterwards is undefined, so the accounting stops there
    garbled = next((i for i, a in enumerate(acts) if garbles(a, acts[i - 1].state if i > 0 else None)), None)
    for ev in fl.events:
        if garbled is not None and ev[0] in ('tx', 'rx') and ev[-1] >= garbled:
            return out
        if ev[0] == 'newconn':
            first_on_conn = True
        elif ev[0] == 'rx':
            first, body = ev[2], ev[3]
            typ = first >> 4
            if first_on_conn:
                first_on_conn = False
                if typ == 2 and len(body) >= 3 and body[1] < 0x80:
                    info = connack_info(bytes([first]) + _varint_bytes(len(body)) + body)
                    if info:
                        if not info[0]:
                            unresolved = {}
                            released = set()
                            subs = set()
                        rm = info[2].get(0x21, 65535)
                        if len(unresolved) > rm:
                            # environment assumption of C06: a resumed CONNACK leaves room for what is carried
                            # over (retransmission is mandatory, no client can satisfy a shrunken window)
                            return out
                continue
            if len(body) >= 2:
                pid = (body[0] << 8) | body[1]
                rc = body[2] if len(body) > 2 else 0
                if typ in (9, 11):
                    subs.discard(pid)
                if typ in (4, 5) and pid in subs and pid not in unresolved:
                    return out      # a PUBACK / PUBREC naming a SUBSCRIBE or UNSUBSCRIBE: off protocol (same assumption)
                if typ in (9, 11) and pid in unresolved:
                    # a SUBACK / UNSUBACK naming a PUBLISH: the broker is off protocol (the client matches
                    # acknowledgements by identifier only; stated environment assumption of C06 and C18)
                    return out
                # the property's own definition: resolved by a PUBACK, a PUBCOMP or a PUBREC with a failure code
                if typ == 4 and pid in unresolved:
                    del unresolved[pid]
                elif typ == 5 and pid in unresolved and rc >= 0x80:
                    del unresolved[pid]
                elif typ == 7 and pid in unresolved:
                    if pid not in released:
                        # a PUBCOMP for an exchange whose PUBREL was never sent: the broker is off protocol (the client
                        # ignores it); same environment assumption as "PUBACK / PUBREC name PUBLISH packets"
                        return out
                    del unresolved[pid]
                    released.discard(pid)
        elif ev[0] == 'tx':
            p = ev[2]
            if p['type'] == 'PUBREL':
                released.add(p['pid'])
            if p['type'] in ('SUBSCRIBE', 'UNSUBSCRIBE'):
                subs.add(p.get('pid'))
            if p['type'] == 'MALFORMED' and p['first'] >> 4 == 3 and (p['first'] >> 1) & 3:
                # a PUBLISH the strict decoder rejects (invalid user input such as an empty topic) still occupies a slot
                try:
                    n, j = mqttspec.varint(p['raw'], 1)
                    tl = (p['raw'][j] << 8) | p['raw'][j + 1]
                    k = j + 2 + tl
                    p = {'type': 'PUBLISH', 'qos': (p['first'] >> 1) & 3, 'pid': (p['raw'][k] << 8) | p['raw'][k + 1]}
                except Exception:
                    return out
            if p['type'] == 'PUBLISH' and p.get('qos', 0) > 0:
                first_time = p['pid'] not in unresolved
                unresolved[p['pid']] = p['qos']
                if len(unresolved) > rm:
                    cls = None
                    # K06r: on a resumed connection a publish that was accepted (retained) on an earlier connection
                    # but never reached the wire is sent although the new window is already full
                    ai = ev[3]
                    ci = max((j for j in range(ai + 1) if acts[j].code == 0), default=None)
                    if first_time and ci is not None and (acts[ci].result or '') == 'ok reconnected' and ci > 0 \
                            and str(p['pid']) in [x.split(':')[0] for x in list_field((acts[ci - 1].state or {}).get('ret', '[]'))]:
                        cls = 'K06r'
                        overrun_conn = ev[1]
                    elif overrun_conn == ev[1]:
                        cls = 'K06r'      # the client's quota stays off by the overrun for the rest of that connection
                    out.append(V('%d unresolved QoS>0 PUBLISH packets (ids %s) with Receive Maximum %d'
                                 % (len(unresolved), sorted(unresolved), rm), cls))
    return out


def mon_c07(case_line, acts):
    """identifiers of operations in flight are non-zero and pairwise distinct (from the snapshots)"""
    out = []
    for i, a in enumerate(acts):
        st = a.state or {}
        ids = [x.split(':')[0] for x in list_field(st.get('ret', '[]'))] + \
              [x.split(':')[0] for x in list_field(st.get('rel', '[]'))]
        if '0' in ids:
            out.append(V('packet identifier 0 in flight at action #%d' % i))
        if len(set(ids)) != len(ids):
            out.append(V('identifier in use twice at action #%d: ret=%s rel=%s' % (i, st.get('ret'), st.get('rel'))))
    # on the wire: a publish / subscribe / unsubscribe call never writes an identifier-bearing packet whose identifier
    # belongs to ANOTHER operation still in flight (the snapshot may never come: the engine can loop on the collision)
    fl = Flow(acts)
    tx = {}
    for ev in fl.events:
        if ev[0] == 'tx':
            tx.setdefault(ev[3], []).append(ev[2])
    for i, a in enumerate(acts):
        if a.code not in (1, 2, 3) or i == 0 or not acts[i - 1].state:
            continue
        prev = acts[i - 1].state
        held = {}
        for x in list_field(prev.get('ret', '[]')):
            f = x.split(':')
            if len(f) >= 5:
                held[int(f[0])] = bytes.fromhex(f[4])
        rel = {int(x.split(':')[0]) for x in list_field(prev.get('rel', '[]'))}
        for p in tx.get(i, []):
            if p['type'] not in ('PUBLISH', 'SUBSCRIBE', 'UNSUBSCRIBE') or not p.get('pid'):
                continue
            pid, raw = p['pid'], p['raw']
            same = pid in held and len(held[pid]) == len(raw) and held[pid][1:] == raw[1:] and (held[pid][0] | 8) == (raw[0] | 8)
            if (pid in held and not same) or pid in rel:
                out.append(V('action #%d wrote %s with identifier %d while another operation holding that identifier awaits its '
                             'acknowledgement (in flight before the call: ret=%s rel=%s)'
                             % (i, p['type'], pid, sorted(held), sorted(rel))))
                return out
    return out


def mon_c18(case_line, acts):
    """a handle never goes back from complete/invalidated to pending, and from invalidated to anything else"""
    out = []
    prev = []
    for i, a in enumerate(acts):
        st = a.state or {}
        hs = list_field(st.get('h', '[]'))
        for k, (x, y) in enumerate(zip(prev, hs)):
            if x == 'I' and y != 'I':
                out.append(V('handle %d left the invalidated state at action #%d' % (k, i)))
            if x == 'C' and y == 'P':
                out.append(V('handle %d went from complete back to pending at action #%d' % (k, i)))
        prev = hs
    return out


def mon_none(case_line, acts):
    return []


# ---------------------------------------------------------------- C19
def mon_c19(case_line, acts):
    """a refused request (InvalidRequest) leaves no trace: no I/O for subscribe/unsubscribe/disconnect, and the
    in-flight state, identifier counter, quota and handles are as before"""
    out = []
    prev = None
    for i, a in enumerate(acts):
        st = a.state or {}
        if a.result == 'err InvalidRequest' and prev is not None and a.code in (1, 2, 3, 4):
            if a.code != 1 and any(e[0] in 'wrf' for e in a.events):
                out.append(V('refused request at action #%d performed I/O: %s' % (i, a.events[:2])))
            ids = lambda s: [x.split(':')[0] for x in list_field(s.get('ret', '[]'))]
            for key in ('pid', 'quota', 'h', 'rel', 'gen', 'srv'):
                if st.get(key) != prev.get(key) and not (a.code == 1 and key in ('rel',)):
                    out.append(V('refused request at action #%d changed %s: %s -> %s' % (i, key, prev.get(key), st.get(key))))
            if ids(st) != ids(prev):
                out.append(V('refused request at action #%d changed the retained list: %s -> %s'
                             % (i, prev.get('ret'), st.get('ret'))))
            # a request refused before any I/O leaves the connection as it was: still usable, nothing queued or dropped
            if not any(e[0] in 'wrf' for e in a.events):
                for key in ('live', 'conn', 'ctl', 'used', 'sp'):
                    if key in st and key in prev and st.get(key) != prev.get(key):
                        out.append(V('refused request at action #%d changed %s: %s -> %s' % (i, key, prev.get(key), st.get(key))))
        # a request on a dead handle: the documented error, no I/O, nothing allocated, queued or retained
        if prev is not None and prev.get('conn') == '1' and prev.get('live') == '0' and a.code in (1, 2, 3, 4) and a.result not in (None, 'PANIC'):
            if a.code != 4 and a.result not in ('err Disconnected', 'err InvalidRequest'):
                out.append(V('request at action #%d on a dead handle returned %r, not the disconnected error' % (i, a.result)))
            if any(e[0] in 'wrf' for e in a.events):
                out.append(V('request at action #%d on a dead handle performed I/O: %s' % (i, a.events[:2])))
            for key in ('ret', 'rel', 'ctl', 'pid', 'quota', 'h', 'gen', 'used', 'srv'):
                if key in st and key in prev and st.get(key) != prev.get(key):
                    out.append(V('request at action #%d on a dead handle (result %r) changed %s: %s -> %s'
                                 % (i, a.result, key, prev.get(key), st.get(key))))
                    break
        prev = st
    return out


def mon_c19_wire(case_line, acts):
    """no packet on the wire carries a property that is illegal for its type or has an illegal value"""
    out = []
    for c in connections(acts):
        pk, tail, problems = mqttspec.parse_client_stream(c['wire'], strict_flags=False)
        for p in pk:
            if p['type'] == 'MALFORMED':
                e = p['error']
                if 'is not allowed in' in e or 'flag property' in e or 'Topic Alias 0' in e or \
                        'Subscription Identifier' in e or 'unknown property' in e:
                    out.append(V('a packet with an illegal property was sent: %s (%s)' % (e, p['raw'].hex()[:80])))
    return out


# ---------------------------------------------------------------- C17
def mon_c17(case_line, acts):
    """while a packet stays retained its bytes never change except for the DUP bit (bit 3 of the first byte);
    entries never overlap and stay inside the arena"""
    out = []
    prev = {}
    prev_gen = None
    for i, a in enumerate(acts):
        st = a.state or {}
        cur = {}
        spans = []
        for x in list_field(st.get('ret', '[]')):
            f = x.split(':')
            if len(f) < 5:
                continue
            pid, off, ln, hexb = f[0], int(f[1]), int(f[2]), f[4]
            if hexb == '!':
                out.append(V('retained entry %s lies outside the arena at action #%d' % (pid, i)))
                continue
            cur[pid] = hexb
            spans.append((off, off + ln, pid))
        cap = int(st.get('cap', '0') or 0)
        used = int(st.get('used', '0') or 0)
        spans.sort()
        for (a0, a1, p0), (b0, b1, p1) in zip(spans, spans[1:]):
            if a1 > b0:
                out.append(V('retained entries %s and %s overlap at action #%d' % (p0, p1, i)))
        if 'ret' in st and 'used' in st and not list_field(st.get('ret', '[]')) and used != 0:
            out.append(V('nothing is retained at action #%d but %d of the %d bytes of the arena still count as used: a quiescent '
                         'arena must offer its whole capacity again' % (i, used, cap)))
        if spans and spans[-1][1] > max(used, 0) or used > cap:
            out.append(V('arena bookkeeping broken at action #%d: used=%d cap=%d last end=%s' % (i, used, cap, spans[-1][1] if spans else '-')))
        if st.get('gen') == prev_gen:
            for pid, hexb in cur.items():
                if pid in prev:
                    old = prev[pid]
                    norm = lambda h: ('%02x' % (int(h[:2], 16) & ~8)) + h[2:] if h else h
                    if norm(old) != norm(hexb):
                        # the same identifier may have been acknowledged and reallocated within one action
                        if a.code in (1, 2, 3) and a.result and a.result.startswith('ok op'):
                            continue
                        out.append(V('bytes of retained packet %s changed at action #%d: %s -> %s' % (pid, i, old[:60], hexb[:60])))
        prev = cur
        prev_gen = st.get('gen')
    return out


def mon_c17_admission(case_line, acts):
    """the room the admission gate sees is the capacity minus the bytes of the packets that ARE retained, nothing else:
    can_publish(QoS 0) <=> live and at least 5 bytes are free once the retained packets are packed; for QoS 1 / 2
    additionally an open send window and a free slot.  In particular a session with nothing retained admits what a new
    session with the same buffers admits, however many sessions, reconnects and discarded packets lie behind it."""
    out = []
    for i, a in enumerate(acts):
        st = a.state or {}
        cp = st.get('cp', '---')
        if len(cp) != 3 or '-' in cp or 'cap' not in st or 'ret' not in st or 'live' not in st or 'quota' not in st:
            continue
        ret = [x.split(':') for x in list_field(st.get('ret', '[]'))]
        if any(len(f) < 3 for f in ret):
            continue
        free = int(st['cap']) - sum(int(f[2]) for f in ret)
        live = st['live'] == '1'
        want0 = live and free >= 5
        want12 = want0 and int(st['quota']) > 0 and len(ret) < 8
        want = '%d%d%d' % (want0, want12, want12)
        if cp != want:
            out.append(V('after action #%d can_publish reports %s for QoS 0/1/2; with %d of %d bytes taken by %d retained '
                         'packets, send window %s, live=%s it should be %s: the arena does not offer what it has'
                         % (i, cp, int(st['cap']) - free, int(st['cap']), len(ret), st['quota'], st['live'], want)))
            break
    return out


# ---------------------------------------------------------------- C02 / C03: replay
def _nodup(raw):
    return bytes([raw[0] & ~8]) + raw[1:]


def _ret_bytes(st):
    """pid -> bytes (DUP cleared) of the retained entries of a snapshot"""
    out = {}
    for x in list_field((st or {}).get('ret', '[]')):
        f = x.split(':')
        if len(f) >= 5 and f[4] not in ('', '!'):
            out[int(f[0])] = _nodup(bytes.fromhex(f[4]))
    return out


def mon_c02(case_line, acts):
    """every QoS>0 PUBLISH on the wire is the byte image (modulo DUP) of a retained packet; it is written at most
    once per connection; without DUP only on the connection that accepted it; never after it left the retained list;
    complete transmissions follow the order of the retained list"""
    out = []
    fl = Flow(acts)
    seen_on_conn = {}     # (conn, pid, bytes) -> count
    first_conn = {}       # (pid, bytes) -> connection of first transmission
    per_action_tx = {}
    for ev in fl.events:
        if ev[0] == 'tx':
            per_action_tx.setdefault(ev[3], []).append((ev[1], ev[2]))
    cur_conn = -1
    conn_garbled = False
    written_whole = set()   # (conn, bytes modulo DUP) of every packet completed on the wire
    for i, a in enumerate(acts):
        before = _ret_bytes(acts[i - 1].state) if i > 0 else {}
        after = _ret_bytes(a.state)
        order_before = [int(x.split(':')[0]) for x in list_field((acts[i - 1].state or {}).get('ret', '[]'))] if i > 0 else []
        last_pos = -1
        for conn, p in per_action_tx.get(i, []):
            written_whole.add((conn, _nodup(p['raw'])))
            if p['type'] != 'PUBLISH' or p.get('qos', 0) == 0:
                continue
            pid = p['pid']
            img = _nodup(p['raw'])
            if before.get(pid) != img and after.get(pid) != img:
                out.append(V('PUBLISH id %d written at action #%d is not the image of a retained packet: %s'
                             % (pid, i, p['raw'].hex()[:60])))
                continue
            key = (conn, pid, img)
            seen_on_conn[key] = seen_on_conn.get(key, 0) + 1
            if seen_on_conn[key] > 1:
                out.append(V('PUBLISH id %d written twice on one connection (action #%d)' % (pid, i)))
            fc = first_conn.setdefault((pid, img), conn)
            if p['dup'] is False and fc != conn:
                out.append(V('PUBLISH id %d retransmitted on a later connection without DUP (action #%d)' % (pid, i)))
            if pid in order_before:
                pos = order_before.index(pid)
                if pos < last_pos:
                    out.append(V('retained PUBLISH packets written out of acceptance order at action #%d' % i))
                last_pos = max(last_pos, pos)
        # marked sent on this connection: then it has been written on this connection, whole (a resumed connection
        # retransmits every retained PUBLISH from its first byte)
        if a.code == 0:
            cur_conn += 1
            conn_garbled = False
        if garbles(a, acts[i - 1].state if i > 0 else None):
            conn_garbled = True
        if not conn_garbled and a.state:
            for x in list_field(a.state.get('ret', '[]')):
                f = x.split(':')
                if len(f) >= 5 and f[3] == 'S' and f[4] not in ('', '!'):
                    raw = bytes.fromhex(f[4])
                    if raw and raw[0] >> 4 == 3 and (cur_conn, _nodup(raw)) not in written_whole:
                        out.append(V('retained PUBLISH id %s is marked sent at action #%d but was never written whole on '
                                     'this connection' % (f[0], i)))
                        conn_garbled = True     # report once per connection
        # an identifier that has left the retained list (acknowledged, or wiped by a fresh broker session) may be used
        # again by a new message with the very same bytes: forget its history
        if a.code == 0 and a.result == 'ok connected':
            first_conn.clear()
        for key in [k for k in first_conn if after.get(k[0]) != k[1]]:
            del first_conn[key]
    return out


def mon_c03(case_line, acts):
    """PUBREL only after a successful PUBREC for that identifier; after the PUBREC was consumed the PUBLISH is not
    written again; replayed PUBRELs follow the order of the release list"""
    out = []
    fl = Flow(acts)
    per_action = {}
    for ev in fl.events:
        if ev[0] == 'tx':
            per_action.setdefault(ev[3], []).append(('tx', ev[2]))
        elif ev[0] == 'rx':
            per_action.setdefault(ev[4], []).append(('rx', ev[2], ev[3]))
    sent_q2 = set()       # QoS 2 identifiers whose PUBLISH has been written completely
    pubrec_seen = set()   # ... and for which a successful PUBREC has been consumed since
    rec_order = []        # reference: identifiers awaiting PUBCOMP in the order their PUBRECs were consumed
    for i, a in enumerate(acts):
        prev = acts[i - 1].state if i > 0 else {}
        rel_before = [int(x.split(':')[0]) for x in list_field((prev or {}).get('rel', '[]'))]
        if a.code == 0 and a.result == 'ok connected':
            rec_order = []
        for ev in per_action.get(i, []):
            if ev[0] == 'rx' and len(ev[2]) >= 2:
                pid = (ev[2][0] << 8) | ev[2][1]
                if ev[1] >> 4 == 5 and (len(ev[2]) < 3 or ev[2][2] < 0x80) and pid not in rec_order:
                    rec_order.append(pid)
                if ev[1] >> 4 == 7 and pid in rec_order:
                    rec_order.remove(pid)
        if a.state is not None:
            rel_after = [int(x.split(':')[0]) for x in list_field(a.state.get('rel', '[]'))]
            rec_order = [p_ for p_ in rec_order if p_ in rel_after]      # stale PUBRECs never entered the list
            if sorted(rec_order) == sorted(rel_after) and rec_order != rel_after and len(set(rel_after)) == len(rel_after):
                out.append(V('after action #%d the release list is %s but the PUBRECs were received in the order %s: '
                             'replayed PUBRELs would not keep the PUBREC order' % (i, rel_after, rec_order)))
                rec_order = list(rel_after)
        # every successful PUBREC (any reason code below 0x80) for a QoS 2 PUBLISH still retained is followed by its PUBREL:
        # after the action that consumed it the exchange sits in the release list (or has already been completed)
        if a.state is not None and a.code in (5, 6, 7) and not (a.result or '').startswith('err') and prev:
            before = _ret_bytes(prev)
            rel_now = [int(x.split(':')[0]) for x in list_field(a.state.get('rel', '[]'))]
            evs_i = per_action.get(i, [])
            comps = [((e[2][0] << 8) | e[2][1]) for e in evs_i if e[0] == 'rx' and e[1] >> 4 == 7 and len(e[2]) >= 2]
            named = set()       # identifiers an earlier acknowledgement of this action has already released (a broker that
                                # answers a QoS 2 PUBLISH with a PUBACK or SUBACK is outside the property's quantifier)
            for e in evs_i:
                if e[0] == 'rx' and e[1] >> 4 in (4, 9, 11) and len(e[2]) >= 2:
                    named.add((e[2][0] << 8) | e[2][1])
                if e[0] == 'rx' and e[1] >> 4 == 5 and len(e[2]) >= 2 and ((e[2][0] << 8) | e[2][1]) in named:
                    continue
                if e[0] == 'rx' and e[1] >> 4 == 5 and len(e[2]) >= 2:
                    named.add((e[2][0] << 8) | e[2][1]) if (len(e[2]) >= 3 and e[2][2] >= 0x80) else None
                if e[0] == 'rx' and e[1] >> 4 == 5 and len(e[2]) >= 2 and (len(e[2]) < 3 or e[2][2] < 0x80):
                    pid = (e[2][0] << 8) | e[2][1]
                    img = before.get(pid)
                    if img and img[0] >> 4 == 3 and (img[0] >> 1) & 3 == 2 and pid not in rel_now and pid not in comps \
                            and pid not in _ret_bytes(a.state):
                        out.append(V('the PUBREC of QoS 2 publish %d (reason 0x%02x, a success) was consumed at action #%d: the PUBLISH '
                                     'is gone but no PUBREL is owed - the exchange ends without PUBREL'
                                     % (pid, e[2][2] if len(e[2]) >= 3 else 0, i)))
        owed = set(rel_before)
        released = set()
        last = -1
        if a.code == 0 and a.result == 'ok connected':
            sent_q2.clear()
            pubrec_seen.clear()
        for ev in per_action.get(i, []):
            if ev[0] == 'rx':
                first, body = ev[1], ev[2]
                if first >> 4 == 5 and len(body) >= 2 and (len(body) < 3 or body[2] < 0x80):
                    pid = (body[0] << 8) | body[1]
                    owed.add(pid)
                    released.add(pid)
                    if pid in sent_q2:
                        pubrec_seen.add(pid)
                if first >> 4 == 7 and len(body) >= 2:
                    pid = (body[0] << 8) | body[1]
                    pubrec_seen.discard(pid)
                    sent_q2.discard(pid)
                continue
            p = ev[1]
            if p['type'] == 'PUBLISH' and p.get('qos') == 2:
                if not p['dup']:
                    pubrec_seen.discard(p['pid'])      # a new exchange reusing the identifier
                elif p['pid'] in pubrec_seen:
                    out.append(V('QoS 2 PUBLISH %d retransmitted at action #%d although its PUBREC had been received'
                                 % (p['pid'], i)))
                sent_q2.add(p['pid'])
            if p['type'] == 'PUBREL':
                pid = p['pid']
                if pid not in owed:
                    out.append(V('PUBREL %d written at action #%d without a successful PUBREC (release list before: %s)'
                                 % (pid, i, rel_before)))
                if pid in rel_before:
                    pos = rel_before.index(pid)
                    if pos < last:
                        out.append(V('PUBRELs written out of PUBREC order at action #%d: release list %s' % (i, rel_before)))
                    last = max(last, pos)
            if p['type'] == 'PUBLISH' and p.get('qos') == 2 and (p['pid'] in rel_before or p['pid'] in released):
                if p['pid'] not in _ret_bytes(a.state) and p['pid'] not in _ret_bytes(prev):
                    out.append(V('QoS 2 PUBLISH %d written again after its PUBREC (action #%d)' % (p['pid'], i)))
    return out


def mon_c05(case_line, acts):
    """CONNECT clean-start mirrors 'no CONNACK has succeeded yet'; a fresh session invalidates every earlier
    handle and empties the in-flight lists; a resumed one keeps them"""
    out = []
    succeeded = False
    discarded = 0      # handles 0..discarded-1 were issued before the latest fresh session: invalidated for good
    for i, a in enumerate(acts):
        if a.code != 0:
            hs = list_field((a.state or {}).get('h', '[]'))
            if a.state is not None and any(h != 'I' for h in hs[:discarded]):
                out.append(V('after action #%d handles issued before the fresh session report %s instead of invalidated'
                             % (i, hs[:discarded])))
                discarded = 0      # report once
            continue
        wire = b''.join(bytes.fromhex(e[3]) for e in a.events if e[0] == 'w' and e[2])
        pk, tail, problems = mqttspec.parse_client_stream(wire, strict_flags=False)
        if pk and pk[0]['type'] == 'CONNECT':
            if pk[0]['clean_start'] != (not succeeded):
                out.append(V('CONNECT at action #%d has clean_start=%s although %s CONNACK succeeded before'
                             % (i, pk[0]['clean_start'], 'a' if succeeded else 'no')))
        st = a.state or {}
        prev = acts[i - 1].state if i > 0 else {}
        if a.result == 'ok connected':
            succeeded = True
            nprev = len(list_field((prev or {}).get('h', '[]')))
            hs = list_field(st.get('h', '[]'))
            if any(h != 'I' for h in hs[:nprev]):
                out.append(V('fresh session at action #%d left earlier handles %s' % (i, hs[:nprev])))
            else:
                discarded = nprev
            if st.get('ret') != '[]' or st.get('rel') != '[]' or st.get('srv') != '[]':
                out.append(V('fresh session at action #%d kept in-flight state ret=%s rel=%s srv=%s'
                             % (i, st.get('ret'), st.get('rel'), st.get('srv'))))
        elif a.result == 'ok reconnected':
            succeeded = True
            ids = lambda s, k: [x.split(':')[0] for x in list_field((s or {}).get(k, '[]'))]
            if ids(st, 'ret') != ids(prev, 'ret') or ids(st, 'rel') != ids(prev, 'rel') or st.get('gen') != (prev or {}).get('gen'):
                out.append(V('resumed session at action #%d changed the in-flight lists or the generation' % i))
    return out


def _rel_bytes(x):
    """the PUBREL a release-list entry `pid:reason:state` stands for"""
    f = x.split(':')
    pid, reason = int(f[0]), int(f[1])
    body = bytes([pid >> 8, pid & 255, reason])      # the client always writes the reason code
    return bytes([0x62, len(body)]) + body


def mon_c05_replay(case_line, acts):
    """what a connection carries of an unacknowledged packet starts at the packet's first byte: an entry that is partly
    written (or marked sent) has its first bytes (all its bytes) on the wire of the CURRENT connection; and on a resumed
    connection nothing new that bears an identifier is written while an entry carried over is still waiting"""
    out = []
    wire = bytearray()
    garbled = False
    resumed = None          # snapshot at 'ok reconnected': {'ret': {pid: img}, 'rel': {pid: bytes}}
    whole = set()           # images (DUP cleared) of complete packets written on this connection
    fl = Flow(acts)
    tx = {}
    for ev in fl.events:
        if ev[0] == 'tx':
            tx.setdefault(ev[3], []).append(ev[2])
    reported = set()
    for i, a in enumerate(acts):
        if a.code == 0:
            wire = bytearray()
            garbled = False
            resumed = None
            whole = set()
        if garbles(a, acts[i - 1].state if i > 0 else None):
            garbled = True
        for e in a.events:
            if e[0] == 'w' and e[2]:
                wire += bytes.fromhex(e[3])
        st = a.state
        if garbled or not st:
            continue
        after_ret = _ret_bytes(st)
        after_rel = {int(x.split(':')[0]): _rel_bytes(x) for x in list_field(st.get('rel', '[]')) if x.count(':') >= 2}
        for p in tx.get(i, []):
            img = _nodup(p['raw'])
            if resumed and p['type'] in ('PUBLISH', 'SUBSCRIBE', 'UNSUBSCRIBE', 'MALFORMED') and p['first'] >> 4 in (3, 8, 10) \
                    and not (p['first'] >> 4 == 3 and (p['first'] >> 1) & 3 == 0) \
                    and img not in resumed['ret'].values():
                waiting = [pid for pid, im in resumed['ret'].items() if after_ret.get(pid) == im and im not in whole] + \
                          [pid for pid, im in resumed['rel'].items() if after_rel.get(pid) == im and im not in whole]
                if waiting and ('new', i) not in reported:
                    reported.add(('new', i))
                    out.append(V('a new identifier-bearing packet (%s) is written at action #%d on a resumed connection before '
                                 'the retransmission of identifier(s) %s' % (p['raw'].hex()[:40], i, waiting)))
            whole.add(img)
        if a.code == 0 and a.result == 'ok reconnected':
            resumed = {'ret': dict(after_ret), 'rel': dict(after_rel)}
        # partly written / sent entries: their bytes are on this connection's wire
        w = bytes(wire)
        entries = []
        for x in list_field(st.get('ret', '[]')):
            f = x.split(':')
            if len(f) >= 5 and f[4] not in ('', '!'):
                entries.append((f[0], f[3], bytes.fromhex(f[4])))
        for x in list_field(st.get('rel', '[]')):
            f = x.split(':')
            if len(f) >= 3:
                entries.append((f[0], f[2], _rel_bytes(x)))
        for pid, state, img in entries:
            if state == 'S':
                k = len(img)
            elif state.startswith('W') and state[1:].isdigit():
                k = int(state[1:])
            else:
                continue
            if k == 0 or not img:
                continue
            head = img[:k]
            variants = [head]
            if img[0] >> 4 == 3:
                variants = [bytes([head[0] | 8]) + head[1:], bytes([head[0] & ~8]) + head[1:]]
            if not any(v in w for v in variants) and (pid, 'head') not in reported:
                reported.add((pid, 'head'))
                out.append(V('after action #%d the packet with identifier %s counts as written up to byte %d of %d, but the current '
                             'connection never carried its first bytes: the broker would see the tail of a packet'
                             % (i, pid, k, len(img))))
    return out


def mon_panic(case_line, acts):
    """the client never panics (the harness catches panics and ends the trace with the PANIC marker)"""
    out = []
    for i, a in enumerate(acts):
        if a.result == 'PANIC':
            out.append(V('the client panicked during action #%d' % i))
    return out


def mon_c08_connack(case_line, acts):
    """a CONNACK the client rejects as invalid is not partially acted upon: the client identifier, the session-present
    flag, the generation and the in-flight lists are what they were before that connect()"""
    out = []
    for i, a in enumerate(acts):
        if a.code != 0 or a.result != 'err InvalidPacket' or i == 0:
            continue
        st, prev = a.state or {}, acts[i - 1].state or {}
        ids = lambda s_, k: [x.split(':')[0] for x in list_field(s_.get(k, '[]'))]
        for key in ('cid', 'sp', 'gen'):
            if key in st and key in prev and st[key] != prev[key]:
                out.append(V('connect() at action #%d rejected its CONNACK as invalid, yet %s changed: %s -> %s'
                             % (i, key, prev[key], st[key])))
        for key in ('ret', 'rel'):
            if key in st and key in prev and ids(st, key) != ids(prev, key):
                out.append(V('connect() at action #%d rejected its CONNACK as invalid, yet the %s list changed' % (i, key)))
    return out


def mon_c08(case_line, acts):
    """an inbound packet that the client rejects as invalid kills the handle and is not acted upon: no
    acknowledgement is queued for it and the in-flight lists are as before (modulo the replay rewind)"""
    out = []
    for i, a in enumerate(acts):
        if a.result == 'err InvalidPacket' and a.code in (5, 6, 7) and i > 0:
            st, prev = a.state or {}, acts[i - 1].state or {}
            if st.get('live') != '0':
                out.append(V('InvalidPacket at action #%d did not kill the handle' % i))
            ids = lambda s, k: [x.split(':')[0] for x in list_field(s.get(k, '[]'))]
            for k in ('ret', 'rel'):
                if ids(st, k) != ids(prev, k) and not any(e[0] == 'r' and e[2] for e in a.events[:-1]):
                    out.append(V('InvalidPacket at action #%d changed %s' % (i, k)))
    return out


def mon_c09(case_line, acts):
    """every complete packet the client writes parses under the independent MQTT 5 parser; CONNECT carries the
    configured client id (until the broker assigns one), Receive Maximum 8 and the receive-buffer size"""
    out = []
    cfg = case_cfg(case_line)
    for c in connections(acts):
        pk, tail, problems = mqttspec.parse_client_stream(c['wire'], strict_flags=False)
        if pk and pk[0]['type'] == 'CONNECT':
            props = dict(pk[0].get('props', []))
            if props.get(0x21) != 8:
                out.append(V('CONNECT Receive Maximum is %s, expected 8' % props.get(0x21)))
            if cfg['rx'] > 0 and props.get(0x27) != cfg['rx']:
                out.append(V('CONNECT Maximum Packet Size is %s, receive buffer is %d' % (props.get(0x27), cfg['rx'])))
        for p in pk:
            if p['type'] == 'MALFORMED':
                e = p['error']
                if any(x in e for x in ('empty topic', 'U+0000', 'without topic filter', 'appears twice', 'packet identifier 0',
                                        'is not allowed in', 'flag property', 'Topic Alias 0', 'Subscription Identifier')):
                    continue   # invalid user input / C19 territory / broker identifier 0
                if 'flags' in e:
                    continue   # K01a (C01)
                out.append(V('a packet the client wrote does not parse: %s (%s)' % (e, p['raw'].hex()[:80])))
    return out


# ---------------------------------------------------------------- codec-level monitors (function-level cases)
SERVER_FLAGS = {2: 0, 4: 0, 5: 0, 6: 2, 7: 0, 9: 0, 11: 0, 13: 0, 14: 0}


def mon_decode(case_line, impl_out):
    """cmd 1: whatever the decoder accepts must at least have a legal first byte and a canonical remaining length
    that equals the number of bytes that follow (the listed malformed classes of C08)"""
    t = case_line.split()
    if t[0] != '1' or impl_out == 'ERR' or impl_out.startswith('BADCASE'):
        return []
    b = bytes(int(x) for x in t[2:])
    if impl_out == 'PANIC':
        return [V('the decoder panicked on %s' % b.hex())]
    if impl_out == 'HANG' or impl_out.startswith('CRASH'):
        return [V('the decoder %s on %s' % ('never returns' if impl_out == 'HANG' else 'kills the process', b.hex()[:200]))]
    out = []
    typ, flags = b[0] >> 4, b[0] & 15
    if typ == 3:
        if (flags >> 1) & 3 == 3:
            out.append(V('PUBLISH with QoS 3 accepted: %s' % b.hex()))
    elif typ not in SERVER_FLAGS:
        out.append(V('packet type %d accepted from the broker: %s' % (typ, b.hex())))
    elif flags != SERVER_FLAGS[typ]:
        out.append(V('type %d with flags %d accepted: %s' % (typ, flags, b.hex())))
    try:
        n, j = mqttspec.varint(b, 1)
        if j + n != len(b):
            pass   # the reader, not the decoder, frames packets; the decoder does not compare the two
    except mqttspec.Malformed as e:
        out.append(V('malformed remaining length accepted (%s): %s' % (e, b.hex())))
    except IndexError:
        out.append(V('truncated remaining length accepted: %s' % b.hex()))
    return out


def mon_decode_valid(case_line, impl_out):
    """cmd 1: bytes the independent validator finds to be exactly one certainly valid broker packet must be accepted
    by the decoder (the lazy property iterator is exercised at session level)"""
    t = case_line.split()
    if t[0] != '1' or impl_out.startswith('BADCASE') or impl_out == 'PANIC':
        return []
    b = bytes(int(x) for x in t[2:])
    frames, tail, err = mqttspec.split_stream(b)
    if len(frames) != 1 or tail or err:
        return []
    first, body, raw = frames[0]
    try:
        p = mqttspec.parse_server_packet(first, body)
    except (mqttspec.Malformed, mqttspec.Unsure):
        return []
    if impl_out == 'ERR':
        return [V('the decoder rejects a valid %s: %s' % (p['type'], raw.hex()[:100]))]
    return []


def mon_reply(case_line, impl_out):
    """cmd 11: an independent reading of the inbound PUBLISH: the reply goes to the first Response Topic with the
    first Correlation Data followed by the user's properties; the owned copy is exact or an error"""
    t = case_line.split()
    if t[0] == '11' and (impl_out == 'HANG' or impl_out.startswith('CRASH')):
        return [V('reading the response target of an inbound PUBLISH %s'
                  % ('never returns' if impl_out == 'HANG' else 'kills the process (%s)' % impl_out))]
    if t[0] != '11' or impl_out in ('NOTPUB', 'PANIC') or impl_out.startswith('BADCASE'):
        return [V('reply helper panicked')] if impl_out == 'PANIC' else []
    n = int(t[1])
    buf = bytes(int(x) for x in t[2:2 + n])
    sel = int(t[-1])
    caps = [(0, 0), (1, 1), (4, 4), (8, 2), (2, 8), (16, 16), (64, 64), (128, 128)][min(sel, 7)]
    # independent parse of the inbound publish's properties
    try:
        c = mqttspec.Cur(buf)
        first = c.u8(); c.var()
        c.take(c.u16())
        if (first >> 1) & 3:
            c.u16()
        nblk = c.var()
        blk = mqttspec.Cur(c.take(nblk))
        rt = cd = None
        while not blk.done():
            pid = blk.var()
            shape = mqttspec.PROPS[pid][0]
            v = {'b': blk.u8, '2': blk.u16, '4': blk.u32, 'v': blk.var, 's': blk.utf8, 'd': blk.binary}.get(shape)
            val = v() if v else (blk.utf8(), blk.utf8())
            if pid == 8 and rt is None:
                rt = val
            if pid == 9 and cd is None:
                cd = val
    except Exception:
        return []      # malformed inbound properties: outside C20's quantifier (spec-valid inbound publish)
    out = []
    f = dict(x.split('=', 1) for x in impl_out.split(' ') if '=' in x)
    want_rt = '-' if rt is None else 'x' + rt.hex()
    want_cd = '-' if cd is None else 'x' + cd.hex()
    if f.get('rt') != want_rt or f.get('cd') != want_cd:
        out.append(V('response target differs: got rt=%s cd=%s, inbound has rt=%s cd=%s' % (f.get('rt'), f.get('cd'), want_rt, want_cd)))
    owned = impl_out.split(' owned=')[1] if ' owned=' in impl_out else ''
    owned_pub = None
    if ' p=' in owned:
        owned, owned_pub = owned.split(' p=', 1)
    if rt is None:
        if owned != 'none' or ' reply=none' not in impl_out:
            out.append(V('a reply was offered without a response topic'))
    else:
        fits = len(rt) <= caps[0] and (cd is None or len(cd) <= caps[1])
        want = ('t=x%s c=%s' % (rt.hex(), '-' if cd is None else 'x' + cd.hex())) if fits else 'ERR'
        if owned != want:
            out.append(V('owned response target: got %r, expected %r' % (owned[:80], want[:80])))
        m = impl_out.split(' reply=')[1].split(' owned=')[0]
        if fits and owned_pub != m:
            out.append(V('the publication built from the owned response target differs from reply(): %r vs %r'
                         % ((owned_pub or '')[:80], m[:80])))
        if m.startswith('OK '):
            raw = bytes.fromhex(m.split(' x')[1])
            try:
                n2, j = mqttspec.varint(raw, 1)
                p = mqttspec.parse_packet(raw[0], raw[j:j + n2], strict_flags=False)
                props = p.get('props', [])
                got_cd = [v for k, v in props if k == 9]
                if p['topic'] != rt or (got_cd[:1] != ([cd] if cd is not None else [])):
                    out.append(V('reply publication addresses topic %s / correlation %s' % (p['topic'], got_cd)))
            except mqttspec.Malformed as e:
                if 'appears twice' not in str(e) and 'empty topic' not in str(e):
                    out.append(V('reply publication does not parse: %s' % e))
    return out


# ---------------------------------------------------------------- C10: keep-alive timing
RTT_MS = 5000


def mon_c10(case_line, acts):
    """virtual-time monitor.  Premises of the property made explicit: the gap is measured while the application is
    inside poll()/recv() (an Advance action = the application is away: measurement restarts), from the end of a
    successful connect() (the keep-alive is known from the CONNACK on), on a transport on which no write or flush
    failed, returned zero or was dropped."""
    out = []
    now = 0
    live = False
    tainted = True
    K = 0
    last = None            # time of the last completed client packet, None = not measuring
    outstanding = None     # flush time of the PINGREQ still awaiting its PINGRESP
    answered = None        # (flush time, arrival time of its PINGRESP) of the most recent answered PINGREQ
    wire = bytearray()
    inb = bytearray()
    wpos = ipos = 0
    unflushed = []         # packet types fully written but not yet flushed
    slow = 0               # virtual time that passed inside write calls since `last`
    w_start = None         # clock before a slow write call in progress
    call_start = 0         # clock at the start of the latest write call

    def blocked(deadline):
        # was a PINGREQ awaiting its answer at `deadline`?  (K10: the next PINGREQ is not sent while one is outstanding)
        return (outstanding is not None and outstanding <= deadline) or \
               (answered is not None and answered[0] <= deadline <= answered[1])

    for i, a in enumerate(acts):
        if a.code == 0:
            wire = bytearray(); inb = bytearray(); wpos = ipos = 0; unflushed = []
            tainted = False; outstanding = None; last = None; live = False; answered = None
        if a.code == 9:
            last = None
        if garbles(a, acts[i - 1].state if i > 0 else None):
            tainted = True
        cause = None       # a reason other than keep-alive for this action to report Disconnected
        if not live:
            cause = 'dead'
        for j, e in enumerate(a.events):
            if e[0] == 't' and j + 1 < len(a.events) and a.events[j + 1][0] == 'w':
                # time that passes INSIDE a write call (a slow transport): the client is blocked in the transport, what
                # elapses here is not the client's to answer for - it is discounted from the gaps measured below
                slow += e[1] - now
                w_start = now          # the clock the client read before this call
                now = e[1]
            elif e[0] == 't':
                t = e[1]
                if a.code in (6, 7) and live and not tainted:
                    if outstanding is not None and now >= outstanding + RTT_MS:
                        # the client was serviced at `now`, at or past the armed instant, and went on waiting
                        out.append(V('PINGREQ completed at %d ms unanswered, client serviced at %d ms and still waiting '
                                     '(bound %d ms)' % (outstanding, now, RTT_MS)))
                        tainted = True
                    elif K > 0 and last is not None and now - last - slow > K:
                        # serviced at `now`, more than K after the last completion, and waiting on (a wait that merely
                        # ends past last + K is not counted: the runner's 100 ms re-poll granularity is not the client's)
                        cls = 'K10' if (K < RTT_MS and blocked(last + K)) else None
                        out.append(V('no client packet completed between %d ms and %d ms: gap exceeds the keep-alive of %d ms'
                                     % (last, now, K), cls))
                        last = None
                now = t
            elif e[0] == 'w':
                call_start = w_start if w_start is not None else now
                w_start = None
                if e[2] is None or e[2] == 0:
                    tainted = True
                    cause = 'io'
                else:
                    wire += bytes.fromhex(e[3])
                    frames, tail, err = mqttspec.split_stream(wire[wpos:])
                    for first, body, raw in frames:
                        unflushed.append(first >> 4)
                        wpos += len(raw)
            elif e[0] == 'f':
                if e[1] != 'ok':
                    tainted = True
                    cause = 'io'
                else:
                    if unflushed and not tainted and a.code != 0:
                        if K > 0 and last is not None and now - last - slow > K:
                            cls = 'K10' if (K < RTT_MS and blocked(last + K)) else None
                            out.append(V('client packets completed at %d ms and %d ms%s: gap exceeds the keep-alive of %d ms'
                                         % (last, now, ' (%d ms of it inside transport writes, discounted)' % slow if slow else '', K), cls))
                        last = now
                        slow = 0
                        if 12 in unflushed:
                            if K == 0 and live:
                                out.append(V('PINGREQ sent at %d ms with an effective keep-alive of zero' % now))
                            # "one keep-alive round trip" (state.rs) runs from the clock reading taken before the write
                            # call that completed the PINGREQ: on a transport whose write takes time, the send is part
                            # of the round trip
                            outstanding = call_start
                    unflushed = []
            elif e[0] == 'r':
                if e[2] is None:
                    if e[3] != 'drop':
                        cause = 'io'
                elif e[2] == 0 and e[1] > 0:
                    cause = 'io'
                elif e[2]:
                    inb += bytes.fromhex(e[3])
                    for first, body in parse_server_packets(inb[ipos:]):
                        ipos += 1 + len(body) + len(_varint_bytes(len(body)))
                        if first >> 4 == 13:
                            if outstanding is not None:
                                answered = (outstanding, now)
                            outstanding = None
                        elif first >> 4 == 14 or first >> 4 == 2:
                            cause = 'packet'
        st = a.state or {}
        if 'now' in st and st['now'].isdigit():
            now = int(st['now'])
        res = a.result or ''
        if a.code == 0:
            if res.startswith('ok'):
                live = True
                K = int(st.get('ka', '0')) if st.get('ka', '0').isdigit() else 0
                # the effective keep-alive of THIS connection, from the property text: the Server Keep Alive of this
                # CONNACK if present, otherwise the configured value - nothing an earlier connection said
                pc = parse_case(case_line)
                info = connack_info(bytes(inb))
                if pc is not None and info is not None:
                    want = info[2].get(0x13)
                    want = (pc['cfg']['ka'] % 65536 if want is None else want) * 1000
                    if want != K and 'ka' in st:
                        out.append(V('connection established at action #%d: effective keep-alive is %d ms (%s), the client '
                                     'runs with %d ms' % (i, want, 'Server Keep Alive of this CONNACK' if 0x13 in info[2]
                                                          else 'configured, this CONNACK names none', K)))
                    K = want
                last = now
            else:
                tainted = True
        elif a.code in (6, 7) and live and not tainted and res.startswith('err Disconnected') and cause is None:
            if outstanding is None:
                out.append(V('poll/recv reports Disconnected at %d ms with no PINGREQ outstanding, no transport fault and '
                             'no DISCONNECT from the broker' % now))
            elif now < outstanding + RTT_MS:
                out.append(V('keep-alive disconnect at %d ms, %d ms after the PINGREQ completed (bound %d ms)'
                             % (now, now - outstanding, RTT_MS)))
        if a.code in (4, 10, 11) or st.get('live') == '0':
            live = False
            last = None
            outstanding = None
        if res.startswith('err') and not res.startswith('err NotReady') and a.code in (1, 2, 3, 5, 6, 7) and st.get('live') == '0':
            tainted = True
    return out


# ---------------------------------------------------------------- C04: inbound delivery and acknowledgement
def _parse_inbound_publish(first, body):
    """-> dict or None (not well-formed enough for this monitor to reason about)"""
    try:
        flags = first & 15
        q = (flags >> 1) & 3
        if q == 3 or len(body) < 2:
            return None
        tl = (body[0] << 8) | body[1]
        i = 2 + tl
        if i > len(body):
            return None
        topic = bytes(body[2:i])
        topic.decode('utf-8')
        if b'\x00' in topic:
            return None
        pid = None
        if q:
            if i + 2 > len(body):
                return None
            pid = (body[i] << 8) | body[i + 1]
            i += 2
            if pid == 0:
                return None
        n, j = mqttspec.varint(body, i)
        if j + n > len(body):
            return None
        return {'q': q, 'retain': flags & 1, 'dup': (flags >> 3) & 1, 'topic': topic, 'pid': pid,
                'props': bytes(body[j:j + n]), 'payload': bytes(body[j + n:])}
    except Exception:
        return None


def _ordered_events(acts):
    """per action: the client packets completed on the wire, the broker packets completely read and the successful
    flushes, in the order in which they happened"""
    per = []
    wire = bytearray(); inb = bytearray(); wpos = ipos = 0
    garbled = False
    for ai, a in enumerate(acts):
        seq = []
        if a.code == 0:
            wire = bytearray(); inb = bytearray(); wpos = ipos = 0
            garbled = False
        if garbles(a, acts[ai - 1].state if ai > 0 else None):
            garbled = True
        for e in a.events:
            if e[0] == 'w' and e[2] and garbled:
                seq.append(('garbled',))
            elif e[0] == 'w' and e[2]:
                wire += bytes.fromhex(e[3])
                frames, tail, err = mqttspec.split_stream(wire[wpos:])
                for first, body, raw in frames:
                    try:
                        pk = mqttspec.parse_packet(first, body, strict_flags=False)
                    except mqttspec.Malformed as ex:
                        pk = {'type': 'MALFORMED', 'error': str(ex), 'first': first}
                    pk['raw'] = raw
                    seq.append(('tx', pk))
                    wpos += len(raw)
            elif e[0] == 'r' and e[2]:
                inb += bytes.fromhex(e[3])
                for first, body in parse_server_packets(inb[ipos:]):
                    seq.append(('rx', first, body))
                    ipos += 1 + len(body) + len(_varint_bytes(len(body)))
            elif e[0] == 'f' and e[1] == 'ok':
                seq.append(('flush',))
        per.append(seq)
    return per


def mon_c04(case_line, acts):
    """reference model of the receiver side of MQTT 5 QoS 1/2 against what the implementation delivered and what it
    put on the wire.  Assumes (and stops where it is not so) a broker that sends well-formed packets, keeps within
    the advertised Receive Maximum of 8 and a Maximum Packet Size that admits the acknowledgements."""
    out = []
    pending = set()    # inbound QoS 2 identifiers between PUBLISH and PUBREL
    owed = []          # acknowledgements owed, in arrival order: (type nibble, pid, reason)
    sent = 0           # owed[:sent] seen on the wire of the current connection (or flushed earlier)
    done = 0           # owed[:done] flushed
    unacked = {}       # inbound QoS>0 exchanges not finished by the client (Receive Maximum premise)
    per = _ordered_events(acts)
    for i, a in enumerate(acts):
        expected_msgs = []
        stop = False
        first_q2 = None     # the last packet read by this action was a first QoS 2 arrival with this identifier
        if a.code == 0:
            sent = done
        for ev in per[i]:
            if ev[0] == 'garbled':
                return out          # the outbound stream cannot be decoded any more (QoS 0 publish dropped mid-packet)
            if ev[0] == 'flush':
                # disconnect() flushes its own DISCONNECT, not the engine's entries: an acknowledgement whose flush the
                # client never saw complete stays owed from the client's point of view and may be sent again
                if a.code != 4:
                    done = sent
            elif ev[0] == 'tx':
                pk = ev[1]
                if pk['type'] in ('PUBACK', 'PUBREC', 'PUBCOMP'):
                    typ = {'PUBACK': 4, 'PUBREC': 5, 'PUBCOMP': 7}[pk['type']]
                    got = (typ, pk.get('pid'), pk.get('reason', 0))
                    if sent < len(owed) and owed[sent] == got:
                        sent += 1
                        if typ in (4, 7) or got[2] >= 0x80:
                            unacked.pop(got[1], None)
                    else:
                        exp = owed[sent] if sent < len(owed) else None
                        out.append(V('acknowledgement %s id %s reason 0x%02x on the wire; next owed in arrival order: %s'
                                     % (pk['type'], got[1], got[2], exp)))
                        return out
            elif ev[0] == 'rx':
                first, body = ev[1], ev[2]
                typ = first >> 4
                first_q2 = None
                if typ == 3:
                    m = _parse_inbound_publish(first, body)
                    if m is None:
                        return out
                    if m['q'] == 0:
                        expected_msgs.append(m)
                    elif m['q'] == 1:
                        owed.append((4, m['pid'], 0x91 if m['pid'] in pending else 0))
                        unacked[m['pid']] = 1
                        expected_msgs.append(m)
                    elif m['pid'] in pending:
                        owed.append((5, m['pid'], 0))
                    elif len(pending) >= 8:
                        return out
                    else:
                        pending.add(m['pid'])
                        unacked[m['pid']] = 2
                        owed.append((5, m['pid'], 0))
                        expected_msgs.append(m)
                        first_q2 = m['pid']
                    if len(unacked) > 8:
                        return out
                elif typ == 6:
                    if len(body) < 2 or first != 0x62 or len(body) > 3 + 0:
                        # a malformed PUBREL (reserved flags, short, or with properties this monitor does not decode):
                        # the broker is not the well-behaved one C04 quantifies over
                        return out
                    pid = (body[0] << 8) | body[1]
                    if pid in pending:
                        pending.discard(pid)
                        owed.append((7, pid, 0))
                    else:
                        owed.append((7, pid, 0x92))
                elif typ == 14:
                    return out
        res = a.result or ''
        if res.startswith('err PacketTooLarge') and first_q2 is not None and expected_msgs and owed and owed[-1] == (5, first_q2, 0):
            # the PUBREC does not fit the broker's Maximum Packet Size: the connection is closed (C14) and the message was
            # neither acknowledged nor delivered - so the exchange has not begun: the broker will send it again and it
            # must be delivered then (defect F18, repaired by fix 6ec1ca9: the identifier used to stay recorded)
            pending.discard(first_q2)
            unacked.pop(first_q2, None)
            owed.pop()
            continue
        if res.startswith('err InflightExhausted') or res.startswith('err PacketTooLarge') or res in ('PANIC', 'FUEL') \
                or res.startswith('err InvalidPacket'):
            return out          # malformed broker data or a local refusal: outside the premises of C04
        if res.startswith('ok msg'):
            f = dict(x.split('=', 1) for x in res.split(' ')[2:] if '=' in x)
            if not expected_msgs:
                out.append(V('a message was delivered (%s) that no inbound PUBLISH read by this call accounts for'
                             % res[:80]))
                return out
            m = expected_msgs.pop(0)
            want = {'t': 'x' + m['topic'].hex(), 'p': 'x' + m['payload'].hex(), 'q': str(m['q']), 'r': str(m['retain']),
                    'props': 'x' + m['props'].hex()}
            bad = [k for k in want if f.get(k) != want[k]]
            if bad:
                out.append(V('delivered message differs from the PUBLISH sent in %s: got %s, sent %s'
                             % (bad, {k: f.get(k) for k in bad}, {k: want[k] for k in bad})))
                return out
            if expected_msgs:
                out.append(V('two deliverable PUBLISH packets were consumed by one call, one message surfaced'))
                return out
        elif expected_msgs and res.startswith('ok'):
            m = expected_msgs[0]
            out.append(V('inbound PUBLISH (QoS %d, id %s, topic %s) was consumed by a call returning "%s": not delivered'
                         % (m['q'], m['pid'], m['topic'].hex(), res[:40])))
            return out
        elif expected_msgs:
            # the call took a deliverable PUBLISH out of the reader and then failed or was dropped without surfacing it.
            # The unchanged client returns the message straight after handling the packet (no await point in between), so
            # this is already odd; it is a violation as soon as the message is lost for good: a QoS 0 message at once, a
            # QoS 1/2 message when its PUBACK / PUBREC reaches the wire although the application never saw it.
            m = expected_msgs[0]
            if res in ('PANIC', 'FUEL'):
                return out
            if m['q'] == 0:
                out.append(V('inbound QoS 0 PUBLISH (topic %s) was consumed by a call that ended with "%s": never surfaced'
                             % (m['topic'].hex(), res[:40])))
                return out
            want_typ = 'PUBACK' if m['q'] == 1 else 'PUBREC'
            seen_rx = False
            for j in range(i, len(acts)):
                if j > i and acts[j].code == 0 and (acts[j].result or '').startswith('ok connected'):
                    return out      # fresh session: the exchange is forgotten on both sides
                for ev in per[j]:
                    if ev[0] == 'rx' and (ev[1] >> 4) == 3:
                        mm = _parse_inbound_publish(ev[1], ev[2])
                        if j == i and not seen_rx:
                            if mm is not None and mm.get('pid') == m['pid']:
                                seen_rx = True
                            continue
                        if mm is None or mm.get('pid') == m['pid']:
                            return out      # the broker sent it again: it may yet be delivered
                    elif ev[0] == 'tx' and (j > i or seen_rx) and ev[1]['type'] == want_typ and ev[1].get('pid') == m['pid'] \
                            and ev[1].get('reason', 0) < 0x80:
                        out.append(V('inbound PUBLISH (QoS %d, id %s, topic %s) was consumed by action #%d, which ended with "%s" '
                                     'without surfacing it; its %s was written at action #%d: acknowledged, never delivered'
                                     % (m['q'], m['pid'], m['topic'].hex(), i, res[:30], want_typ, j)))
                        return out
            return out
        if a.code == 0 and res.startswith('ok connected'):
            pending.clear(); owed = []; sent = done = 0; unacked = {}
        stv = a.state or {}
        if stv.get('live') == '1' and 'srv' in stv and res.startswith('ok'):
            have = sorted(int(x) for x in list_field(stv['srv']))
            if have != sorted(pending):
                out.append(V('pending inbound QoS 2 identifiers are %s; the exchanges on the wire leave %s pending'
                             % (have, sorted(pending))))
                return out
    return out


CONNACK_PROPS = {0x11, 0x12, 0x13, 0x15, 0x16, 0x1A, 0x1C, 0x1F, 0x21, 0x22, 0x24, 0x25, 0x26, 0x27, 0x28, 0x29, 0x2A}


def connack_conformant(body):
    """session-present flag of a CONNACK body that a conformant broker accepting the connection may send, else None"""
    try:
        if len(body) < 3 or body[0] not in (0, 1) or body[1] != 0:
            return None
        c = mqttspec.Cur(body[2:])
        n = c.var()
        blk = mqttspec.Cur(c.take(n))
        if not c.done():
            return None
        seen = set()
        while not blk.done():
            pid = blk.var()
            if pid not in CONNACK_PROPS or (pid in seen and pid != 0x26):
                return None
            seen.add(pid)
            shape = mqttspec.PROPS[pid][0]
            rd = {'b': blk.u8, '2': blk.u16, '4': blk.u32, 'v': blk.var, 's': blk.utf8, 'd': blk.binary}.get(shape)
            v = rd() if rd else (blk.utf8(), blk.utf8())
            if pid in (0x24, 0x25, 0x28, 0x29, 0x2A) and v > 1:
                return None
            if pid in (0x21, 0x27) and v == 0:
                return None
        return body[0]
    except Exception:
        return None


# ---------------------------------------------------------------- C12: the session can always be reconnected
def mon_c12(case_line, acts):
    """every connect() whose transport was healthy (all of its writes, flushes and reads succeeded) and whose broker
    was conformant (exactly one well-formed CONNACK, reason 0, session present only if no clean start was asked for)
    must succeed, start with a whole CONNECT, carry nothing partial over and leave a usable session."""
    out = []
    pc0 = parse_case(case_line)
    cid_now = pc0['cfg']['cid'] if pc0 else None      # configured, later the one assigned by the latest ACCEPTED CONNACK
    for i, a in enumerate(acts):
        if a.code != 0:
            continue
        res = a.result or ''
        wire = bytearray(); inb = bytearray()
        healthy = True
        for e in a.events:
            if e[0] == 'w':
                if not e[2]:
                    healthy = False
                else:
                    wire += bytes.fromhex(e[3])
            elif e[0] == 'f':
                if e[1] != 'ok':
                    healthy = False
            elif e[0] == 'r':
                if e[2] is None or (e[2] == 0 and e[1] > 0):
                    healthy = False
                elif e[2]:
                    inb += bytes.fromhex(e[3])
        # the identity the CONNECT presents: nothing a refused or garbled handshake said may change it
        if cid_now is not None and wire:
            pk0, _, _ = mqttspec.parse_client_stream(bytes(wire), strict_flags=False)
            if pk0 and pk0[0]['type'] == 'CONNECT' and pk0[0].get('client_id') is not None:
                got = pk0[0]['client_id']
                got = got.encode() if isinstance(got, str) else bytes(got)
                if got != bytes(cid_now):
                    out.append(V('CONNECT at action #%d presents client identifier %r; configured / last assigned by an accepted '
                                 'CONNACK is %r' % (i, got, bytes(cid_now))))
        if res.startswith('ok'):
            info0 = connack_info(bytes(inb))
            if info0 is not None and 0x12 in info0[2]:
                v0 = info0[2][0x12]
                cid_now = v0.encode() if isinstance(v0, str) else bytes(v0)
        if not healthy or res in ('PANIC', 'FUEL', 'noconn'):
            continue
        prev = acts[i - 1].state if i > 0 and acts[i - 1].state else {}
        if res.startswith('err BufferTooSmall') or res.startswith('err InsufficientMemory'):
            if not a.events:
                # nothing was written: the CONNECT did not fit the transmit arena
                ret = list_field(prev.get('ret', '[]'))
                free = int(prev.get('cap', '0') or 0) - sum(int(x.split(':')[2]) for x in ret)
                clen = None
                t = case_line.split()
                cid_first = int(t[3])                      # the configured client id (length token)
                for j, b in enumerate(acts):
                    if b.code == 0:
                        ws = [e for e in b.events if e[0] == 'w']
                        if ws:
                            if j > 0 and acts[j - 1].state and 'cid' in acts[j - 1].state:
                                cid_first = len(acts[j - 1].state['cid']) // 2
                            # the CONNECT grows and shrinks with the client identifier (assigned by the broker)
                            clen = ws[0][1] + len(prev.get('cid', '')) // 2 - cid_first
                            break
                need = None if clen is None else clen - 1 - len(_varint_bytes(max(clen - 2, 0))) + 5
                if ret and (need is None or free < need):
                    out.append(V('connect() on a healthy transport fails with %s: the CONNECT does not fit behind the '
                                 'retained packets %s of a %s byte arena — and no connection means no acknowledgement '
                                 'will ever free them' % (res[4:], prev.get('ret'), prev.get('cap')), 'K12'))
                elif ret:
                    out.append(V('connect() on a healthy transport fails with %s although %d bytes of the arena are free '
                                 'and the CONNECT needs %d' % (res[4:], free, need)))
                continue        # an arena that cannot hold the CONNECT even when empty: no history involved
        if not a.events:
            if res.startswith('err ') and not res.startswith('err BufferTooSmall') and not res.startswith('err InsufficientMemory'):
                # refused before any I/O, and not for lack of room in the arena: nothing of an earlier connection (a
                # broker's packet size limit, a dead handle, timers) may stand in the way of a new CONNECT
                out.append(V('connect() at action #%d fails with %s before writing a single byte: state carried over from '
                             'the previous connection (mps=%s) blocks the new one' % (i, res[4:], prev.get('mps', '?'))))
            continue
        # broker conformance
        pk, tail, problems = mqttspec.parse_client_stream(bytes(wire), strict_flags=False)
        if not pk or pk[0]['type'] != 'CONNECT' or tail or len(pk) != 1:
            out.append(V('healthy connect(): the bytes written are not exactly one CONNECT (%s)' % bytes(wire).hex()[:60]))
            continue
        frames = parse_server_packets(bytes(inb))
        if len(frames) != 1 or frames[0][0] != 0x20:
            continue
        consumed = sum(1 + len(b) + len(_varint_bytes(len(b))) for _, b in frames)
        if consumed != len(inb):
            continue
        conf = connack_conformant(frames[0][1])
        if conf is None:
            continue
        sp = conf
        if sp and pk[0].get('clean_start'):
            continue            # session present although a clean start was asked for: not conformant
        if not res.startswith('ok'):
            out.append(V('connect() over a healthy transport to a conformant broker (CONNACK %s) returned "%s"'
                         % (bytes(inb).hex(), res)))
            continue
        st = a.state or {}
        if st.get('rb', '0') not in ('0', '-') :
            out.append(V('after connect() the packet reader still holds %s bytes' % st.get('rb')))
        for key in ('ret', 'ctl', 'rel'):
            for x in list_field(st.get(key, '[]')):
                parts = x.split(':')
                stt = [p for p in parts if p and p[0] in 'WFS' and (p[1:].isdigit() or p in ('F', 'S'))]
                if stt and stt[0] != 'W0' and not sp == 0:
                    out.append(V('after connect() a queued entry is not at byte 0: %s' % x))
        if st.get('live') != '1':
            out.append(V('connect() returned Ok but the handle is not live'))
        if sp == 0 and 'quota' in st and 'maxquota' in st:
            # fully usable: a fresh broker session holds nothing in flight, so the whole send window is open and nothing
            # of the old session is queued
            if st['quota'] != st['maxquota'] or list_field(st.get('ret', '[]')) or list_field(st.get('rel', '[]')):
                out.append(V('after connect() to a fresh broker session the send quota is %s of %s with ret=%s rel=%s: '
                             'nothing is in flight, the window must be fully open'
                             % (st['quota'], st['maxquota'], st.get('ret'), st.get('rel'))))
        # usable: the next operation on it, if its own I/O is healthy, does not see a dead connection
        if i + 1 < len(acts):
            b = acts[i + 1]
            ok_io = all(not (e[0] == 'w' and not e[2]) and not (e[0] == 'f' and e[1] != 'ok')
                        and not (e[0] == 'r' and (e[2] is None and e[3] != 'drop')) for e in b.events)
            timed = any(e[0] == 't' for e in b.events)      # time passed: keep-alive territory (C10)
            if b.code in (1, 2, 3, 5, 6, 7) and ok_io and not timed and (b.result or '').startswith('err Disconnected') \
                    and not any(e[0] == 'r' and e[2] and 'e0' == e[3][:2] for e in b.events):
                out.append(V('first operation after a successful connect() reports Disconnected without any I/O fault'))
    return out


def mon_c12_usable(case_line, acts):
    """C12 'leaves the session fully usable', for any history and amount of retained data: after a successful connect() to a
    FRESH broker session nothing is retained, released or queued, so the session is as usable as a new one - a publish is
    not refused as NotReady, and a request that this client accepted earlier in the case while its lists were equally
    empty, under a CONNACK with the same properties, is accepted again (seeded C12-r10 leaked the byte count of packets
    dropped by the session reset into the capacity accounting)."""
    out = []
    case = parse_case(case_line)
    if case is None or len(case['actions']) != len(acts):
        return out
    def empty(st):
        return st and st.get('ret') == '[]' and st.get('rel') == '[]' and st.get('ctl', '[]') == '[]' and st.get('live') == '1'
    def healthy(b):
        return all(not (e[0] == 'w' and not e[2]) and not (e[0] == 'f' and e[1] != 'ok')
                   and not (e[0] == 'r' and (e[2] is None and e[3] != 'drop')) for e in b.events) \
            and not any(e[0] == 't' for e in b.events)
    props_now = None          # property section of the CONNACK of the current connection
    fresh_at = None
    accepted = {}             # (request, CONNACK properties) accepted on an empty session
    for i, a in enumerate(acts):
        code, req = case['actions'][i]
        res = a.result or ''
        if code == 0:
            props_now = None; fresh_at = None
            inb = b''.join(bytes.fromhex(e[3]) for e in a.events if e[0] == 'r' and e[2])
            pk = parse_server_packets(inb)
            if res.startswith('ok') and len(pk) == 1 and (pk[0][0] >> 4) == 2 and connack_conformant(pk[0][1]) is not None:
                props_now = bytes(pk[0][1][2:])
                if res == 'ok connected' and empty(a.state):
                    fresh_at = i
            continue
        if code != 1 or props_now is None or i == 0:
            fresh_at = None if code != 6 else fresh_at
            continue
        prev = acts[i - 1].state
        key = (repr(sorted(req.items())), props_now)
        if fresh_at is not None and fresh_at == i - 1 and healthy(a):
            if res.startswith('err NotReady'):
                out.append(V('publish at action #%d, the first operation on a fresh session with nothing retained or queued, is '
                             'refused: %s' % (i, res)))
                return out
            if key in accepted and res.startswith('err ') and res.split(' ')[1] in ('BufferTooSmall', 'InflightExhausted', 'PacketTooLarge'):
                out.append(V('publish at action #%d on a fresh, empty session is refused (%s); the same request was accepted at '
                             'action #%d by the same client when it was equally empty' % (i, res, accepted[key])))
                return out
        if res.startswith('ok') and empty(prev) and key not in accepted:
            accepted[key] = i
        fresh_at = None
    return out


def mon_c15_stream(case_line, acts):
    """C15 inbound: whatever the sizes and arrival times of the pieces, and whether or not a waiting read was dropped in
    between, the messages surfaced on a connection are exactly the deliverable PUBLISH packets among the complete packets
    the client has read on it, in order - as long as every complete packet read is certainly valid and no operation failed.
    Deliverable is what C04 says: a QoS 2 PUBLISH whose identifier is pending (its PUBLISH was handled, on this connection
    or on one the session was resumed from, and its PUBREL has not been read yet) is a retransmission - acknowledged, not
    delivered again.  The identifiers pending when the connection starts are read off the state printed after connect();
    from there on the set follows the packets of the stream.  A ninth concurrent QoS 2 exchange is a broker exceeding the
    Receive Maximum: nothing is judged on that connection."""
    out = []
    rxcap = case_cfg(case_line)['rx']
    got = []; inb = bytearray(); bad = False; pending0 = set()
    def settle(where):
        if bad:
            return
        want = []
        pending = set(pending0)
        for first, body in parse_server_packets(bytes(inb)):
            if first >> 4 == 3:
                m = _parse_inbound_publish(first, body)
                if m is None:
                    return
                if m['q'] == 2:
                    if m['pid'] in pending:
                        continue        # retransmission inside an open exchange (C04): PUBREC again, no second delivery
                    if len(pending) >= 8:
                        return          # more QoS 2 exchanges than the advertised Receive Maximum
                    pending.add(m['pid'])
                want.append(('x' + m['topic'].hex(), 'x' + m['payload'].hex(), str(m['q'])))
            elif first >> 4 == 6 and len(body) >= 2:
                pending.discard((body[0] << 8) | body[1])
        if got != want:
            k = next((j for j, (x, y) in enumerate(zip(got, want)) if x != y), min(len(got), len(want)))
            out.append(V('%s: %d complete PUBLISH packets were read on the connection, %d messages surfaced; first mismatch at #%d '
                         '(read %s, surfaced %s)' % (where, len(want), len(got), k, want[k] if k < len(want) else None,
                                                     got[k] if k < len(got) else None)))
    for i, a in enumerate(acts):
        res = a.result or ''
        if a.code == 0:
            settle('before the connect at action #%d' % i)
            if out:
                return out
            inb = bytearray(); got = []; bad = False; pending0 = set()
        n0 = len(inb)
        for e in a.events:
            if e[0] == 'r' and e[2]:
                inb += bytes.fromhex(e[3])
        if a.code == 0:
            # the CONNACK is consumed by connect(); anything after it belongs to the connection
            pk = parse_server_packets(bytes(inb))
            if not res.startswith('ok') or not pk or 'srv' not in (a.state or {}):
                bad = True
            else:
                inb = inb[1 + len(pk[0][1]) + len(_varint_bytes(len(pk[0][1]))):]
                pending0 = set(int(x) for x in list_field(a.state['srv']))
            continue
        if res in ('PANIC', 'FUEL') or (res.startswith('err') and not res.startswith('err InvalidPacket')):
            bad = True
        used = 0
        for first, body in parse_server_packets(bytes(inb)):
            size = 1 + len(body) + len(_varint_bytes(len(body)))
            used += size
            if size > rxcap or first >> 4 == 2:
                bad = True      # too large for the receive buffer; or a second CONNACK (a protocol error, refused)
            try:
                mqttspec.parse_server_packet(first, body)
            except Exception:
                bad = True
        tail = bytes(inb[used:])
        if len(tail) >= 2:
            # a packet announced with more bytes than the receive buffer holds is refused on its header (C14), legitimately
            try:
                n, j = mqttspec.varint(tail, 1)
                if j + n > rxcap:
                    bad = True
            except IndexError:
                pass
            except Exception:
                bad = True
        if res.startswith('err InvalidPacket') and not bad:
            out.append(V('action #%d reports an invalid packet although every complete packet read on this connection is '
                         'certainly valid: %s' % (i, bytes(inb).hex()[:120])))
            return out
        if res.startswith('ok msg'):
            f = dict(x.split('=', 1) for x in res.split(' ')[2:] if '=' in x)
            got.append((f.get('t'), f.get('p'), f.get('q')))
    settle('at the end of the case')
    return out


# ---------------------------------------------------------------- twins: C15 (fragmentation), C13 (cancellation)
def _wire_by_conn(acts):
    return [bytes(c['wire']) for c in connections(acts)]


def _delivered(acts):
    return [a.result for a in acts if (a.result or '').startswith('ok msg')]


def twin_c15(l1, a1, l2, a2, meta):
    """same program, same inbound stream, different fragmentation of reads and writes: the operation results, the
    delivered messages and the outbound byte stream must be identical"""
    out = []
    if len(a1) != len(a2):
        return [V('the two runs have different numbers of actions (%d / %d)' % (len(a1), len(a2)))]
    for i, (x, y) in enumerate(zip(a1, a2)):
        if 'FUEL' in (x.result or '') or 'FUEL' in (y.result or '') or x.result == 'PANIC' or y.result == 'PANIC':
            return out
        if x.result != y.result:
            out.append(V('action %d (code %d): result "%s" with whole reads/writes, "%s" with fragmented ones'
                         % (i, x.code, x.result, y.result)))
            return out
    w1, w2 = _wire_by_conn(a1), _wire_by_conn(a2)
    if w1 != w2:
        k = next((i for i, (p, q) in enumerate(zip(w1, w2)) if p != q), min(len(w1), len(w2)))
        p = w1[k] if k < len(w1) else b''
        q = w2[k] if k < len(w2) else b''
        j = next((i for i, (u, v) in enumerate(zip(p, q)) if u != v), min(len(p), len(q)))
        out.append(V('outbound byte stream of connection %d differs at offset %d: …%s / …%s'
                     % (k, j, p[max(0, j - 4):j + 8].hex(), q[max(0, j - 4):j + 8].hex())))
    return out


def _frames_by_conn(acts):
    out = []
    for c in connections(acts):
        frames, tail, err = mqttspec.split_stream(bytes(c['wire']))
        out.append(([raw for _, _, raw in frames], bytes(tail), err))
    return out


def twin_c13(l1, a1, l2, a2, meta):
    """l1 = run in which one cancel-safe future was dropped at an await point and the connection driven on;
    l2 = its uncancelled twin.  Same outbound packet sequence, same delivered messages."""
    out = []
    if any((a.result or '') in ('PANIC', 'FUEL') for a in a1 + a2):
        return out
    j = next((i for i, a in enumerate(a1) if a.result == 'cancelled'), None)
    cls = None
    if j is not None and a1[j].code == 4 and any(e[0] == 'w' and e[2] for e in a1[j].events):
        cls = 'K13d'          # a disconnect() dropped after part of its DISCONNECT was accepted
    f1, f2 = _frames_by_conn(a1), _frames_by_conn(a2)
    if len(f1) != len(f2):
        out.append(V('cancelled run used %d transports, its twin %d' % (len(f1), len(f2)), cls))
        return out
    for k, ((p1, t1, e1), (p2, t2, e2)) in enumerate(zip(f1, f2)):
        if p1 != p2 or t1 != t2:
            i = next((i for i, (x, y) in enumerate(zip(p1, p2)) if x != y), min(len(p1), len(p2)))
            x = p1[i].hex() if i < len(p1) else ('(end, tail %s)' % t1.hex())
            y = p2[i].hex() if i < len(p2) else ('(end, tail %s)' % t2.hex())
            out.append(V('outbound packet %d of transport %d: cancelled run %s, uncancelled twin %s' % (i, k, x[:60], y[:60]), cls))
            return out
    d1, d2 = _delivered(a1), _delivered(a2)
    if d1 != d2:
        out.append(V('delivered messages differ: cancelled run %s, uncancelled twin %s' % (d1[:4], d2[:4]), cls))
    return out


def mon_c13(case_line, acts):
    """single-run part of C13: a disconnect() whose future was dropped after the transport had accepted bytes of its
    DISCONNECT leaves a handle that is still live (the packet is neither finished nor forgotten)"""
    out = []
    # "a request that was not enqueued leaves no trace": a publish / subscribe / unsubscribe whose future is dropped before
    # its packet was queued has consumed no packet identifier either
    for i, a in enumerate(acts):
        if i > 0 and a.code in (1, 2, 3) and a.result == 'cancelled' and a.state and acts[i - 1].state:
            st, prev = a.state, acts[i - 1].state
            ids = lambda s_: [x.split(':')[0] for x in list_field(s_.get('ret', '[]'))]
            if 'pid' in st and 'pid' in prev and ids(st) == ids(prev) and st['pid'] != prev['pid']:
                out.append(V('the request of action #%d was dropped before it was enqueued, yet the identifier counter moved '
                             'from %s to %s: later packets get other identifiers than in the run without it' % (i, prev['pid'], st['pid'])))
                break
    for a in acts:
        if a.code == 4 and a.result == 'cancelled' and any(e[0] == 'w' and e[2] for e in a.events) \
                and (a.state or {}).get('live') == '1':
            out.append(V('disconnect() dropped after the transport accepted %s; the handle is still live'
                         % ''.join(e[3] for e in a.events if e[0] == 'w' and e[2]), 'K13d'))
    return out


def mon_c13_wire(case_line, acts):
    """single-run part of C13, "corrupts nothing": on a transport on which the future of a cancel-safe operation was
    dropped, what the client writes afterwards still continues the byte stream: the transport's bytes are whole,
    well-formed packets (the last one possibly unfinished).  Excused: QoS 0 publish / connect dropped, Ok(0), and the
    recorded defects of disconnect() (trace.garbles)."""
    out = []
    for c in connections(acts):
        idx = list(c['actions'])
        cancelled = [i for i in idx if acts[i].result == 'cancelled' and acts[i].code in (1, 2, 3, 5, 6, 7)]
        if not cancelled:
            continue
        excused = False
        for i in idx:
            a = acts[i]
            if garbles(a, acts[i - 1].state if i > 0 else None):
                excused = True
            if a.code == 1 and a.result == 'cancelled' and qos0_partial(a):
                excused = True
            if any(e[0] == 'w' and e[2] is None and e[3] == 'zero' for e in a.events):
                excused = True
            if a.code in (0, 4) and a.result == 'cancelled':
                excused = True
        if excused:
            continue
        pk, tail, problems = mqttspec.parse_client_stream(c['wire'], strict_flags=False)
        for p in pk:
            if p['type'] != 'MALFORMED':
                continue
            err = p['error']
            if 'packet identifier 0' in err and (p['first'] >> 4) in (4, 5, 7):
                continue
            if _illegal_input(err) or 'empty topic' in err or 'U+0000' in err or 'without topic filter' in err or 'appears twice' in err:
                continue
            out.append(V('after the future of action #%d was dropped, the bytes written on that transport no longer form '
                         'packets: %s (%s)' % (cancelled[0], err, p['raw'].hex()[:80])))
            break
    return out


def mon_answered_released(case_line, acts):
    """C16 / C17: the final acknowledgement of a retained request ends it, WHATEVER its reason codes say - a SUBACK or
    UNSUBACK that refuses some or all filters, a failing PUBACK or PUBREC, are answers like the granting ones.  After the
    call that consumed the acknowledgement the request is no longer retained: it does not stay pending for ever (C16), does
    not keep its in-flight slot and its arena bytes (C17), and is not replayed on the next connection.  Judged only for an
    acknowledgement whose type fits the retained packet of that identifier (PUBACK: QoS 1 PUBLISH, PUBREC: QoS 2 PUBLISH,
    SUBACK: SUBSCRIBE, UNSUBACK: UNSUBSCRIBE) and that the call certainly consumed (a call ending in an error other than
    the surfaced refusal may have rejected the last packet it read: that one is not counted)."""
    out = []
    fl = Flow(acts)
    rx = {}
    for ev in fl.events:
        if ev[0] == 'rx':
            rx.setdefault(ev[4], []).append((ev[2], ev[3]))
    FITS = {4: lambda b: b >> 4 == 3 and (b >> 1) & 3 == 1, 5: lambda b: b >> 4 == 3 and (b >> 1) & 3 == 2,
            9: lambda b: b >> 4 == 8, 11: lambda b: b >> 4 == 10}
    NAMES = {4: 'PUBACK', 5: 'PUBREC', 9: 'SUBACK', 11: 'UNSUBACK'}
    for i, a in enumerate(acts):
        res = a.result or ''
        evs = rx.get(i, [])
        if a.code == 0 or i == 0 or not evs or res in ('PANIC', 'FUEL') or a.state is None or acts[i - 1].state is None:
            continue
        if res.startswith('err') and not res.startswith('err Rejected('):
            evs = evs[:-1]
        if a.state.get('gen') != acts[i - 1].state.get('gen'):
            continue
        before = _ret_bytes(acts[i - 1].state)
        after = _ret_bytes(a.state)
        for first, body in evs:
            typ = first >> 4
            if typ not in FITS or len(body) < 2:
                continue
            pid = (body[0] << 8) | body[1]
            img = before.get(pid)
            if img is None or not FITS[typ](img[0]):
                continue
            if after.get(pid) == img:
                code = None
                try:
                    if typ in (9, 11):
                        n, j = mqttspec.varint(bytes(body), 2)
                        code = max(body[j + n:], default=None)
                    elif len(body) >= 3:
                        code = body[2]
                except Exception:
                    pass
                out.append(V('the %s of identifier %d%s was consumed by action #%d ("%s"); the request it answers (%s...) is '
                             'still retained afterwards: it stays pending, keeps its slot and %d arena bytes, and will be sent again'
                             % (NAMES[typ], pid, '' if code is None else ' (reason 0x%02x)' % code, i, res[:30],
                                img[:12].hex(), len(img))))
                return out
            before.pop(pid, None)
    return out


def mon_c13_flush(case_line, acts):
    """C13, the await point "pending flush": a cancel-safe operation (drive, poll, recv, subscribe, unsubscribe, a QoS 1/2
    publish) whose future is dropped while the flush of a completely written packet is pending has NOT handed the packet
    over: the uncancelled execution ends with that flush completed, so the continuation must complete it too.  From the
    transport calls alone: after such a drop, the first later drive() / poll() / request that runs to its end on the same
    live connection without a fault has called flush() successfully (no client state is consulted: a client that marks the
    packet sent before the flush it still owes looks, in its own books, exactly like one that finished)."""
    out = []
    NOOP = (8, 9, 12, 13, 14)
    for i, a in enumerate(acts):
        if a.code not in (1, 2, 3, 5, 6, 7) or a.result != 'cancelled' or not a.state or a.state.get('live') != '1':
            continue
        io = [e for e in a.events if e[0] in ('w', 'f', 'r')]
        if not io or io[-1][0] != 'f' or io[-1][1] == 'ok':
            continue
        wrote = [e for e in io if e[0] == 'w']
        if not wrote or not wrote[-1][2] or (a.code == 1 and qos0_partial(a)):
            continue
        for j in range(i + 1, len(acts)):
            b = acts[j]
            res = b.result or ''
            if b.code in NOOP:
                continue
            if b.code in (0, 4, 10, 11) or not b.state or b.state.get('live') != '1' or res in ('PANIC', 'FUEL', 'cancelled'):
                break
            if any((e[0] == 'w' and not e[2]) or (e[0] == 'f' and e[1] != 'ok') or (e[0] == 'r' and e[2] is None)
                   for e in b.events):
                break
            if any(e[0] == 'f' and e[1] == 'ok' for e in b.events):
                break
            if (b.code == 5 and res.startswith('ok') and not res.startswith('ok msg')) or (b.code == 6 and res == 'ok none') \
                    or (b.code in (1, 2, 3) and res.startswith('ok op')):
                out.append(V('the future of action #%d was dropped inside the flush of a completely written packet (%s...); '
                             'action #%d (code %d) then ran to its end ("%s") without ever calling flush(): the packet stays in '
                             'the transport, the uncancelled execution had flushed it'
                             % (i, (wrote[-1][3] or '')[:16], j, b.code, res[:20])))
                return out
            if any(e[0] == 'w' for e in b.events):
                break
    return out


def mon_c16_flush(case_line, acts):
    """a packet whose bytes the transport has taken but whose flush is still owed (state F, left behind by a future dropped
    inside flush()) is the entry in progress: the next drive() / poll() that runs to its end without a fault flushes it first"""
    out = []
    for i, a in enumerate(acts):
        if i == 0 or not a.state or not acts[i - 1].state:
            continue
        res = a.result or ''
        if not ((a.code == 5 and res.startswith('ok')) or (a.code == 6 and res == 'ok none')):
            continue
        if any((e[0] == 'w' and not e[2]) or (e[0] == 'f' and e[1] != 'ok') or (e[0] == 'r' and e[2] is None) for e in a.events):
            continue
        if (acts[i - 1].state.get('live') != '1') or a.state.get('live') != '1':
            continue
        for key in ('ctl', 'rel', 'ret'):
            before = [x for x in list_field(acts[i - 1].state.get(key, '[]')) if 'F' in x.split(':')]
            after = list_field(a.state.get(key, '[]'))
            for x in before:
                if x in after:
                    out.append(V('%s at action #%d returned %r and left the %s entry %s written but unflushed: an entry in '
                                 'progress is never taken up again' % ('drive()' if a.code == 5 else 'poll()', i, res, key, x[:40])))
                    return out
    return out


def mon_hist(case_line, acts):
    """the conclusion of C16_history_completes, read off the implementation: on a healthy connection without keep-alive
    to the answering broker every acknowledged operation that fits returns its handle having put exactly its packet on
    the wire; the poll() that follows (the second one for QoS 2, whose first writes exactly the PUBREL) writes nothing
    more and leaves the handle complete; afterwards nothing is queued and the send window is what it was."""
    out = []
    case = parse_case(case_line)
    if case is None or len(case['actions']) != len(acts):
        return out
    # only the histories the theorem speaks about (py_hist): answering broker, one connect, then requests and polls on a
    # transport without a script and without keep-alive
    ca = case['actions']
    if len(ca) < 4 or ca[0] != (12, 2) or ca[1][0] != 0 or ca[1][1] or ca[2] != (12, 1) or case['cfg']['ka'] != 0 \
            or any(c not in (1, 2, 3, 6, 8) for c, _ in ca[3:]) or not case_line.rstrip().endswith(' 0'):
        return out
    fl = Flow(acts)
    tx = {}
    for ev in fl.events:
        if ev[0] == 'tx':
            tx.setdefault(ev[3], []).append(ev[2])
    quota0 = None
    nh = 0
    i = 0
    while i < len(acts):
        a = acts[i]
        code, req = case['actions'][i]
        st = a.state or {}
        if code == 0:
            if a.result not in ('ok connected', 'ok reconnected'):
                return out                      # the theorem starts from an established connection
            quota0 = st.get('quota')
            i += 1
            continue
        if code == 8 and quota0 is not None:
            # Mixed.v: one whole QoS 0 PUBLISH arrives while the connection is idle; the poll() that follows returns exactly
            # that message, writes nothing, and leaves the connection idle with the window it had
            delay, raw = req
            pk = parse_server_packets(bytes(raw))
            if delay != 0 or len(pk) != 1 or (pk[0][0] >> 4) != 3 or ((pk[0][0] >> 1) & 3) != 0 \
                    or i + 1 >= len(acts) or case['actions'][i + 1][0] != 6:
                return out                      # not a history of the theorem
            m = _parse_inbound_publish(pk[0][0], pk[0][1])
            if m is None or len(raw) > case['cfg']['rx']:
                return out
            b = acts[i + 1]
            res = b.result or ''
            if not res.startswith('ok msg'):
                out.append(V('poll() at action #%d, with a whole QoS 0 PUBLISH waiting on an idle connection, returned %r'
                             % (i + 1, res[:60])))
                return out
            f = dict(x.split('=', 1) for x in res.split(' ')[2:] if '=' in x)
            want = {'t': 'x' + m['topic'].hex(), 'p': 'x' + m['payload'].hex(), 'q': '0', 'r': str(m['retain']),
                    'props': 'x' + m['props'].hex()}
            bad = [k for k in want if f.get(k) != want[k]]
            if bad:
                out.append(V('the message returned at action #%d differs from the PUBLISH that arrived in %s: %s'
                             % (i + 1, bad, res[:100])))
                return out
            if tx.get(i) or tx.get(i + 1):
                out.append(V('delivering a QoS 0 message at action #%d wrote %s to the wire'
                             % (i + 1, [q['type'] for q in tx.get(i, []) + tx.get(i + 1, [])])))
                return out
            end = b.state or {}
            if end.get('ret') != '[]' or end.get('rel') != '[]' or end.get('ctl') != '[]' or end.get('live') != '1' \
                    or end.get('quota') != quota0:
                out.append(V('after the QoS 0 delivery at action #%d the connection is not idle as before: ret=%s rel=%s ctl=%s live=%s quota=%s'
                             % (i + 1, end.get('ret'), end.get('rel'), end.get('ctl'), end.get('live'), end.get('quota'))))
                return out
            i += 2
            continue
        if code not in (1, 2, 3) or quota0 is None:
            i += 1
            continue
        res = a.result or ''
        if res.startswith('err '):
            # a request that does not fit the transmit buffer (or is refused for its content) is outside `request_ok`;
            # it must not disturb the idle state
            if st.get('ret') != '[]' or st.get('rel') != '[]' or st.get('ctl') != '[]' or st.get('live') != '1':
                out.append(V('refused request at action #%d (%s) left the connection not idle' % (i, res)))
                return out
            i += 1
            while i < len(acts) and case['actions'][i][0] == 6:
                i += 1
            continue
        if not res.startswith('ok op '):
            out.append(V('action #%d on an idle healthy connection returned %r instead of a handle' % (i, res)))
            return out
        f = res.split(' ')
        kind, pid = int(f[2]), int(f[3])
        mine = tx.get(i, [])
        want_type = {1: 'PUBLISH', 2: 'SUBSCRIBE', 3: 'UNSUBSCRIBE'}[code]
        if len(mine) != 1 or mine[0]['type'] != want_type or mine[0].get('pid') != pid:
            out.append(V('action #%d returned handle (kind %d, identifier %d) but wrote %s'
                         % (i, kind, pid, [(p['type'], p.get('pid')) for p in mine])))
            return out
        p = mine[0]
        if code == 1 and (p['topic'] != req['topic'] or p['payload'] != req['payload'] or p['qos'] != req['qos'] or p['dup']):
            out.append(V('the PUBLISH written by action #%d is not the request: %s' % (i, p['raw'].hex()[:80])))
            return out
        if code == 2 and [t[0] for t in p.get('topics', [])] != [t[0] for t in req['topics']]:
            out.append(V('the SUBSCRIBE written by action #%d does not carry the requested filters' % i))
            return out
        polls = 2 if (code == 1 and req['qos'] == 2) else 1
        for k in range(1, polls + 1):
            if i + k >= len(acts) or case['actions'][i + k][0] != 6:
                return out
            b = acts[i + k]
            if b.result != 'ok none':
                out.append(V('poll() at action #%d after the request of action #%d returned %r' % (i + k, i, b.result)))
                return out
            wrote = tx.get(i + k, [])
            if polls == 2 and k == 1:
                if len(wrote) != 1 or wrote[0]['type'] != 'PUBREL' or wrote[0].get('pid') != pid:
                    out.append(V('the first poll() after the QoS 2 publish of action #%d wrote %s, not exactly its PUBREL'
                                 % (i, [(q['type'], q.get('pid')) for q in wrote])))
                    return out
            elif wrote:
                out.append(V('poll() at action #%d wrote %s although nothing was owed' % (i + k, [q['type'] for q in wrote])))
                return out
        end = acts[i + polls].state or {}
        hs = list_field(end.get('h', '[]'))
        if nh < len(hs) and hs[nh] != 'C':
            out.append(V('after its poll() the handle of action #%d (identifier %d) reports %s, not complete' % (i, pid, hs[nh])))
            return out
        nh += 1
        if end.get('ret') != '[]' or end.get('rel') != '[]' or end.get('ctl') != '[]' or end.get('live') != '1':
            out.append(V('after the exchange of action #%d the session is not idle: ret=%s rel=%s ctl=%s live=%s'
                         % (i, end.get('ret'), end.get('rel'), end.get('ctl'), end.get('live'))))
            return out
        if end.get('quota') != quota0:
            out.append(V('after the exchange of action #%d the send window is %s, it was %s' % (i, end.get('quota'), quota0)))
            return out
        i += polls + 1
    return out


# ---------------------------------------------------------------- C16: progress and quiescence under a benign continuation
def mon_c16(case_line, acts):
    """after the Heal action (transport healthy from here on, broker answering everything) the continuation
    [reconnect], poll x N must complete every pending operation, send every owed acknowledgement and reach a
    publish-quiescent session; a poll that returns without a message has made wire progress; nothing spins."""
    out = []
    heal = next((i for i, a in enumerate(acts) if a.code == 14), None)
    if heal is None:
        return out
    tail = acts[heal + 1:]
    for a in acts:
        if (a.result or '') in ('FUEL',):
            out.append(V('an operation performed more than 50000 I/O calls (or exhausted the model\'s fuel): it loops without bound'))
            return out
    connected = any(a.code == 0 for a in tail)
    for i, a in enumerate(tail):
        res = a.result or ''
        if a.code == 0 and not res.startswith('ok'):
            prev = acts[heal + i].state or {}
            if res.startswith('err BufferTooSmall') and list_field(prev.get('ret', '[]')):
                out.append(V('the session cannot be reconnected: CONNECT does not fit behind the retained packets %s'
                             % prev.get('ret'), 'K12'))
            elif res.startswith('err BufferTooSmall'):
                pass            # arena too small for any CONNECT: configuration, not history
            else:
                out.append(V('reconnect over the healed transport failed: %s' % res))
            return out
        if a.code == 6 and res == 'ok none':
            if not any((e[0] in 'wr' and e[2]) or (e[0] == 'f' and e[1] == 'ok') for e in a.events):
                out.append(V('poll() returned without a message and without any wire progress'))
                return out
    last = tail[-1].state if tail and tail[-1].state else {}
    if last.get('live') != '1':
        # the handle died during the benign continuation (or was never re-established in this style of tail)
        dead = next((a for a in tail if a.code in (5, 6, 7) and (a.result or '').startswith('err')), None)
        if connected and dead is not None:
            out.append(V('during the benign continuation poll() failed with "%s"' % dead.result,
                         'K16ka' if 'Disconnected' in dead.result and any(e[0] == 't' for e in dead.events) else None))
        return out
    problems = []
    if last.get('ctl', '[]') != '[]':
        problems.append('owed acknowledgements still queued: %s' % last.get('ctl'))
    if last.get('rel', '[]') != '[]':
        problems.append('PUBRELs still pending: %s' % last.get('rel'))
    if last.get('pq') != '1':
        problems.append('session not publish-quiescent (retained %s)' % last.get('ret'))
    pend = [x for x in list_field(last.get('h', '[]')) if x.startswith('P')]
    if pend:
        problems.append('%d operation handle(s) still pending' % len(pend))
    if problems:
        out.append(V('after %d polls against a responsive broker: %s' % (sum(1 for a in tail if a.code == 6), '; '.join(problems))))
    return out


# ---------------------------------------------------------------- C09: encoders decoded back by the independent parser
class _Toks:
    def __init__(self, line):
        self.t = [int(x) for x in line.split()]
        self.i = 0

    def n(self):
        v = self.t[self.i]
        self.i += 1
        return v

    def bytes(self):
        k = self.n()
        v = bytes(self.t[self.i:self.i + k])
        self.i += k
        return v

    def opt(self, f):
        return f() if self.n() else None

    def list(self, f):
        return [f() for _ in range(self.n())]

    def prop(self):
        from casegen import PROP_IDS, SHAPE
        k, num, d1, d2 = self.n(), self.n(), self.bytes(), self.bytes()
        pid = PROP_IDS[k]
        sh = SHAPE[pid]
        return (pid, num if sh in 'b24v' else d1 if sh in 'sd' else (d1, d2))


REASON_CODES = {0x00, 0x01, 0x02, 0x04, 0x10, 0x11, 0x18, 0x19, 0x80, 0x81, 0x82, 0x83, 0x84, 0x85, 0x86, 0x87, 0x88, 0x89, 0x8c,
                0x8d, 0x8e, 0x8f, 0x90, 0x91, 0x92, 0x93, 0x94, 0x95, 0x96, 0x97, 0x98, 0x99, 0x9a, 0x9b, 0x9c, 0x9d, 0x9e, 0x9f,
                0xa0, 0xa1, 0xa2, 0xff}


def _illegal_input(err):
    return any(x in err for x in ('is not allowed in', 'flag property', 'Topic Alias 0', 'Subscription Identifier', 'appears twice',
                                  'U+0000', 'empty topic', 'without topic filter', 'packet identifier 0', 'Receive Maximum 0',
                                  'Maximum Packet Size 0', 'invalid UTF-8', 'subscription options', 'will flags'))


def mon_encode(case_line, impl_out):
    """cmds 4, 6, 7, 8 (CONNECT, SUBSCRIBE, UNSUBSCRIBE, DISCONNECT encoders): whatever the encoder emits is exactly one
    packet which the independent MQTT 5 parser decodes to precisely the request"""
    cmd = case_line.split(' ', 1)[0]
    if cmd not in ('4', '6', '7', '8') or not impl_out.startswith('OK '):
        return []
    m = re.search(r' x([0-9a-f]*)$', impl_out)
    if not m:
        return []
    raw = bytes.fromhex(m.group(1))
    t = _Toks(case_line)
    t.n()
    t.n()   # cmd, capacity
    pk, tail, problems = mqttspec.parse_client_stream(raw, strict_flags=True)
    if len(pk) != 1 or tail:
        return [V('the encoder output is not exactly one packet: %d packets, %d trailing bytes (%s)' % (len(pk), len(tail), raw.hex()[:80]))]
    p = pk[0]
    if p['type'] == 'MALFORMED':
        if _illegal_input(p['error']):
            return []     # the hook encodes unvalidated requests: illegal user input is C19's subject
        return [V('the encoder output does not parse: %s (%s)' % (p['error'], raw.hex()[:100]))]
    out = []

    def same(what, got, want):
        if got != want:
            out.append(V('%s on the wire is %r, requested %r (%s)' % (what, got, want, raw.hex()[:100])))

    if cmd == '4':
        ka = t.n()
        props = t.list(t.prop)
        cid = t.bytes()
        auth = t.opt(lambda: (t.bytes(), t.bytes()))
        will = t.opt(lambda: dict(topic=t.bytes(), payload=t.bytes(), qos=t.n(), retain=bool(t.n()), props=t.list(t.prop)))
        clean = bool(t.n())
        same('type', p['type'], 'CONNECT')
        same('keep-alive', p.get('keepalive'), ka)
        same('clean start', p.get('clean_start'), clean)
        same('client id', p.get('client_id'), cid)
        same('CONNECT properties', p.get('props'), props)
        same('user name', p.get('user'), auth[0] if auth else None)
        same('password', p.get('password'), auth[1] if auth else None)
        if will is None:
            same('will', p.get('will'), None)
        else:
            same('will', p.get('will'), will)
    elif cmd == '6':
        pid = t.n()
        props = t.list(t.prop)
        topics = t.list(lambda: (t.bytes(), t.n(), t.n(), t.n(), t.n()))
        same('type', p['type'], 'SUBSCRIBE')
        same('identifier', p.get('pid'), pid)
        same('SUBSCRIBE properties', p.get('props'), props)
        same('filters', p.get('topics'), [(n, q | (nl << 2) | (rap << 3) | (rh << 4)) for n, q, nl, rap, rh in topics])
    elif cmd == '7':
        pid = t.n()
        props = t.list(t.prop)
        topics = t.list(t.bytes)
        same('type', p['type'], 'UNSUBSCRIBE')
        same('identifier', p.get('pid'), pid)
        same('UNSUBSCRIBE properties', p.get('props'), props)
        same('filters', p.get('topics'), topics)
    else:
        reason = t.opt(t.n)
        props = t.opt(lambda: t.list(t.prop))
        same('type', p['type'], 'DISCONNECT')
        # the request holds a ReasonCode enum value: the harness maps a token that names no variant to ReasonCode::Unknown
        same('reason', p.get('reason'), (reason if reason in REASON_CODES else 0xFF) if reason is not None else 0)
        same('DISCONNECT properties', p.get('props') or [], props or [])
    return out


# ---------------------------------------------------------------- C18: reference status of every handle
def mon_c18_ref(case_line, acts):
    """reference computation of each handle's status from the packets the client consumed: complete exactly after its
    own final acknowledgement (PUBACK; PUBCOMP after PUBREC, or a failing PUBREC; SUBACK; UNSUBACK) in the session it
    was issued in, invalidated exactly after a CONNACK without session present, pending otherwise.  An acknowledgement
    whose type does not fit the operation holding that identifier (a broker error outside the property's quantifier)
    makes that handle's status unspecified."""
    out = []
    fl = Flow(acts)
    rx = {}
    for ev in fl.events:
        if ev[0] == 'rx':
            rx.setdefault(ev[4], []).append((ev[2], ev[3]))
    H = []       # dicts: kind, pid, st in P C I U, phase
    FINAL = {0: 4, 2: 9, 3: 11}
    for i, a in enumerate(acts):
        evs = rx.get(i, [])
        if a.result == 'err InvalidPacket' and evs:
            evs = evs[:-1]                      # the last packet read was rejected, not consumed
        if a.code == 0:
            evs = []                            # the handshake consumes the CONNACK only
            if a.result == 'ok connected':
                for h in H:
                    h['st'] = 'I'
        for first, body in evs:
            typ = first >> 4
            if typ not in (4, 5, 7, 9, 11) or len(body) < 2:
                continue
            pid = (body[0] << 8) | body[1]
            cand = [h for h in H if h['pid'] == pid and h['st'] == 'P']
            if not cand:
                continue
            h = cand[-1]
            if len(cand) > 1:
                for x in cand:
                    x['st'] = 'U'               # two pending handles with one identifier: C07's subject
                continue
            if typ == 7:
                if h['kind'] == 1 and h['phase'] == 'rel':
                    h['st'] = 'C'
                continue
            if typ == 5 and h['kind'] == 1:
                if h['phase'] == 'pub':
                    if len(body) >= 3 and body[2] >= 0x80:
                        h['st'] = 'C'
                    else:
                        h['phase'] = 'rel'
                continue
            if h['kind'] == 1 and h['phase'] == 'rel':
                continue                        # PUBACK / SUBACK naming an exchange that is past its PUBLISH: no retained entry
            if FINAL.get(h['kind']) == typ:
                h['st'] = 'C'
                # "a final acknowledgement carrying a failure code is surfaced as an error naming that code": the refusal
                # of ANY filter of a SUBSCRIBE / UNSUBSCRIBE counts, whatever the other filters got
                if len(evs) == 1 and a.code in (5, 6, 7):
                    codes = []
                    try:
                        if typ in (9, 11):
                            n, j = mqttspec.varint(bytes(body), 2)
                            codes = list(body[j + n:])
                        elif len(body) >= 3:
                            codes = [body[2]]
                    except Exception:
                        codes = []
                    bad = [c for c in codes if c >= 0x80]
                    if bad and a.result != 'err Rejected(%d)' % bad[0] and not (a.result or '').startswith('err Rejected('):
                        out.append(V('the %s of identifier %d consumed at action #%d carries the failure code 0x%02x; the call '
                                     'returned %r instead of surfacing it' % ({4: 'PUBACK', 9: 'SUBACK', 11: 'UNSUBACK'}[typ], pid, i, bad[0], a.result)))
                        return out
            else:
                h['st'] = 'U'
        if a.code in (1, 2, 3) and (a.result or '').startswith('ok op '):
            f = a.result.split(' ')
            H.append({'kind': int(f[2]), 'pid': int(f[3]), 'st': 'P', 'phase': 'pub'})
        if a.state is None:
            continue
        hs = list_field(a.state.get('h', '[]'))
        for k, (h, got) in enumerate(zip(H, hs)):
            if got.startswith('X'):
                out.append(V('handle %d answers is_invalidated/is_pending/is_complete = %s after action #%d' % (k, got[1:], i)))
                return out
            if h['st'] != 'U' and got != h['st']:
                names = {'P': 'pending', 'C': 'complete', 'I': 'invalidated'}
                out.append(V('handle %d (kind %d, identifier %d) reports %s after action #%d; by the acknowledgements consumed '
                             'so far it is %s' % (k, h['kind'], h['pid'], names.get(got, got), i, names[h['st']])))
                return out
    return out


# ---------------------------------------------------------------- the requests of a session case (token line -> values)
def parse_case(line):
    """-> {'cfg': {...}, 'actions': [(code, request dict or None)]} for a session case line (command 10)"""
    t = _Toks(line)
    if t.n() != 10:
        return None
    cfg = dict(rx=t.n(), tx=t.n(), cid=t.bytes(), ka=t.n(), expiry=t.n(), downgrade=bool(t.n()))
    cfg['will'] = t.opt(lambda: dict(topic=t.bytes(), payload=t.bytes(), qos=t.n(), retain=bool(t.n()), props=t.list(t.prop)))
    cfg['auth'] = t.opt(lambda: (t.bytes(), t.bytes()))
    actions = []
    for _ in range(t.n()):
        code = t.n()
        req = None
        if code == 0:
            req = t.list(lambda: (t.n(), t.bytes()))
        elif code == 1:
            topic = t.bytes()
            corr = t.opt(t.bytes)
            req = dict(topic=topic, corr=corr, props=t.list(t.prop), qos=t.n(), payload=t.bytes(), retain=bool(t.n()))
        elif code == 2:
            req = dict(props=t.list(t.prop), topics=t.list(lambda: (t.bytes(), t.n(), t.n(), t.n(), t.n())))
        elif code == 3:
            req = dict(props=t.list(t.prop), topics=t.list(t.bytes))
        elif code == 4:
            req = dict(reason=t.opt(t.n), props=t.opt(lambda: t.list(t.prop)))
        elif code == 8:
            req = (t.n(), t.bytes())
        elif code in (9, 12, 13):
            req = t.n()
        actions.append((code, req))
    return {'cfg': cfg, 'actions': actions}


def mon_c19_handle(case_line, acts):
    """the handle returned by publish() matches the QoS actually used on the wire, and a publish that reports
    success put exactly the requested topic and payload on the wire: `Ok(None)` <=> a QoS 0 PUBLISH without identifier,
    `Ok(handle)` <=> a QoS 1 / QoS 2 PUBLISH (by handle kind) carrying the handle's identifier; never above the
    broker's Maximum QoS when auto-downgrade is configured"""
    out = []
    case = parse_case(case_line)
    if case is None or len(case['actions']) != len(acts):
        return out
    fl = Flow(acts)
    tx = {}
    for ev in fl.events:
        if ev[0] == 'tx':
            tx.setdefault(ev[3], []).append(ev[2])
    for i, a in enumerate(acts):
        code, req = case['actions'][i]
        if code != 1 or a.code != 1 or not (a.result or '').startswith('ok '):
            continue
        prev = acts[i - 1].state if i > 0 else None
        pubs = [p for p in tx.get(i, []) if p['type'] in ('PUBLISH', 'MALFORMED') and p['first'] >> 4 == 3 and not (p['first'] & 8)]
        if a.result == 'ok none':
            mine = [p for p in pubs if (p['first'] >> 1) & 3 == 0]
            if len(mine) != 1 or len(pubs) != 1:
                # the packet may have been cut off by a fault that the call did not report: only a complete packet is judged
                continue
            p = mine[0]
            if p['type'] == 'MALFORMED':
                if _illegal_input(p['error']):
                    continue          # an illegal request (empty topic, illegal property): not this monitor's subject
                out.append(V('publish() at action #%d returned Ok(None) and wrote a malformed QoS 0 PUBLISH: %s (%s)'
                             % (i, p['error'], p['raw'].hex()[:80])))
            elif p['topic'] != req['topic'] or p['payload'] != req['payload']:
                out.append(V('publish() at action #%d returned Ok(None); the QoS 0 PUBLISH on the wire has topic %r payload %s, '
                             'requested topic %r payload %s (%s)' % (i, p['topic'], p['payload'].hex()[:40], req['topic'],
                                                                   req['payload'].hex()[:40], p['raw'].hex()[:80])))
        else:
            f = a.result.split(' ')
            kind, pid = int(f[2]), int(f[3])
            want = {0: 1, 1: 2}.get(kind)
            mine = [p for p in pubs if p['type'] == 'PUBLISH' and p.get('pid') == pid]
            zero = [p for p in pubs if (p['first'] >> 1) & 3 == 0]
            if zero:
                out.append(V('publish() at action #%d returned a handle (kind %d, identifier %d) and wrote a QoS 0 PUBLISH (%s)'
                             % (i, kind, pid, zero[0]['raw'].hex()[:80])))
            for p in mine:
                if p['qos'] != want:
                    out.append(V('publish() at action #%d returned a handle of kind %d; the PUBLISH %d on the wire has QoS %d'
                                 % (i, kind, pid, p['qos'])))
        if prev and case['cfg']['downgrade'] and prev.get('maxqos', '-') not in ('-', '?'):
            for p in pubs:
                if p['type'] == 'PUBLISH' and p['qos'] > int(prev['maxqos']):
                    out.append(V('PUBLISH with QoS %d written at action #%d although the broker Maximum QoS is %s and '
                                 'auto-downgrade is on' % (p['qos'], i, prev['maxqos'])))
    return out


# ---------------------------------------------------------------- C08: what is certainly valid must be accepted
def mon_c08_valid(case_line, acts, only=None):
    """a broker packet that the independent validator (mqttspec.parse_server_packet) finds certainly valid, that fits the
    receive buffer and that is legal at that point of the connection (CONNACK only as the answer to CONNECT) must not
    be answered with the invalid-packet error"""
    out = []
    rxcap = case_cfg(case_line)['rx']
    inb = bytearray()
    ipos = 0
    for i, a in enumerate(acts):
        if a.code == 0:
            inb = bytearray()
            ipos = 0
        for e in a.events:
            if e[0] == 'r' and e[2]:
                inb += bytes.fromhex(e[3])
        frames, tail, err = mqttspec.split_stream(inb[ipos:])
        ipos += sum(len(raw) for _, _, raw in frames)
        if a.result == 'err InvalidPacket' and not frames and tail and not err and only is None:
            # refused on its header, before the body was read: all the client has seen is the first byte and the length
            try:
                n, j = mqttspec.varint(tail, 1)
            except (IndexError, mqttspec.Malformed):
                n = None
            typ, flags = tail[0] >> 4, tail[0] & 15
            legal = (typ == 3 and (flags >> 1) & 3 != 3 and not ((flags >> 1) & 3 == 0 and flags & 8)) or \
                    (typ in SERVER_FLAGS and flags == SERVER_FLAGS[typ])
            if n is not None and legal and j + n <= rxcap and len(tail) < j + n and (typ == 2) == (a.code == 0):
                out.append(V('a packet announced with %d bytes, which fits the receive buffer of %d bytes, was refused on its header '
                             '(%s) at action #%d' % (j + n, rxcap, bytes(tail[:j]).hex(), i)))
            continue
        if a.result != 'err InvalidPacket' or not frames or tail or err:
            continue
        first, body, raw = frames[-1]
        if len(raw) > rxcap:
            continue
        try:
            p = mqttspec.parse_server_packet(first, body)
        except (mqttspec.Malformed, mqttspec.Unsure):
            continue
        if (p['type'] == 'CONNACK') != (a.code == 0):
            continue
        if only is not None and p['type'] not in only:
            continue
        cls = None
        if p['type'] == 'CONNACK' and any(k == 0x12 and len(v) > 64 for k, v in p.get('props', [])):
            cls = 'K08a'       # Assigned Client Identifier longer than the 64 bytes the client can store
        out.append(V('a valid %s from the broker (%s) was answered with InvalidPacket at action #%d'
                     % (p['type'], raw.hex()[:100], i), cls))
    return out


def mon_c04_valid(case_line, acts):
    """C04's share of mon_c08_valid: a certainly valid PUBLISH is never answered with InvalidPacket"""
    return mon_c08_valid(case_line, acts, only=('PUBLISH',))
