"""Parsing of session traces (the canonical text both the model and the harness print)."""
import re


class Action:
    __slots__ = ('code', 'detail', 'events', 'result', 'state', 'raw_state')

    def __init__(self, code, detail=''):
        self.code = code
        self.detail = detail
        self.events = []      # list of tuples: ('w', offered, n|None, hex|kind) / ('f', kind) / ('r', win, n|None, hex|kind) / ('t', ms)
        self.result = None    # text after '= '
        self.state = None     # dict
        self.raw_state = None


def parse_state(text):
    d = {}
    for kv in text.split(' '):
        if '=' in kv:
            k, v = kv.split('=', 1)
            d[k] = v
    return d


def parse_trace(line):
    """-> list of Action; tolerant: unknown lines are kept as ('?', text) events"""
    actions = []
    cur = None
    for part in line.split('|'):
        if part.startswith('#'):
            head, _, detail = part[1:].partition(':')
            cur = Action(int(head) if head.isdigit() else -1, detail)
            actions.append(cur)
            continue
        if cur is None:
            cur = Action(-1)
            actions.append(cur)
        if part.startswith('= '):
            cur.result = part[2:]
        elif part.startswith('s '):
            cur.raw_state = part[2:]
            cur.state = parse_state(part[2:])
        elif part.startswith('w '):
            f = part.split(' ')
            if len(f) >= 3 and f[2].isdigit():
                cur.events.append(('w', int(f[1]), int(f[2]), f[3] if len(f) > 3 else ''))
            else:
                cur.events.append(('w', int(f[1]) if f[1].isdigit() else 0, None, f[2] if len(f) > 2 else '?'))
        elif part.startswith('r '):
            f = part.split(' ')
            if len(f) >= 3 and f[2].isdigit():
                cur.events.append(('r', int(f[1]), int(f[2]), f[3] if len(f) > 3 else ''))
            else:
                cur.events.append(('r', int(f[1]) if f[1].isdigit() else 0, None, f[2] if len(f) > 2 else '?'))
        elif part.startswith('f '):
            cur.events.append(('f', part[2:]))
        elif part.startswith('t '):
            cur.events.append(('t', int(part[2:])))
        else:
            cur.events.append(('?', part))
    return actions


def list_field(v):
    """'[a,b,c]' -> ['a','b','c']"""
    v = v.strip()
    if v.startswith('[') and v.endswith(']'):
        v = v[1:-1]
    return [x for x in v.split(',') if x != '']


def qos0_partial(a):
    """a publish() whose last, unflushed stretch of writes is the beginning of a QoS 0 PUBLISH (written straight from a
    temporary buffer; the request may have asked for more and been downgraded)"""
    tail = bytearray()
    for e in a.events:
        if e[0] == 'f' and e[1] == 'ok':
            tail = bytearray()
        elif e[0] == 'w' and e[2]:
            tail += bytes.fromhex(e[3])
    return bool(tail) and (tail[0] & 0xF6) == 0x30


def garbles(a, prev=None):
    """the action leaves the outbound stream of its transport undecodable from here on, for a reason that belongs to
    another property's account: a QoS 0 publish whose future was dropped (or whose transport returned Ok(0)) after
    some of its bytes had been accepted (documented as not cancel-safe: excluded by the property texts), or the two
    recorded defects of disconnect() (C01 K01b: its DISCONNECT written inside a half-written packet; K01c / C13 K13d:
    its future dropped after bytes were accepted).  Monitors of other properties stop decoding that transport there."""
    wrote = any(e[0] == 'w' and e[2] for e in a.events)
    if not wrote:
        return False
    if a.code == 1 and (a.result == 'cancelled' or (a.result or '').startswith('err WriteZero')) and qos0_partial(a):
        return True
    if a.code == 4:
        if a.result == 'cancelled':
            return True
        if prev:
            for key in ('ret', 'ctl', 'rel'):
                for x in list_field(prev.get(key, '[]')):
                    parts = x.split(':')
                    if any(p.startswith('W') and p[1:].isdigit() and int(p[1:]) > 0 for p in parts):
                        return True
    return False


def connections(actions):
    """split the actions into connections: list of dicts {start, actions, wire(bytes), reads(bytes), connack_ok}"""
    conns = []
    cur = None
    for i, a in enumerate(actions):
        if a.code == 0:
            cur = {'start': i, 'actions': [], 'wire': bytearray(), 'inbound': bytearray(), 'ok': False}
            conns.append(cur)
        if cur is not None:
            cur['actions'].append(i)
            if garbles(a, actions[i - 1].state if i > 0 else None):
                # a QoS 0 publish dropped in the middle of its packet (documented as not cancel-safe): from here on the
                # stream of this transport cannot be decoded by anybody; it ends before the partial packet
                cur['garbled'] = True
            for e in a.events:
                if e[0] == 'w' and e[2] and not cur.get('garbled'):
                    cur['wire'] += bytes.fromhex(e[3])
                if e[0] == 'r' and e[2]:
                    cur['inbound'] += bytes.fromhex(e[3])
            if a.code == 0 and a.result and a.result.startswith('ok'):
                cur['ok'] = True
        if a.code == 10:
            cur = None
    return conns


def project(line, keep_events, keep_state, keep_result=True):
    """projection of a trace onto a property's observable slice"""
    out = []
    for a in parse_trace(line):
        row = ['#%d%s' % (a.code, ':' + a.detail if a.detail else '')]
        for e in a.events:
            if e[0] in keep_events:
                row.append(' '.join(str(x) for x in e))
        if keep_result and a.result is not None:
            row.append('= ' + a.result)
        if a.state is not None:
            row.append(' '.join('%s=%s' % (k, a.state.get(k, '?')) for k in keep_state))
        out.append('|'.join(row))
    return '\n'.join(out)
