"""Shared machinery of the checks: building, running cases on model and implementation, evidence."""
import hashlib, json, os, re, subprocess, sys, time, concurrent.futures

VERIF = os.path.dirname(os.path.dirname(os.path.abspath(__file__)))
COQ = os.path.join(VERIF, 'coq')
OCAML = os.path.join(VERIF, 'ocaml')
HARNESS = os.path.join(VERIF, 'harness')
CACHE = os.path.join(VERIF, '.cache')
WORK = os.path.join(CACHE, 'work')
TARGET = os.path.join(CACHE, 'target')
HBIN = os.path.join(TARGET, 'debug', 'minimq-verif-harness')
COVBIN = os.environ.get('VERIF_COVERAGE_HBIN')   # bin/coverage only: an instrumented build of the same harness
MBIN = os.path.join(OCAML, 'model_driver')
ENV = dict(os.environ, CARGO_NET_OFFLINE='true', CARGO_TARGET_DIR=TARGET)   # the build follows this checkout (a vp-run snapshot builds into its own .cache)
NPROC = min(16, os.cpu_count() or 4)


def sh(cmd, cwd=None, timeout=3600, check=True, inp=None):
    p = subprocess.run(cmd, cwd=cwd, shell=isinstance(cmd, str), stdout=subprocess.PIPE, stderr=subprocess.STDOUT,
                       text=True, timeout=timeout, env=ENV, input=inp)
    if check and p.returncode != 0:
        sys.stderr.write(p.stdout[-4000:])
        raise RuntimeError('command failed: %s' % (cmd,))
    return p.stdout


def build_coq():
    """full .vo build of the development (incremental; never -vos)"""
    os.makedirs(WORK, exist_ok=True)
    if not os.path.exists(os.path.join(COQ, 'Makefile')):
        sh('coq_makefile -f _CoqProject -o Makefile', cwd=COQ)
    return sh('timeout 3000 make -j%d' % NPROC, cwd=COQ, timeout=3100)


def build_ocaml():
    src = [os.path.join(OCAML, 'extract.v'), os.path.join(OCAML, 'driver.ml')]
    vos = []
    for root, _, files in os.walk(os.path.join(COQ, 'theories', 'Model')):
        vos += [os.path.join(root, f) for f in files if f.endswith('.vo')]
    newest = max(os.path.getmtime(f) for f in src + vos)
    if os.path.exists(MBIN) and os.path.getmtime(MBIN) >= newest:
        return
    sh('coqc -Q ../coq/theories Minimq extract.v && rm -f model.mli && '
       'ocamlfind ocamlopt -O2 -o model_driver model.ml driver.ml 2>&1 | grep -v -i warning || true', cwd=OCAML)
    if not os.path.exists(MBIN):
        raise RuntimeError('model driver did not build')


def build_harness():
    """rebuild the harness against /repo's current working tree (hooks on via .cargo/config.toml)"""
    global HBIN
    if COVBIN:
        HBIN = COVBIN
        return ''
    lock = os.path.join(HARNESS, 'Cargo.lock')
    if not os.path.exists(lock):
        sh('cp /repo/Cargo.lock %s' % lock)
    out = sh('cargo build --offline 2>&1', cwd=HARNESS, timeout=1800, check=False)
    if not os.path.exists(HBIN) or 'error' in out and 'could not compile' in out:
        sys.stderr.write(out[-6000:])
        raise RuntimeError('harness does not build against /repo')
    return out


def gen(suite, count, seed):
    env = dict(ENV, VERIF_SEED=str(seed))
    p = subprocess.run([HBIN, 'gen', suite, str(count)], stdout=subprocess.PIPE, text=True, env=env, timeout=600)
    if p.returncode != 0:
        raise RuntimeError('generator failed: ' + suite)
    return p.stdout.splitlines()


def _big_stack():
    # the extracted model recurses over lists: a packet of a few hundred kilobytes overflows the default 8 MB stack
    try:
        import resource
        resource.setrlimit(resource.RLIMIT_STACK, (resource.RLIM_INFINITY, resource.RLIM_INFINITY))
    except Exception:
        pass


STALL_IMPL = float(os.environ.get('VERIF_STALL_S', '60'))     # no output from the implementation for this long = HANG
STALL_MODEL = 3000.0                                           # the model is total; only a budget for slow cases


def _run_stream(binary, lines, stall):
    """feed the lines to one process; return (complete output lines, status of the line it died or stalled on)"""
    import select, threading
    p = subprocess.Popen([binary] + (['run'] if binary == HBIN else []), stdin=subprocess.PIPE,
                         stdout=subprocess.PIPE, stderr=subprocess.DEVNULL, preexec_fn=_big_stack)
    data = ('\n'.join(lines) + '\n').encode()

    def feed():
        try:
            p.stdin.write(data)
            p.stdin.close()
        except Exception:
            pass
    th = threading.Thread(target=feed, daemon=True)
    th.start()
    buf = b''
    status = None
    fd = p.stdout.fileno()
    while True:
        r, _, _ = select.select([fd], [], [], stall)
        if not r:
            status = 'HANG'
            p.kill()
            break
        chunk = os.read(fd, 1 << 20)
        if not chunk:
            break
        buf += chunk
    p.wait()
    out = buf.decode(errors='replace').split('\n')
    out = out[:-1]          # the last element is an incomplete line (or empty)
    if status is None and len(out) < len(lines):
        status = 'CRASH rc=%d' % p.returncode
    return out[:len(lines)], status


def _run_shard(args):
    binary, lines = args
    out = []
    if binary == HBIN:
        # the harness prints one flushed line per case: whatever follows the last complete line is the culprit of
        # a crash (abort / stack overflow) or of a stall (an implementation that no longer terminates)
        pos = 0
        while pos < len(lines):
            got, status = _run_stream(binary, lines[pos:], STALL_IMPL)
            out.extend(got)
            pos += len(got)
            if pos < len(lines):
                out.append(status or 'CRASH')
                pos += 1
        return out
    got, status = _run_stream(binary, lines, STALL_MODEL)
    if len(got) == len(lines):
        return got
    # the model driver buffers its output: find the culprit line by line
    for l in lines:
        o, st = _run_stream(binary, [l], 600.0)
        out.append(o[0] if len(o) == 1 else (st or 'CRASH'))
    return out


def run_many(binary, lines, shards=None):
    if not lines:
        return []
    shards = shards or NPROC
    n = max(1, min(shards, len(lines) // 50 + 1))
    size = (len(lines) + n - 1) // n
    parts = [lines[i:i + size] for i in range(0, len(lines), size)]
    with concurrent.futures.ThreadPoolExecutor(max_workers=n) as ex:
        res = list(ex.map(_run_shard, [(binary, p) for p in parts]))
    return [x for r in res for x in r]


def run_impl(lines):
    return run_many(HBIN, lines)


def run_model(lines):
    return run_many(MBIN, lines)


def norm_fuel(a, b):
    """an operation that loops without bound ends the trace with '= FUEL' on both sides; the amount of output
    before the watchdog fires is not comparable, so both traces are cut at the start of that action"""
    if a.endswith('= FUEL') or b.endswith('= FUEL'):
        cut = lambda t: t[:t.rfind('|#')] + '|= FUEL' if '|#' in t else '= FUEL'
        if a.endswith('= FUEL') and b.endswith('= FUEL'):
            return cut(a), cut(b)
    return a, b


# ---------------- proof side ----------------
FORBIDDEN = re.compile(r'\b(Admitted|admit|Axiom|Parameter|Conjecture|Unset Guard|bypass_check|Admit Obligations)\b|type-in-type|impredicative-set')


def scan_forbidden():
    bad = []
    for root, _, files in os.walk(os.path.join(COQ, 'theories')):
        for f in files:
            if f.endswith('.v'):
                path = os.path.join(root, f)
                for i, line in enumerate(open(path), 1):
                    code = re.sub(r'\(\*.*?\*\)', '', line)
                    if FORBIDDEN.search(code):
                        bad.append('%s:%d: %s' % (path, i, line.strip()))
    proj = open(os.path.join(COQ, '_CoqProject')).read()
    if FORBIDDEN.search(proj):
        bad.append('_CoqProject passes a forbidden flag')
    return bad


ALLOWED_AXIOMS = set()   # none: every property theorem must be closed under the global context


def check_property_file(pid):
    """re-check Properties/<pid>.v with coqc, parse Print Assumptions; returns (theorems, closed, problems)"""
    path = os.path.join(COQ, 'theories', 'Properties', pid + '.v')
    if not os.path.exists(path):
        return [], 0, ['no property file ' + path]
    src = open(path).read()
    theorems = re.findall(r'^\s*Theorem\s+(\w+)', src, re.M)
    printed = re.findall(r'^\s*Print Assumptions\s+(\w+)\.', src, re.M)
    problems = []
    for t in theorems:
        if t not in printed:
            problems.append('theorem %s has no Print Assumptions' % t)
    out = sh('timeout 900 coqc -q -Q theories Minimq -w -notation-overridden theories/Properties/%s.v' % pid, cwd=COQ,
             check=False, timeout=1000)
    if 'Error' in out:
        problems.append('coqc failed on the property file: ' + out[-1500:])
        return theorems, 0, problems
    blocks = re.split(r'(?=Closed under the global context|Axioms:)', out)
    closed = sum(1 for b in blocks if b.startswith('Closed under the global context'))
    for b in blocks:
        if b.startswith('Axioms:'):
            names = re.findall(r'^(\S+)\s*:', b[len('Axioms:'):], re.M)
            extra = [n for n in names if n not in ALLOWED_AXIOMS]
            if extra:
                problems.append('theorem depends on axioms: ' + ', '.join(extra))
            else:
                closed += 1
    if closed != len(printed):
        problems.append('Print Assumptions blocks: %d, expected %d' % (closed, len(printed)))
    return theorems, closed, problems


def write_evidence(pid, tier, seed, coverage, assumptions, wall, violations):
    if os.environ.get('VERIF_NO_EVIDENCE'):   # bin/coverage: a measurement run must not overwrite evidence
        return
    os.makedirs(os.path.join(VERIF, 'evidence'), exist_ok=True)
    ev = {'property_id': pid, 'tier': tier, 'seed': seed, 'level': 'proof', 'coverage': coverage,
          'assumptions': assumptions, 'wall_s': round(wall, 2), 'violations': violations}
    with open(os.path.join(VERIF, 'evidence', pid + '.json'), 'w') as f:
        json.dump(ev, f, indent=1)


def save_replay(pid, payload):
    d = os.path.join(VERIF, 'replays')
    os.makedirs(d, exist_ok=True)
    h = hashlib.sha1(json.dumps(payload, sort_keys=True).encode()).hexdigest()[:12]
    path = os.path.join(d, '%s-%s.json' % (pid, h))
    with open(path, 'w') as f:
        json.dump(payload, f, indent=1)
    return path
