"""Directed case generators written in Python (on top of casegen's DSL).  Every choice comes from one
random.Random(seed) so a case line is reproducible from (suite, seed, index)."""
import random
from casegen import Case, connack, ack, suback, publish, PINGRESP, enc_props


def _lead(k_ms):
    return min(5000, k_ms // 2)


def gen_c10(seed, count):
    """keep-alive schedules: every keep-alive class (0, <5 s, 5..9 s, >=10 s, 65535), with and without Server Keep
    Alive, PINGRESP arrival relative to the two deadlines (before, exactly at, just after), traffic in between"""
    out = []
    for idx in range(count):
        r = random.Random((seed << 20) ^ idx)
        ka = r.choice([0, 0, 1, 2, 3, 4, 5, 6, 9, 10, 11, 12, 30, 60, 600, 65535])
        server = r.choice([None, None, None, 0, 1, 2, 5, 7, 10, 15, 20, 100])
        eff = ka if server is None else server
        k_ms = eff * 1000
        i_ms = k_ms - _lead(k_ms)
        c = Case(rx=r.choice([32, 64, 128]), tx=r.choice([64, 128, 256]), ka=ka)
        props = [(19, server)] if server is not None else []
        if r.random() < 0.3:
            props.append((33, r.choice([1, 2, 8, 100])))
        c.connect((r.choice([0, 0, 0, 1, 500, 3000]), connack(0, 0, props)))
        auto = r.random() < 0.35
        if auto:
            c.broker(1)
        interesting = [0, 1, 100, 2499, 2500, 2501, 4999, 5000, 5001, 5100, 9999, 10000]
        if i_ms:
            interesting += [i_ms - 1, i_ms, i_ms + 1, max(0, 5000 - i_ms), max(0, 5000 - i_ms) + 1]
        for _ in range(r.randint(3, 14)):
            x = r.random()
            if x < 0.45:
                c.poll()
            elif x < 0.50:
                c.recv()
            elif x < 0.68:
                if not auto:
                    c.feed(PINGRESP, r.choice(interesting))
                else:
                    c.poll()
            elif x < 0.76:
                pkt = publish(0, 0, b't', b'x' * r.randint(0, 5))
                if r.random() < 0.4:
                    # the packet arrives in two pieces, the second one at, just before or after one of the deadlines: the
                    # read that waits for it races the select's timer, which has already yielded once
                    k = r.randint(1, len(pkt) - 1)
                    c.feed(pkt[:k], r.choice(interesting))
                    c.feed(pkt[k:], r.choice(interesting))
                else:
                    c.feed(pkt, r.choice(interesting))
            elif x < 0.82:
                c.publish(b'a', b'p', qos=r.choice([0, 0, 1]))
            elif x < 0.88:
                c.advance(r.choice(interesting + [20000]))
            elif x < 0.92:
                auto = not auto
                c.broker(1 if auto else 0)
            elif x < 0.95:
                c.feed(publish(1, r.randint(1, 9), b't', b'y'), r.choice(interesting))
            else:
                c.feed(ack(4, 1, None), r.choice(interesting))
        if r.random() < 0.3:
            # a second connection whose CONNACK names another Server Keep Alive, or none: nothing of the first one counts
            c.drop()
            server2 = r.choice([None, None, None, 0, 1, 3, 10, 30])
            c.connect(connack(r.choice([0, 1]), 0, [(19, server2)] if server2 is not None else []))
            k2 = (ka if server2 is None else server2) * 1000
            i2 = k2 - _lead(k2)
            times = [0, 1, 500, 999, 1000, 1001, 2500, 5000, 5001] + ([i2 - 1, i2, i2 + 1, k2] if k2 else [])
            for _ in range(r.randint(2, 6)):
                y = r.random()
                if y < 0.6:
                    c.poll()
                elif y < 0.8:
                    c.feed(PINGRESP, r.choice(times))
                else:
                    c.advance(r.choice(times))
        c.poll()
        if r.random() < 0.1:
            c.ev((0, 1), (0, 2), (0, 1000), (0, 1000), (0, 1))
        elif r.random() < 0.25:
            # transports on which a write takes time (script kinds 4 / 5): connect's five calls are healthy, then slow and
            # ordinary calls are mixed
            c.ev(*([(0, 1000)] * 5 + [r.choice([(0, 1000), (0, 1000), (0, 2), (5, r.choice(interesting)), (4, r.choice(interesting))])
                                       for _ in range(r.randint(3, 30))]))
        out.append(c.line())
    return out


PYGEN = {'py_c10': gen_c10}


def gen_c01(seed, count):
    """packets left half written (short write, then the future dropped) with something else becoming due meanwhile:
    keep-alive PINGREQ, owed acks, new requests, disconnect — then the connection is driven on with tiny writes"""
    out = []
    for idx in range(count):
        r = random.Random((seed << 20) ^ (idx + 7919))
        ka = r.choice([1, 1, 2, 2, 5, 10, 0])
        k_ms = ka * 1000
        i_ms = k_ms - _lead(k_ms)
        c = Case(rx=64, tx=r.choice([128, 256]), ka=ka)
        c.connect(connack(0, 0, []))
        c.ev(*([(0, 1000)] * 5))
        # optionally some inbound QoS 2 state so that PUBREL/PUBCOMP traffic exists
        n_partial = r.randint(1, 3)
        for _ in range(n_partial):
            kind = r.random()
            if kind < 0.5:
                c.publish(b'a/b', b'p' * r.randint(0, 12), qos=r.choice([1, 2]))
            elif kind < 0.8:
                c.subscribe(((b't/' + bytes([97 + r.randint(0, 5)]), r.randint(0, 2)),))
            else:
                c.unsubscribe((b'u',))
            c.ev((0, r.randint(1, 6)))
            if r.random() < 0.8:
                c.ev((3, 0))
            else:
                c.ev((0, r.randint(1, 3)), (3, 0))
            adv = r.choice([0, 0, max(i_ms - 1, 0), i_ms, i_ms + 1, k_ms, 20000])
            if adv:
                c.advance(adv)
            x = r.random()
            if x < 0.15:
                c.feed(publish(1, r.randint(1, 5), b'in', b'q'), 0)
            elif x < 0.25:
                c.feed(publish(2, r.randint(1, 5), b'in', b'q'), 0)
            elif x < 0.3:
                c.feed(PINGRESP, 0)
            y = r.random()
            if y < 0.5:
                c.poll()
            elif y < 0.6:
                c.drive()
            elif y < 0.7:
                c.publish(b'z', b'0', qos=0)
            elif y < 0.8:
                c.publish(b'z', b'1', qos=1)
            elif y < 0.85:
                c.recv()
            elif y < 0.9:
                c.subscribe()
            else:
                c.poll(2)
            for _ in range(r.randint(2, 10)):
                z = r.random()
                if z < 0.55:
                    c.ev((0, r.choice([1, 1, 2, 3, 5])))
                elif z < 0.9:
                    c.ev((0, 1000))
                else:
                    c.ev((3, 0))
        if r.random() < 0.5:
            c.broker(1)
        c.poll(r.randint(1, 3))
        if r.random() < 0.15:
            c.disconnect()
        out.append(c.line())
    return out


PYGEN['py_c01'] = gen_c01


def gen_c04(seed, count):
    """broker-side publish traffic: several identifiers in flight, retransmissions (DUP) before and after the PUBREL,
    PUBRELs for unknown identifiers, resumed and fresh reconnects between PUBLISH and PUBREL, tiny transmit arenas"""
    out = []
    for idx in range(count):
        r = random.Random((seed << 20) ^ (idx + 104729))
        c = Case(rx=r.choice([48, 64, 128]), tx=r.choice([9, 12, 16, 64, 256]), ka=0)
        c.connect(connack(0, 0, []))
        pend = []
        ids = [1, 2, 3, 7, 300, 65535]
        if idx % 4 == 3:
            # every inbound QoS 2 slot taken (the client advertises Receive Maximum 8), then retransmissions, PUBRELs and
            # reconnects on the full table
            ids = [1, 2, 3, 7, 300, 65535, 4, 9, 10]
            for pid in r.sample(ids, r.choice([7, 8, 8, 8])):
                c.feed(publish(2, pid, b't', bytes([pid & 255])))
                c.poll()
                pend.append(pid)
        if idx % 5 == 2:
            # QoS 1 deliveries that reuse an identifier, with and without DUP, on the same and on a resumed connection:
            # an acknowledged identifier is free again, every one of these is a message to deliver and to acknowledge
            n1 = r.choice(ids)
            for k in range(r.randint(2, 4)):
                c.feed(publish(1, n1, b'q1/same', bytes([65 + k]) * r.randint(1, 4), dup=(k > 0 and r.random() < 0.8)))
                c.poll()
                if r.random() < 0.3:
                    c.drop()
                    c.connect(connack(1, 0, []))
        for _ in range(r.randint(3, 14)):
            x = r.random()
            if x < 0.30:
                pid = r.choice(ids)
                props = r.choice([(), (), ((1, 1),), ((8, b're/ply'), (9, b'cd')), ((38, (b'k', b'v')), (38, (b'k', b'w'))),
                                  ((11, 5),), ((2, 60), (3, b'text/plain'))])
                c.feed(publish(2, pid, r.choice([b't', b'a/b', 'café'.encode()]), bytes(r.randrange(256) for _ in range(r.randint(0, 9))),
                               props, dup=(pid in pend and r.random() < 0.7), retain=r.random() < 0.2))
                if pid not in pend and len(pend) < 8:
                    pend.append(pid)
                c.poll()
            elif x < 0.45 and pend:
                pid = r.choice(pend)
                c.feed(publish(2, pid, b't', b'again', dup=True))
                c.poll()
            elif x < 0.60 and pend:
                pid = r.choice(pend)
                pend.remove(pid)
                # a PUBREL may carry a reason code (0x92 after the broker saw a stale PUBREC): it is answered all the same
                c.feed(ack(6, pid, r.choice([None, None, None, 0, 0x92])))
                c.poll()
            elif x < 0.66:
                c.feed(ack(6, r.choice(ids), r.choice([None, 0, 0x92])))
                c.poll()
            elif x < 0.78:
                c.feed(publish(1, r.choice(ids), b'q1', b'one', dup=r.random() < 0.2))
                c.poll()
            elif x < 0.84:
                c.feed(publish(0, 0, b'q0', b'zero'))
                c.poll()
            elif x < 0.93:
                c.drop()
                sp = 1 if r.random() < 0.7 else 0
                c.connect(connack(sp, 0, []))
                if not sp:
                    pend = []
            elif x < 0.97:
                c.publish(b'out', b'x', qos=r.choice([0, 1]))
            else:
                c.feed(publish(2, r.choice(ids), b't', b'') + publish(1, r.choice(ids), b'u', b'') + ack(6, r.choice(ids), None))
                c.poll(3)
        c.poll(2)
        if r.random() < 0.3:
            c.ev(*[(0, r.choice([1, 2, 3, 1000])) for _ in range(r.randint(5, 40))])
        out.append(c.line())
    return out


PYGEN['py_c04'] = gen_c04


def gen_c04w(seed, count):
    """an inbound QoS 1 / QoS 2 delivery with a transport fault (write error, Ok(0), dropped future, slow write) at every
    I/O position around it, then a resumed connection on which the broker behaves as it must (sends the unacknowledged
    PUBLISH again with DUP, or its PUBREL): the message is surfaced before anything can acknowledge it (seeded C04-r10
    wrote the acknowledgement first and lost the message when that write failed)."""
    out = []
    kinds = [1, 3, 2, 4]
    for idx in range(count):
        r = random.Random((seed << 20) ^ idx ^ 0x6c04)
        q = 1 + idx % 2
        kind = kinds[(idx // 2) % len(kinds)]
        k = (idx // (2 * len(kinds))) % 14
        pid = r.choice([1, 9, 300, 65535])
        c = Case(rx=r.choice([32, 64]), tx=r.choice([16, 64, 256]), ka=0)
        c.connect(connack(0, 0, []))
        if r.random() < 0.3:
            c.feed(publish(0, 0, b'q0', b'z'))
            c.poll()
        c.feed(publish(q, pid, b't/w', bytes(r.randrange(256) for _ in range(r.randint(0, 6)))))
        c.poll()
        if r.random() < 0.5:
            c.poll()
        c.drop()
        c.connect(connack(1, 0, []))
        c.poll(2)
        if q == 2:
            c.feed(publish(2, pid, b't/w', b'again', dup=True))
            c.poll()
            c.feed(ack(6, pid, None))
            c.poll(2)
        c.ev(*([(0, 1000)] * k + [(kind, r.choice([0, 1, 50]))] + [(0, 1000)] * 40))
        out.append(c.line())
    return out


PYGEN['py_c04w'] = gen_c04w


def gen_c12(seed, count):
    """histories that end badly in every way the property lists, with small and full transmit arenas, followed by a
    connect() over a healthy transport to a conformant broker (broker mode 2) and a little use of the session"""
    out = []
    for idx in range(count):
        r = random.Random((seed << 20) ^ (idx + 611953))
        tx = r.choice([40, 48, 64, 96, 128, 256])
        c = Case(rx=r.choice([32, 64, 128]), tx=tx, ka=r.choice([0, 0, 10]), cid=r.choice([b't', b'client-12']))
        nio = 0
        for _ in range(r.randint(1, 3)):
            kind = r.random()
            if kind < 0.25:
                c.connect(connack(0, r.choice([0x80, 0x87, 0x89, 0x95]), []))          # rejected
            elif kind < 0.40:
                c.connect(bytes(r.randrange(256) for _ in range(r.randint(1, 9))))     # garbled
            elif kind < 0.50:
                c.connect(connack(0, 0, [(33, 0)]))                                    # illegal CONNACK
            elif kind < 0.58:
                c.connect()                                                            # no answer: dropped while waiting
            else:
                sp = 1 if r.random() < 0.5 else 0
                c.connect(connack(sp, 0, r.choice([[], [(33, 2)], [(39, 30)], [(18, b'assigned-by-broker')]])))
                for _ in range(r.randint(0, 9)):
                    x = r.random()
                    if x < 0.5:
                        c.publish(b'a/b', b'p' * r.choice([0, 5, 20, 40, 90]), qos=r.choice([1, 1, 2]))
                    elif x < 0.65:
                        c.subscribe(((b'some/filter/' + bytes([97 + r.randint(0, 9)]), 1),))
                    elif x < 0.75:
                        c.poll()
                    elif x < 0.85:
                        c.feed(publish(2, r.randint(1, 4), b'in', b'q'))
                        c.poll()
                    elif x < 0.9:
                        c.feed(bytes(r.randrange(256) for _ in range(r.randint(1, 6))))
                        c.poll()
                    else:
                        c.disconnect()
            if r.random() < 0.7:
                c.drop()
            else:
                c.hd()
        # faults somewhere in the history
        y = r.random()
        if y < 0.4:
            # tiny writes and the future dropped somewhere: likely in the middle of a queued packet
            n = r.randint(5, 90)
            c.ev(*([(0, r.choice([1, 2]))] * n + [(3, 0)]))
        elif y < 0.8:
            n = r.randint(0, 30)
            c.ev(*([(0, r.choice([1, 3, 1000]))] * n + [(r.choice([1, 2, 3]), 0)]))
        c.drop()
        if r.random() < 0.3:
            # the broker has lost the session: a fresh one, whatever was in flight before
            c.broker(0)
            c.connect(connack(0, 0, r.choice([[], [(33, 1)], [(33, 3)]])))
        else:
            c.broker(2)
            c.connect()
        c.publish(b'after', b'q', qos=1)
        c.poll(2)
        out.append(c.line())
    return out


PYGEN['py_c12'] = gen_c12


def _program_c15(r):
    """a fault-free program with inbound traffic; returns a Case without script"""
    c = Case(rx=r.choice([32, 64, 128]), tx=r.choice([64, 128, 256]), ka=0, downgrade=r.random() < 0.3)
    props = r.choice([[], [(33, r.choice([1, 2, 5]))], [(36, 1)], [(39, r.choice([20, 64]))]])
    c.connect(connack(0, 0, props))
    nextpid = 1
    for _ in range(r.randint(2, 12)):
        x = r.random()
        if x < 0.22:
            c.publish(r.choice([b'a', b'topic/long/er']), bytes(r.randrange(256) for _ in range(r.randint(0, 30))), qos=r.choice([0, 1, 2]),
                      props=r.choice([(), ((1, 1),), ((38, (b'k', b'v')),)]))
        elif x < 0.30:
            c.subscribe(((b'f/' + bytes([97 + r.randint(0, 5)]), r.randint(0, 2)),))
        elif x < 0.34:
            c.unsubscribe((b'f/a',))
        elif x < 0.52:
            q = r.choice([0, 1, 2])
            c.feed(publish(q, r.randint(1, 6), r.choice([b't', 'tö/pic'.encode()]), bytes(r.randrange(256) for _ in range(r.randint(0, 40))),
                           r.choice([(), ((8, b'r/t'), (9, b'c')), ((11, 300),)])))
            c.poll()
        elif x < 0.62:
            c.feed(ack(r.choice([4, 5, 7]), r.randint(1, 4), r.choice([None, 0, 0x10, 0x80])))
            c.poll()
        elif x < 0.68:
            c.feed(ack(6, r.randint(1, 6), None))
            c.poll()
        elif x < 0.74:
            c.feed(suback(r.randint(1, 4), (r.choice([0, 1, 0x80]),), r.choice([9, 11])))
            c.poll()
        elif x < 0.80:
            # several packets back to back in one burst
            burst = [publish(0, 0, b'b1', b'1'), publish(1, 9, b'b2', b'2'), ack(4, 1, None), PINGRESP, PINGRESP,
                     ack(6, 3, None), publish(0, 0, b'', b'')]
            r.shuffle(burst)
            k = r.randint(2, 5)
            c.feed(b''.join(burst[:k]))
            c.poll(k)
        elif x < 0.9:
            c.poll()
        elif x < 0.95:
            c.recv()
        else:
            c.drive()
    c.broker(1)
    c.poll(3)
    return c


def gen_c15(seed, count):
    """pairs: the same program and inbound stream, (A) whole reads and writes, (B) a random fragmentation of every read
    and write (1, 2, 3, 5 bytes or whole)"""
    out = []
    for idx in range(count):
        r = random.Random((seed << 20) ^ (idx + 15485863))
        c = _program_c15(r)
        a = c.line()
        style = r.random()
        if style < 0.3:
            amounts = [1]
        elif style < 0.6:
            amounts = [1, 2, 3]
        else:
            amounts = [1, 2, 3, 5, 1000, 1000]
        c.ev(*[(0, r.choice(amounts)) for _ in range(r.randint(50, 1500))])
        out.append((a, c.line(), {'kind': 'chunking'}))
        if idx % 6 == 0:
            # time passes inside the first write of a queued packet (script kinds 5 / 4: the write takes `d` ms and then
            # accepts everything / one byte): the two runs see the same clock and differ only in how much the transport
            # takes per call, while a PINGREQ falls due in the middle of the packet
            ka = r.choice([1, 2, 3])
            d = r.choice([ka * 500, ka * 500 + 1, ka * 700, ka * 1000, ka * 1000 + 300])
            def prog(kind, frag):
                c = Case(rx=64, tx=r2.choice([64, 128]), ka=ka)
                c.connect(connack(0, 0, []))
                q = r2.choice([1, 1, 2])
                if r2.random() < 0.3:
                    c.subscribe(((b'f/a', 1),))
                else:
                    c.publish(b'data', bytes(r2.randrange(256) for _ in range(r2.randint(0, 20))), qos=q)
                c.publish(b'next', b'x', qos=r2.choice([0, 1]))
                c.drive()
                c.ev(*([(0, 1000)] * 5 + [(kind, d)] + frag))
                return c.line()
            st = r.getrandbits(32)
            r2 = random.Random(st)
            a = prog(5, [])
            r2 = random.Random(st)
            b = prog(4, [(0, r.choice([1, 2, 3])) for _ in range(200)])
            out.append((a, b, {'kind': 'slow first write'}))
        if idx % 97 == 5:
            # a queued packet longer than 64 KiB whose partial writes carry the resume offset across 65535
            size = r.choice([70000, 65600, 66000])
            pay = bytes([idx & 255]) * size
            def big(frag):
                c = Case(rx=64, tx=size + 200, ka=0)
                c.connect(connack(0, 0, []))
                c.publish(b'big', pay, qos=1)
                c.feed(ack(4, 1))
                c.poll()
                c.publish(b'after', b'x', qos=1)
                c.ev(*([(0, 1000000)] * 5 + frag))
                return c.line()
            frag = r.choice([[(0, 66000)], [(0, 65536)], [(0, 30000), (0, 36000)], [(0, 65535), (0, 1)], [(0, 40000), (0, 25536), (0, 3)]])
            out.append((big([]), big(frag), {'kind': 'offset beyond 64 KiB'}))
    return out


PYGEN['py_c15'] = gen_c15


def _program_c13(r):
    """(prefix actions builder) a fault-free program on one connection; ops are recorded so that one can be left out"""
    cfg = dict(rx=r.choice([64, 128]), tx=r.choice([128, 256]), ka=0)
    ops = []
    for _ in range(r.randint(2, 9)):
        x = r.random()
        if x < 0.30:
            q = r.choice([1, 1, 2])
            pl = bytes(r.randrange(256) for _ in range(r.randint(0, 24)))
            ops.append(('publish', (r.choice([b'a', b'top/ic']), pl, q)))
        elif x < 0.42:
            ops.append(('subscribe', (b'f/' + bytes([97 + r.randint(0, 5)]), r.randint(0, 2))))
        elif x < 0.48:
            ops.append(('unsubscribe', (b'f/a',)))
        elif x < 0.62:
            q = r.choice([0, 1, 2])
            ops.append(('feedpoll', publish(q, r.randint(1, 6), b't', bytes(r.randrange(256) for _ in range(r.randint(0, 12))))))
        elif x < 0.72:
            ops.append(('feedpoll', ack(r.choice([4, 5, 7]), r.randint(1, 4), None)))
        elif x < 0.78:
            ops.append(('feedpoll', ack(6, r.randint(1, 6), None)))
        elif x < 0.86:
            ops.append(('poll', None))
        elif x < 0.90:
            ops.append(('recv', None))
        elif x < 0.95:
            ops.append(('drive', None))
        else:
            ops.append(('disconnect', None))
            break
    return cfg, ops


def _build_c13(cfg, ops, skip=None, script=(), retry=None):
    c = Case(**cfg)
    c.connect(connack(0, 0, []))
    index = {}
    for j, (k, v) in enumerate(ops):
        if j == skip:
            c.drive()                         # the request is left out; what its pre-flush would have sent still goes out
            continue
        if retry is not None and retry[0] < len(c.actions):
            c.actions.insert(retry[0] + 1, [retry[1]])
            retry = None
        index[j] = len(c.actions)
        if k == 'publish':
            c.publish(v[0], v[1], qos=v[2])
        elif k == 'subscribe':
            c.subscribe(((v[0], v[1]),))
        elif k == 'unsubscribe':
            c.unsubscribe(v)
        elif k == 'feedpoll':
            c.feed(v)
            index[j] = len(c.actions)
            c.poll()
        elif k == 'poll':
            c.poll()
        elif k == 'recv':
            c.recv()
        elif k == 'drive':
            c.drive()
        elif k == 'disconnect':
            c.disconnect()
    if retry is not None and retry[0] < len(c.actions):
        c.actions.insert(retry[0] + 1, [retry[1]])
        retry = None
    c.broker(1)
    c.poll(8)
    if retry is not None:
        c.actions.insert(retry[0] + 1, [retry[1]])
    c.ev(*script)
    return c, index


def gen_c13(seed, count):
    """pairs (cancelled run, uncancelled twin).  The cancelled run drops the future that is running at a chosen I/O
    call (after `k` calls that accept `chunk` bytes each); the twin is the same program without the drop — or, when
    the dropped request had not been enqueued yet, the program without that request.  The generator runs the
    implementation once to learn which of the two applies (the check then runs both members on both sides)."""
    import common as C
    from trace import parse_trace, list_field
    cands = []
    for idx in range(count):
        r = random.Random((seed << 20) ^ (idx + 32452843))
        cfg, ops = _program_c13(r)
        base, _ = _build_c13(cfg, ops)
        cands.append((r, cfg, ops, base.line()))
    outs = C.run_impl([x[3] for x in cands])
    stage2 = []
    for (r, cfg, ops, line), o in zip(cands, outs):
        body = o.split('|#12')[0]
        if '= cancelled' in body or '= err' in body:
            continue                          # the program itself blocks for ever somewhere (the runner gives up) or fails
        n = sum(1 for part in o.split('|') if part[:2] in ('w ', 'r ', 'f '))
        k = r.randint(5, max(6, n))           # after the CONNECT handshake (5 calls with a whole write)
        chunk = r.choice([1000, 1000, 1, 2, 3])
        script = [(0, chunk)] * k + [(3, 0)]
        a, index = _build_c13(cfg, ops, None, script)
        stage2.append((r, cfg, ops, a.line(), index, script, chunk))
    outs = C.run_impl([x[3] for x in stage2])
    pairs = []
    for (r, cfg, ops, aline, index, script, chunk), o in zip(stage2, outs):
        acts = parse_trace(o)
        j = next((i for i, a in enumerate(acts) if a.result == 'cancelled'), None)
        if j is None:
            continue
        a = acts[j]
        meta = {'cancelled_action': j, 'code': a.code, 'detail': a.detail, 'chunk': chunk}
        if a.code == 0 or (a.code == 1 and a.detail == '0'):
            continue                          # connect() and QoS 0 publish are not cancel-safe
        opj = next((q for q, ai in index.items() if ai == j), None)
        skip = None
        if a.code in (1, 2, 3, 4) and opj is not None:
            before = acts[j - 1].state or {}
            after = a.state or {}
            enq = len(list_field(after.get('ret', '[]'))) > len(list_field(before.get('ret', '[]')))
            wrote_own = False
            if a.code == 4:
                # disconnect: enqueued = some of its bytes were accepted
                enq = any(e[0] == 'w' and e[2] for e in a.events)
            if not enq:
                skip = opj
            meta['enqueued'] = enq
        # "continuing to drive the connection": the dropped poll/recv/drive is called again, a dropped request is
        # followed by drive() — inserted right behind the cancelled action, before the rest of the program
        again = a.code if a.code in (5, 6, 7) else 5
        a2, _ = _build_c13(cfg, ops, None, script, retry=(j, again))
        # the twin accepts `chunk` bytes per call for the same number of calls, then everything
        b, _ = _build_c13(cfg, ops, skip, [(0, chunk)] * (len(script) - 1))
        pairs.append((a2.line(), b.line(), meta))
    return pairs


PYGEN['py_c13'] = gen_c13


def gen_edges(seed, count):
    """Paths of the implementation that bin/coverage showed the other generators never reach: a framed but
    undecodable CONNACK (or a different packet) answering CONNECT; a CONNACK arriving on a live connection; a broker
    Maximum Packet Size of 1..8 bytes meeting PINGREQ, PUBACK / PUBREC / PUBCOMP and PUBREL (also after a resumed
    CONNACK that shrinks the limit); operations on the handle afterwards; a reconnect at the end."""
    out = []
    bad_connacks = [bytes([0x20, 1, 0]), bytes([0x20, 2, 2, 0]), bytes([0x20, 3, 0, 0, 5]), bytes([0x20, 4, 0, 0, 1, 0x7f]),
                    bytes([0x20, 0]), bytes([0x90, 3, 0, 1, 0]), bytes([0xD0, 0]), bytes([0x40, 2, 0, 1]),
                    bytes([0x20, 5, 0, 0, 2, 36, 3]), bytes([0x20, 6, 0, 0, 3, 33, 0, 0]), bytes([0x21, 3, 0, 0, 0]),
                    bytes([0x20, 3, 1, 0x80, 0]), bytes([0x20, 8, 0, 0, 5, 39, 0, 0, 0, 0])]

    def tail(c, r):
        for _ in range(r.randint(0, 3)):
            x = r.random()
            if x < 0.3:
                c.publish(b'a', b'p', qos=r.choice([0, 1, 2]))
            elif x < 0.5:
                c.poll()
            elif x < 0.6:
                c.drive()
            elif x < 0.7:
                c.subscribe()
            elif x < 0.8:
                c.disconnect()
            else:
                c.hd()
        if r.random() < 0.7:
            c.connect(connack(r.choice([0, 1])))
            c.publish(b'a', b'q', qos=r.choice([0, 1]))
            c.poll()

    for idx in range(count):
        r = random.Random((seed << 20) ^ idx ^ 0xED6E5)
        kind = idx % 4
        c = Case(rx=r.choice([32, 64]), tx=r.choice([64, 128, 256]),
                 ka=r.choice([1, 2, 3]) if kind == 2 else r.choice([0, 0, 2, 30]))   # kind 2: PINGREQ against the limit
        if kind == 0:
            b = r.choice(bad_connacks)
            if r.random() < 0.3:
                b = bytes(b[:1]) + bytes([r.randint(0, 6)]) + bytes(r.randint(0, 255) for _ in range(r.randint(0, 6)))
            c.connect(b)
            tail(c, r)
        elif kind == 1:
            c.connect(connack(0, 0, [(33, r.choice([1, 2, 8]))] if r.random() < 0.3 else ()))
            if r.random() < 0.6:
                c.publish(b'a', b'p', qos=r.choice([1, 2]))
            c.feed(connack(r.choice([0, 1]), r.choice([0, 0, 0x80])), r.choice([0, 0, 10]))
            (c.poll if r.random() < 0.6 else c.recv)()
            tail(c, r)
        else:
            mps = r.randint(1, 8)
            ck = connack(0, 0, [(39, mps)])
            if kind == 2:
                c.connect(ck)
                for _ in range(r.randint(1, 3)):
                    y = r.random()
                    if y < 0.4:
                        c.feed(publish(r.choice([1, 2]), r.randint(1, 9), b't', b'x'), r.choice([0, 5]))
                    elif y < 0.6:
                        c.feed(ack(6, r.randint(1, 9)), 0)
                    else:
                        c.advance(r.choice([500, 1000, 2000, 3000]))
                    c.poll()
                c.poll()
            else:
                c.connect(connack())
                c.publish(b'a', b'', qos=2)
                if r.random() < 0.5:
                    c.feed(ack(5, 1))
                    c.poll()
                c.drop().hd()
                c.connect(connack(1, 0, [(39, mps)]))
                if r.random() < 0.6:
                    c.feed(ack(5, 1))
                c.poll().poll()
            tail(c, r)
        out.append(c.line())
    return out


PYGEN['py_edges'] = gen_edges


def gen_c08(seed, count):
    """valid inbound traffic with every property a broker may attach: PUBLISH (payload format, expiry, content type,
    response topic, correlation data, one or several subscription identifiers, user properties; all QoS, DUP, RETAIN),
    acknowledgements with and without reason code, reason string and user properties, SUBACK / UNSUBACK with
    property blocks, CONNACK with every server property, DISCONNECT with reason string / server reference."""
    out = []
    words = [b'a', b'topic/x', b'r\xc3\xa9ponse', b'0123456789abcdef', b'']

    def pub_props(r):
        ps = []
        if r.random() < 0.4:
            ps.append((1, r.choice([0, 1])))
        if r.random() < 0.3:
            ps.append((2, r.choice([0, 1, 3600, 2 ** 32 - 1])))
        if r.random() < 0.3:
            ps.append((3, r.choice(words)))
        if r.random() < 0.3:
            ps.append((8, r.choice(words[:4])))
        if r.random() < 0.3:
            ps.append((9, bytes(r.randint(0, 255) for _ in range(r.randint(0, 6)))))
        for _ in range(r.choice([0, 0, 1, 1, 2, 3])):
            ps.append((11, r.choice([1, 5, 127, 128, 300, 16384, 268435455])))
        for _ in range(r.choice([0, 0, 1, 2])):
            ps.append((38, (r.choice(words), r.choice(words))))
        r.shuffle(ps)
        return ps

    def ack_props(r):
        ps = []
        if r.random() < 0.5:
            ps.append((31, r.choice(words)))
        for _ in range(r.choice([0, 1, 2])):
            ps.append((38, (r.choice(words), r.choice(words))))
        return ps

    from casegen import pkt, enc_props
    for idx in range(count):
        r = random.Random((seed << 20) ^ idx ^ 0xC08)
        c = Case(rx=r.choice([64, 128, 256]), tx=r.choice([128, 256]))
        cprops = []
        for pid, vals in ((17, [0, 60]), (33, [1, 8, 65535]), (36, [0, 1]), (37, [0, 1]), (39, [64, 1000, 2 ** 32 - 1]),
                          (18, [b'assigned']), (34, [0, 5]), (31, [b'ok']), (40, [0, 1]), (41, [0, 1]), (42, [0, 1]), (19, [0, 30]),
                          (28, [b'other:1883'])):
            if r.random() < 0.25:
                cprops.append((pid, r.choice(vals)))
        for _ in range(r.choice([0, 0, 1])):
            cprops.append((38, (r.choice(words), r.choice(words))))
        if r.random() < 0.08:
            # a broker-assigned identifier around the client's storage limit of 64 bytes (client id left empty)
            c = Case(rx=256, tx=r.choice([128, 256]), cid=b'')
            cprops = [p_ for p_ in cprops if p_[0] != 18] + [(18, b'i' * r.choice([1, 23, 63, 64, 65, 66, 100, 150]))]
        ck = connack(0, 0, cprops)
        if len(ck) > c.cfg[0]:
            ck = connack()
        c.connect(ck)
        nsub = 0
        for _ in range(r.randint(2, 7)):
            x = r.random()
            if x < 0.45:
                q = r.choice([0, 1, 2])
                payload = r.choice([b'', b'x', b'hello', 'grüß'.encode()])
                ps = pub_props(r)
                b = publish(q, r.randint(1, 9), r.choice(words[:4]), payload, ps, dup=(q > 0 and r.random() < 0.2),
                            retain=r.random() < 0.3)
                if len(b) <= c.cfg[0]:
                    c.feed(b)
                    (c.poll if r.random() < 0.8 else c.recv)()
                    c.poll()
            elif x < 0.6:
                q = r.choice([1, 2])
                c.publish(b'a', b'p', qos=q)
                pid_guess = None
                c.poll()
            elif x < 0.75:
                # acknowledgement for whatever identifier (known or stale), with reason code and properties
                typ = r.choice([4, 5, 7])
                pid = r.randint(1, 4)
                rc = r.choice([None, 0, 0, 0x10, 0x80, 0x97]) if typ != 7 else r.choice([None, 0, 0x92])
                if rc is None or r.random() < 0.5:
                    b = ack(typ, pid, rc)
                else:
                    b = pkt(typ << 4, pid.to_bytes(2, 'big') + bytes([rc]) + enc_props(ack_props(r)))
                c.feed(b).poll()
            elif x < 0.85:
                c.subscribe()
                nsub += 1
                b = pkt(0x90, r.randint(1, 4).to_bytes(2, 'big') + enc_props(ack_props(r)) + bytes([r.choice([0, 1, 2, 0x80, 0x87])]))
                c.feed(b).poll()
            elif x < 0.9:
                c.unsubscribe()
                b = pkt(0xB0, r.randint(1, 4).to_bytes(2, 'big') + enc_props(ack_props(r)) + bytes([r.choice([0, 0x11, 0x80])]))
                c.feed(b).poll()
            elif x < 0.95:
                c.feed(bytes([0x62, 2]) + r.randint(1, 9).to_bytes(2, 'big')).poll()
            else:
                c.feed(PINGRESP).poll()
        if r.random() < 0.3:
            dps = ack_props(r) + ([(28, b'other:1883')] if r.random() < 0.5 else [])
            rc = r.choice([0x00, 0x81, 0x8B, 0x8E, 0x98])
            c.feed(pkt(0xE0, bytes([rc]) + enc_props(dps)) if r.random() < 0.7 else bytes([0xE0, 0])).poll()
        out.append(c.line())
    return out


PYGEN['py_c08'] = gen_c08


def gen_c07(seed, count):
    """identifier allocation around the 16-bit wrap with operations left in flight on both sides of it: the counter is
    placed (hook, only possible while no handle exists) shortly before 65535, a mix of QoS 1 / QoS 2 publishes, subscribes
    and unsubscribes is left unacknowledged across the wrap, some are acknowledged out of order, the connection is dropped,
    the counter is placed on or just before an identifier still in flight, the session is resumed and more operations
    are started; refused requests (payload larger than the arena) consume identifiers in between."""
    out = []
    for idx in range(count):
        r = random.Random((seed << 20) ^ idx ^ 0xC07)
        if idx % 5 == 4:
            # a long run of consecutive identifiers in flight (8 QoS 2 exchanges awaiting PUBCOMP plus unacknowledged
            # SUBSCRIBEs: up to 14), and the counter placed at or just before its beginning
            nx = lambda p: 1 if p == 65535 else p + 1
            start = r.choice([65529, 65530, 65535, 100, 1])
            c = Case(rx=64, tx=1152)
            c.connect(connack(0, 0, [(33, 8)]))
            c.drop()
            c.setpid(start)
            c.connect(connack(1, 0, [(33, 8)]))
            pid = start
            for j in range(8):
                c.publish(b'a', bytes([65 + j]), qos=2)
                c.feed(ack(5, pid)).poll()
                pid = nx(pid)
            for j in range(r.randint(1, 6)):
                c.subscribe(((b't/' + bytes([97 + j]), 0),))
                pid = nx(pid)
            c.drop()
            c.setpid(r.choice([start, start, nx(start), 65535 if start == 1 else start - 1]))
            c.connect(connack(1, 0, [(33, 8)]))
            c.poll()
            c.subscribe(((b'new/one', 0),))
            c.unsubscribe((b'new/two',))
            c.poll()
            out.append(c.line())
            continue
        c = Case(rx=64, tx=r.choice([256, 1152]))
        start = r.choice([65531, 65532, 65533, 65534, 65535, 65535, 1])
        # a fresh session restarts the counter at 1: the hook is applied between the first connection and its resumption
        c.connect(connack(0, 0, [(33, 8)]))
        c.drop()
        c.setpid(start)
        c.connect(connack(1, 0, [(33, 8)]))
        inflight = []
        pid = start

        def nxt(p):
            return 1 if p == 65535 else p + 1

        def op(kind):
            nonlocal pid
            tag = bytes([97 + len(c.actions) % 26, 48 + len(c.actions) % 10])      # every operation has its own bytes
            if kind == 0:
                c.publish(b'a', tag, qos=1)
            elif kind == 1:
                c.publish(b'a', tag, qos=2)
            elif kind == 2:
                c.subscribe(((b't/' + tag, 0),))
            else:
                c.unsubscribe((b't/' + tag,))
            # the reference allocator: the next identifier not in flight
            while pid in [x for x, _ in inflight]:
                pid = nxt(pid)
            inflight.append((pid, kind))
            pid = nxt(pid)

        for _ in range(r.randint(2, 6)):
            if len(inflight) >= 7:
                break
            op(r.choice([0, 0, 1, 2, 3]))
            if r.random() < 0.25 and inflight:
                p, k = inflight.pop(r.randrange(len(inflight)))
                if k == 0:
                    c.feed(ack(4, p)).poll()
                elif k == 1:
                    c.feed(ack(5, p, 0x80)).poll()
                elif k == 2:
                    c.feed(suback(p)).poll()
                else:
                    c.feed(suback(p, (0,), typ=11)).poll()
            if r.random() < 0.15:
                c.publish(b'a', b'x' * 2000, qos=1)      # refused: larger than the arena; consumes an identifier or not
        for _ in range(r.randint(1, 2)):
            c.drop()
            if inflight and r.random() < 0.85:
                tgt = r.choice(inflight)[0]
                pid = r.choice([tgt, tgt, 65535 if tgt == 1 else tgt - 1])
                c.setpid(pid)
            c.connect(connack(1, 0, [(33, 8)]))
            c.poll()
            for _ in range(r.randint(1, 4)):
                if len(inflight) >= 7:
                    break
                op(r.choice([0, 0, 1, 2, 3]))
        c.poll()
        out.append(c.line())
    return out


PYGEN['py_c07'] = gen_c07


def gen_c03(seed, count):
    """QoS 2 exchanges with the send window completely full (8 unresolved publishes, QoS 1 and QoS 2 mixed): PUBRECs
    arrive in any order while nothing else can be sent, some with a failure code, PUBCOMPs for some; the connection is
    lost and resumed in the middle and the remaining acknowledgements arrive afterwards."""
    out = []
    for idx in range(count):
        r = random.Random((seed << 20) ^ idx ^ 0xC03)
        c = Case(rx=64, tx=1152)
        c.connect(connack(0, 0, [(33, r.choice([8, 8, 20, 65535]))]))
        n = r.choice([8, 8, 8, 7, 6])
        kinds = {}
        for pid in range(1, n + 1):
            q = r.choice([2, 2, 2, 1])
            c.publish(b'a', bytes([64 + pid]), qos=q)
            kinds[pid] = q
        order = [p for p in kinds if kinds[p] == 2]
        r.shuffle(order)
        recd = []
        for pid in order[:r.randint(1, max(1, len(order)))]:
            c.feed(ack(5, pid, r.choice([None, None, None, 0, 0x10, 0x80])))
            c.poll()
            recd.append(pid)
        if r.random() < 0.7:
            c.drop()
            c.connect(connack(1, 0, [(33, 8)]))
            c.poll(2)
        for pid in recd[:r.randint(0, len(recd))]:
            c.feed(ack(7, pid))
            c.poll()
        for pid in order:
            if pid not in recd and r.random() < 0.6:
                c.feed(ack(5, pid))
                c.poll()
        c.publish(b'a', b'late', qos=r.choice([1, 2]))
        c.poll(2)
        if r.random() < 0.3:
            c.ev(*([(0, 1000)] * 5 + [(0, r.choice([1, 2, 3, 1000])) for _ in range(r.randint(5, 60))]))
        out.append(c.line())
    return out


PYGEN['py_c03'] = gen_c03


def gen_hist(seed, count):
    """the histories of History.v: a healthy connection without keep-alive to the answering broker, then any number
    of acknowledged operations in any order, each followed by its poll() (two for QoS 2).  C16_history_completes
    says what must happen; mon_hist checks exactly that on the implementation."""
    out = []
    for idx in range(count):
        r = random.Random((seed << 20) ^ idx ^ 0x4157)
        c = Case(rx=r.choice([16, 32, 64, 128]), tx=r.choice([64, 128, 256, 1152]), ka=0, cid=r.choice([b't', b'client-h']))
        c.broker(2)
        c.connect()
        c.broker(1)
        for j in range(r.randint(1, 40 if idx % 7 == 0 else 12)):
            x = r.random()
            tag = bytes([97 + j % 26])
            if x < 0.35:
                c.publish(r.choice([b'a', b't/1', 'caf\u00e9'.encode()]) , bytes(r.randrange(256) for _ in range(r.choice([0, 1, 5, 20, 20, 100, 300]))), qos=1,
                          props=r.choice([(), (), ((1, 1),), ((38, (b'k', b'v')),)]))
                c.poll()
            elif x < 0.65:
                c.publish(b'q2/' + tag, bytes(r.randrange(256) for _ in range(r.choice([0, 3, 12]))), qos=2, retain=r.random() < 0.2)
                c.poll(2)
            elif x < 0.85:
                c.subscribe(tuple((b'f/' + tag + bytes([48 + k]), r.randint(0, 2)) for k in range(r.randint(1, 3))))
                c.poll()
            else:
                c.unsubscribe(tuple(b'f/' + tag + bytes([48 + k]) for k in range(r.randint(1, 2))))
                c.poll()
        out.append(c.line())
    return out


PYGEN['py_hist'] = gen_hist


def gen_mixed(seed, count):
    """the histories of Mixed.v: those of History.v with inbound QoS 0 messages arriving in between (one whole PUBLISH fed
    while the connection is idle, then one poll()).  C16_mixed_history_completes says what must happen - every request
    completes, every message is returned by its poll() as sent, nothing else is written; mon_hist checks it."""
    out = []
    for idx in range(count):
        r = random.Random((seed << 20) ^ idx ^ 0x3d17)
        rx = r.choice([16, 32, 64, 128])
        c = Case(rx=rx, tx=r.choice([64, 128, 256, 1152]), ka=0, cid=r.choice([b't', b'client-m']))
        c.broker(2)
        c.connect()
        c.broker(1)
        for j in range(r.randint(2, 40 if idx % 5 == 0 else 14)):
            x = r.random()
            tag = bytes([97 + j % 26])
            if x < 0.45:
                topic = r.choice([b'm', b'm/' + tag, 'm\u00e9'.encode()])
                props = r.choice([(), (), ((1, 1),), ((38, (b'k', b'v')),)]) if rx >= 32 else ()
                room = rx - (2 + 2 + len(topic) + len(enc_props(props)))
                payload = bytes(r.randrange(256) for _ in range(r.choice([0, 1, 3, max(0, room)])))[:max(0, room)]
                c.feed(publish(0, 0, topic, payload, props=props, retain=r.random() < 0.2))
                c.poll()
            elif x < 0.65:
                c.publish(r.choice([b'a', b't/1']), bytes(r.randrange(256) for _ in range(r.choice([0, 1, 5, 20]))), qos=1)
                c.poll()
            elif x < 0.8:
                c.publish(b'q2/' + tag, bytes(r.randrange(256) for _ in range(r.choice([0, 3, 12]))), qos=2)
                c.poll(2)
            elif x < 0.92:
                c.subscribe(tuple((b'f/' + tag + bytes([48 + k]), r.randint(0, 2)) for k in range(r.randint(1, 2))))
                c.poll()
            else:
                c.unsubscribe((b'f/' + tag,))
                c.poll()
        out.append(c.line())
    return out


PYGEN['py_mixed'] = gen_mixed


def gen_c14(seed, count):
    """tiny broker limits (Maximum Packet Size 2..20) against every kind of client packet at its smallest sizes: the three
    shapes of DISCONNECT (2, 4 bytes, with properties), acknowledgements owed for inbound publishes, PINGREQ, minimal
    publishes / subscribes / unsubscribes, PUBREL after PUBREC"""
    out = []
    for idx in range(count):
        r = random.Random((seed << 20) ^ idx ^ 0xC14)
        m = r.choice([2, 2, 3, 3, 4, 5, 6, 8, 12, 20])
        c = Case(rx=64, tx=256, ka=r.choice([0, 0, 1]))
        c.connect(connack(0, 0, [(39, m)]))
        for _ in range(r.randint(1, 4)):
            x = r.random()
            if x < 0.2:
                c.publish(r.choice([b'a', b'ab', b'abcdef']), b'x' * r.choice([0, 1, 2, 5, 12]), qos=r.choice([0, 1, 2]))
            elif x < 0.3:
                c.subscribe(((r.choice([b'a', b'abcd']), 0),))
            elif x < 0.4:
                c.unsubscribe((r.choice([b'a', b'abcd']),))
            elif x < 0.55:
                c.feed(publish(r.choice([1, 2]), r.randint(1, 3), b't', b'p'))
                c.poll()
            elif x < 0.65:
                c.feed(ack(6, r.randint(1, 3)))
                c.poll()
            elif x < 0.75:
                c.advance(1000)
                c.poll()
            elif x < 0.85:
                c.publish(b'a', b'', qos=2)
                c.feed(ack(5, 1))
                c.poll()
            else:
                c.poll()
        y = r.random()
        if y < 0.25:
            c.disconnect()
        elif y < 0.6:
            c.disconnect(reason=r.choice([0, 4, 0x80, 0x98]))
        elif y < 0.8:
            c.disconnect(reason=r.choice([0, 4]), props=r.choice([[], [(31, b'bye')], [(38, (b'k', b'v'))]]))
        c.poll()
        out.append(c.line())
    return out


PYGEN['py_c14'] = gen_c14


def gen_c16f(seed, count):
    """a future dropped inside flush(): the packet is written whole, its flush is still owed (state F).  Then the connection
    is driven on - drive(), poll() with something to read, another request - which must flush it first."""
    out = []
    for idx in range(count):
        r = random.Random((seed << 20) ^ idx ^ 0xC16F)
        c = Case(rx=64, tx=256, ka=0)
        c.connect(connack(0, 0, []))
        script = [(0, 1000)] * 5
        kind = r.choice(['pub1', 'pub2', 'sub', 'unsub', 'ack'])
        pre = r.randint(0, 2)
        for j in range(pre):
            c.publish(b'pre', bytes([48 + j]), qos=1)
            script += [(0, 1000), (0, 1000)]
        if kind == 'pub1':
            c.publish(b'a', b'payload', qos=1)
        elif kind == 'pub2':
            c.publish(b'a', b'payload', qos=2)
        elif kind == 'sub':
            c.subscribe(((b'f/a', 1),))
        elif kind == 'unsub':
            c.unsubscribe((b'f/a',))
        else:
            c.feed(publish(1, 9, b't', b'in'))
            c.poll()
            script += [(0, 1000)] * 4          # the four reads of the inbound PUBLISH (header, length, body in pieces)
            c.drive()
        script += [(0, r.choice([1000, 1000, 3])) for _ in range(r.choice([1, 1, 4]))] if False else [(0, 1000)]
        script += [(3, 0)]                      # the flush is dropped
        follow = r.choice(['drive', 'drive', 'feedpoll', 'publish'])
        if follow == 'drive':
            c.drive()
        elif follow == 'feedpoll':
            c.feed(publish(0, 0, b'q0', b'm'))
            c.poll()
        else:
            c.publish(b'next', b'n', qos=r.choice([0, 1]))
        c.drive()
        c.broker(1)
        c.ev(*script)
        out.append(c.line())
    return out


PYGEN['py_c16f'] = gen_c16f


def gen_c05r(seed, count):
    """a connection that ends while a queued packet is strictly in progress - some of its bytes accepted, or all of them
    with the flush outstanding - by a transport fault, a dropped future with the handle dropped, or a broker DISCONNECT;
    then the session is resumed (or, sometimes, replaced by a fresh one) and driven on"""
    out = []
    for idx in range(count):
        r = random.Random((seed << 20) ^ idx ^ 0xC05A)
        c = Case(rx=64, tx=256, ka=0, cid=r.choice([b't', b'client-5']))
        c.connect(connack(0, 0, []))
        script = [(0, 1000)] * 5
        for j in range(r.randint(0, 2)):
            c.publish(b'pre', bytes([48 + j]), qos=r.choice([1, 2]))
            script += [(0, 1000), (0, 1000)]
        kind = r.choice(['pub1', 'pub2', 'sub', 'unsub'])
        if kind == 'pub1':
            c.publish(b'topic/a', b'payload-1', qos=1)
        elif kind == 'pub2':
            c.publish(b'topic/a', b'payload-2', qos=2)
        elif kind == 'sub':
            c.subscribe(((b'filter/a', 1),))
        else:
            c.unsubscribe((b'filter/a',))
        how = r.random()
        k = r.choice([1, 2, 3, 5, 9])
        if how < 0.35:
            script += [(0, k), (1, 0)]                 # k bytes, then the write fails
        elif how < 0.6:
            script += [(0, k), (3, 0)]                 # k bytes, then the future is dropped
        elif how < 0.8:
            script += [(0, 1000), (1, 0)]              # written whole, the flush fails
        else:
            script += [(0, 1000), (3, 0)]              # written whole, the flush is dropped
        c.drop()
        sp = 1 if r.random() < 0.8 else 0
        c.connect(connack(sp, 0, []))
        script += [(0, 1000)] * 5
        c.drive()
        if r.random() < 0.5:
            c.publish(b'new', b'n', qos=1)
        c.drive()
        if r.random() < 0.3:
            c.drop()
            c.connect(connack(1, 0, []))
            c.drive()
        c.ev(*script)
        out.append(c.line())
    return out


PYGEN['py_c05r'] = gen_c05r


def gen_c12p(seed, count):
    """a connection abandoned in the middle of an INBOUND packet: some bytes of a packet (of the CONNACK itself, or of a
    later packet) have been read, nothing more arrives, the future is dropped at the read and the handle dropped -
    no error, no DISCONNECT.  Then connect() over a healthy transport to the conformant broker and a little use."""
    out = []
    for idx in range(count):
        r = random.Random((seed << 20) ^ idx ^ 0xC12B)
        c = Case(rx=r.choice([32, 64, 128]), tx=r.choice([128, 256]), ka=0)
        if r.random() < 0.3:
            ck = connack(0, 0, r.choice([[], [(33, 5)], [(18, b'assigned')]]))
            c.connect(ck[:r.randint(1, len(ck) - 1)])            # the CONNACK never completes: connect() is dropped
        else:
            c.connect(connack(0, 0, []))
            for j in range(r.randint(0, 2)):
                c.publish(b'a', bytes([48 + j]), qos=r.choice([0, 1]))
            pkt = r.choice([publish(1, 7, b'topic/in', b'0123456789'), publish(0, 0, b't', b'xy'), ack(4, 1), suback(1),
                            publish(2, 9, b'q2', b'abcdefghijklmnop', ((38, (b'k', b'v')),))])
            c.feed(pkt[:r.randint(1, len(pkt) - 1)])
            r.choice([c.poll, c.recv])()                          # reads the fragment, then waits for ever: dropped
        c.drop()
        c.broker(2)
        c.connect()
        c.broker(r.choice([0, 1]))
        c.feed(publish(0, 0, b'hello', b'world'))
        c.poll()
        c.publish(b'after', b'p', qos=1)
        c.drive()
        out.append(c.line())
    return out


PYGEN['py_c12p'] = gen_c12p


def gen_c12u(seed, count):
    """usability after reconnecting to a fresh broker session, over histories that lose large retained packets one or
    more times: a probe publish that an empty session accepts, then rounds of [big unacknowledged QoS 1/2 publishes, the
    connection ends, CONNECT answered with session present = 0], then the same probe again."""
    out = []
    for idx in range(count):
        r = random.Random((seed << 20) ^ idx ^ 0xc12f)
        tx = r.choice([96, 128, 256, 1152])
        c = Case(rx=64, tx=tx, ka=0, cid=r.choice([b't', b'u12']))
        props = r.choice([[], [], [(0x21, 4)], [(0x27, 4096)]])
        c.connect(connack(0, 0, props))
        probe_q = r.choice([0, 1, 1, 2])
        probe = bytes(r.randrange(256) for _ in range(max(1, tx - r.choice([40, 48, 64, tx // 2]))))
        c.publish(b'p', probe, qos=probe_q)
        if probe_q == 1:
            c.feed(ack(4, 1)); c.poll()
        elif probe_q == 2:
            c.feed(ack(5, 1)); c.poll(); c.feed(ack(7, 1)); c.poll()
        for _ in range(r.randint(1, 4)):
            for k in range(r.randint(1, 3)):
                c.publish(b'big', bytes([65 + k]) * max(1, (tx * r.choice([20, 30, 45])) // 100), qos=r.choice([1, 1, 2]))
            x = r.random()
            if x < 0.5:
                c.drop()
            elif x < 0.8:
                c.feed(bytes([0xE0, 0])); c.poll()
            else:
                c.hd()
            c.connect(connack(0, 0, props))
        c.publish(b'p', probe, qos=probe_q)
        c.poll()
        if r.random() < 0.5:
            c.publish(b'p', probe, qos=0)
        out.append(c.line())
    return out


PYGEN['py_c12u'] = gen_c12u


def gen_c15s(seed, count):
    """C15 inbound, pieces separated in TIME: a well-formed stream of PUBLISH packets is cut at every offset into two or
    three pieces; between the pieces the read that is waiting is dropped - by the application (a poll() that gives up) or
    by the client itself (the keep-alive deadline fires inside the wait) - and the rest arrives later.  What was read
    before the drop must not be lost (seeded C15-r10 kept read progress in the dropped future)."""
    out = []
    for idx in range(count):
        r = random.Random((seed << 20) ^ (idx // 40) ^ 0xc15f)
        pkts = []
        ids = r.sample([1, 2, 7, 9, 300, 65535], 3)
        for k in range(r.randint(2, 3)):
            q = r.choice([0, 1, 1, 2])
            pkts.append(publish(q, ids[k] if q else 0, r.choice([b't', b't/a', 'caf\u00e9'.encode()]),
                                bytes(r.randrange(256) for _ in range(r.choice([0, 1, 4, 9, 20]))),
                                props=r.choice([(), (), ((1, 1),), ((38, (b'k', b'v')),)])))
        stream = b''.join(pkts)
        k1 = (idx % 40) * max(1, len(stream) // 40) + 1
        k1 = min(k1, len(stream) - 1)
        k2 = min(len(stream), k1 + r.choice([1, 2, 5, len(stream)]))
        mode = (idx // 40) % 2
        if mode == 0:
            c = Case(rx=64, tx=256, ka=0)
            c.connect(connack(0, 0, []))
            c.feed(stream[:k1]); c.poll()
            if r.random() < 0.4:
                c.poll()
            c.feed(stream[k1:k2]); c.poll()
            c.feed(stream[k2:]); c.poll(len(pkts) + 2)
        else:
            ka = r.choice([2, 3, 10])
            c = Case(rx=64, tx=256, ka=ka)
            c.connect(connack(0, 0, []))
            c.feed(stream[:k1])
            c.feed(stream[k1:] + PINGRESP, delay=ka * 1000 + r.choice([1, 400, 900]))
            c.poll(len(pkts) + 3)
        out.append(c.line())
    return out


PYGEN['py_c15s'] = gen_c15s


def gen_c11d(seed, count):
    """faults inside disconnect(): its DISCONNECT is written straight to the transport, so a write that fails, returns
    Ok(0) or is cut short (and a flush that fails) must still leave the handle dead; afterwards every kind of call is made"""
    out = []
    for idx in range(count):
        r = random.Random((seed << 20) ^ idx ^ 0xC11D)
        c = Case(rx=64, tx=256, ka=0)
        c.connect(connack(0, 0, []))
        script = [(0, 1000)] * 5
        for j in range(r.randint(0, 2)):
            c.publish(b'a', bytes([48 + j]), qos=r.choice([0, 1]))
            script += [(0, 1000), (0, 1000)]
        if r.random() < 0.5:
            c.disconnect()
        else:
            c.disconnect(reason=r.choice([0, 4, 0x80]))
        script += r.choice([[(2, 0)], [(1, 0)], [(0, 1), (2, 0)], [(0, 1), (1, 0)], [(0, 1000), (1, 0)], [(0, 1), (0, 1), (2, 0)]])
        for _ in range(r.randint(1, 4)):
            x = r.random()
            if x < 0.25:
                c.publish(b'b', b'x', qos=r.choice([0, 1]))
            elif x < 0.45:
                c.poll()
            elif x < 0.6:
                c.drive()
            elif x < 0.75:
                c.subscribe(((b'f', 0),))
            elif x < 0.9:
                c.disconnect()
            else:
                c.unsubscribe((b'f',))
        c.ev(*script)
        out.append(c.line())
    return out


PYGEN['py_c11d'] = gen_c11d


def gen_c06(seed, count):
    """flow control against a small Receive Maximum: the window is filled with QoS 1 / QoS 2 publishes, subscribes and
    unsubscribes are acknowledged in between (their acknowledgements must not open the window), publish
    acknowledgements arrive in any order and only partly, more publishes are attempted at every point, the connection
    is resumed with the same or a different Receive Maximum."""
    out = []
    for idx in range(count):
        r = random.Random((seed << 20) ^ idx ^ 0xC06)
        if idx % 6 == 5:
            # a broker window larger than what the client can track (Receive Maximum 9.. or absent): eight QoS 2 exchanges
            # parked between PUBREC and PUBCOMP, then more publishes, whose PUBRECs must still find a release slot
            c = Case(rx=64, tx=1152)
            c.connect(connack(0, 0, r.choice([[], [(33, 9)], [(33, 20)], [(33, 65535)]])))
            n = r.choice([8, 8, 7])
            for pid in range(1, n + 1):
                c.publish(b'a', bytes([64 + pid]), qos=2)
                c.feed(ack(5, pid)).poll()
            for k in range(r.randint(1, 3)):
                c.publish(b'more', bytes([48 + k]), qos=r.choice([2, 2, 1]))
                c.feed(ack(5, n + 1 + k)).poll()
            for pid in r.sample(range(1, n + 1), r.randint(0, 3)):
                c.feed(ack(7, pid)).poll()
            c.publish(b'last', b'z', qos=2)
            c.poll()
            out.append(c.line())
            continue
        rm = r.choice([1, 1, 2, 2, 3, 8])
        c = Case(rx=64, tx=r.choice([256, 1152]))
        c.connect(connack(0, 0, [(33, rm)]))
        pid = 1
        pubs = {}        # id -> qos, phase
        others = {}      # id -> 2 subscribe / 3 unsubscribe
        for _ in range(r.randint(4, 12)):
            x = r.random()
            if x < 0.45:
                q = r.choice([1, 1, 2])
                c.publish(b'a', bytes([65 + pid % 26]), qos=q)
                if len([1 for v in pubs.values()]) < rm and len(pubs) + len(others) < 8:
                    pubs[pid] = [q, 'pub']
                    pid += 1
            elif x < 0.6 and len(pubs) + len(others) < 7:
                kind = r.choice([2, 3])
                (c.subscribe if kind == 2 else c.unsubscribe)()
                others[pid] = kind
                pid += 1
            elif x < 0.75 and others:
                p = r.choice(list(others))
                k = others.pop(p)
                c.feed(suback(p, (0,), typ=9 if k == 2 else 11)).poll()
            elif x < 0.92 and pubs:
                p = r.choice(list(pubs))
                q, ph = pubs[p]
                if q == 1:
                    c.feed(ack(4, p)).poll()
                    del pubs[p]
                elif ph == 'pub':
                    # 0x10 (no matching subscribers) is a SUCCESS: the exchange goes on, its slot stays taken
                    rc = r.choice([None, None, 0x10, 0x80, 0x97])
                    c.feed(ack(5, p, rc)).poll()
                    if rc and rc >= 0x80:
                        del pubs[p]
                    else:
                        pubs[p][1] = 'rel'
                else:
                    c.feed(ack(7, p)).poll()
                    del pubs[p]
            else:
                c.drop()
                rm = r.choice([rm, rm, 1, 2, 8])
                c.connect(connack(1, 0, [(33, rm)]))
                c.poll()
        c.poll()
        out.append(c.line())
    return out


PYGEN['py_c06'] = gen_c06
