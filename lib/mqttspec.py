"""MQTT 5.0 client->server packet parser written from the OASIS text (independent of minimq and of the
Coq model): the oracle the trace monitors use for "well-formed", "what the broker decodes"."""

# property id -> (value shape, packets allowed in)   shapes: b byte, 2 u16, 4 u32, v varint, s utf8, d binary, p pair
PROPS = {
    0x01: ('b', {'PUBLISH', 'WILL'}), 0x02: ('4', {'PUBLISH', 'WILL'}), 0x03: ('s', {'PUBLISH', 'WILL'}),
    0x08: ('s', {'PUBLISH', 'WILL'}), 0x09: ('d', {'PUBLISH', 'WILL'}), 0x0B: ('v', {'PUBLISH', 'SUBSCRIBE'}),
    0x11: ('4', {'CONNECT', 'CONNACK', 'DISCONNECT'}), 0x12: ('s', {'CONNACK'}), 0x13: ('2', {'CONNACK'}),
    0x15: ('s', {'CONNECT', 'CONNACK', 'AUTH'}), 0x16: ('d', {'CONNECT', 'CONNACK', 'AUTH'}),
    0x17: ('b', {'CONNECT'}), 0x18: ('4', {'WILL'}), 0x19: ('b', {'CONNECT'}), 0x1A: ('s', {'CONNACK'}),
    0x1C: ('s', {'CONNACK', 'DISCONNECT'}),
    0x1F: ('s', {'CONNACK', 'PUBACK', 'PUBREC', 'PUBREL', 'PUBCOMP', 'SUBACK', 'UNSUBACK', 'DISCONNECT', 'AUTH'}),
    0x21: ('2', {'CONNECT', 'CONNACK'}), 0x22: ('2', {'CONNECT', 'CONNACK'}), 0x23: ('2', {'PUBLISH'}),
    0x24: ('b', {'CONNACK'}), 0x25: ('b', {'CONNACK'}),
    0x26: ('p', {'CONNECT', 'CONNACK', 'PUBLISH', 'WILL', 'PUBACK', 'PUBREC', 'PUBREL', 'PUBCOMP', 'SUBSCRIBE',
                 'SUBACK', 'UNSUBSCRIBE', 'UNSUBACK', 'DISCONNECT', 'AUTH'}),
    0x27: ('4', {'CONNECT', 'CONNACK'}), 0x28: ('b', {'CONNACK'}), 0x29: ('b', {'CONNACK'}), 0x2A: ('b', {'CONNACK'}),
}


class Malformed(Exception):
    pass


def varint(b, i):
    """canonical variable byte integer at b[i:]; returns (value, next index); raises Malformed / IndexError(short)"""
    value = 0
    for k in range(4):
        if i + k >= len(b):
            raise IndexError
        byte = b[i + k]
        value |= (byte & 0x7F) << (7 * k)
        if byte & 0x80 == 0:
            if k > 0 and byte == 0:
                raise Malformed('non-canonical variable byte integer')
            return value, i + k + 1
    raise Malformed('variable byte integer longer than 4 bytes')


class Cur:
    def __init__(self, b):
        self.b = b
        self.i = 0

    def take(self, n):
        if self.i + n > len(self.b):
            raise Malformed('field runs past the packet')
        v = self.b[self.i:self.i + n]
        self.i += n
        return bytes(v)

    def u8(self):
        return self.take(1)[0]

    def u16(self):
        v = self.take(2)
        return (v[0] << 8) | v[1]

    def u32(self):
        v = self.take(4)
        return int.from_bytes(v, 'big')

    def var(self):
        try:
            v, j = varint(self.b, self.i)
        except IndexError:
            raise Malformed('variable byte integer runs past the packet')
        self.i = j
        return v

    def utf8(self):
        d = self.take(self.u16())
        try:
            s = d.decode('utf-8')
        except UnicodeDecodeError:
            raise Malformed('invalid UTF-8')
        if '\x00' in s:
            raise Malformed('U+0000 in string')
        return d

    def binary(self):
        return self.take(self.u16())

    def rest(self):
        v = self.b[self.i:]
        self.i = len(self.b)
        return bytes(v)

    def done(self):
        return self.i >= len(self.b)


def properties(c, where):
    n = c.var()
    block = Cur(c.take(n))
    out = []
    seen = set()
    while not block.done():
        pid = block.var()
        if pid not in PROPS:
            raise Malformed('unknown property 0x%02x' % pid)
        shape, allowed = PROPS[pid]
        if where not in allowed:
            raise Malformed('property 0x%02x is not allowed in %s' % (pid, where))
        if pid != 0x26 and pid in seen:
            raise Malformed('property 0x%02x appears twice' % pid)
        seen.add(pid)
        if shape == 'b':
            v = block.u8()
        elif shape == '2':
            v = block.u16()
        elif shape == '4':
            v = block.u32()
        elif shape == 'v':
            v = block.var()
        elif shape == 's':
            v = block.utf8()
        elif shape == 'd':
            v = block.binary()
        else:
            v = (block.utf8(), block.utf8())
        if pid in (0x01, 0x17, 0x19) and v > 1:
            raise Malformed('flag property 0x%02x has value %d' % (pid, v))
        if pid == 0x23 and v == 0:
            raise Malformed('Topic Alias 0')
        if pid == 0x0B and v == 0:
            raise Malformed('Subscription Identifier 0')
        if pid == 0x21 and v == 0:
            raise Malformed('Receive Maximum 0')
        if pid == 0x27 and v == 0:
            raise Malformed('Maximum Packet Size 0')
        out.append((pid, v))
    return out


NAMES = {1: 'CONNECT', 3: 'PUBLISH', 4: 'PUBACK', 5: 'PUBREC', 6: 'PUBREL', 7: 'PUBCOMP', 8: 'SUBSCRIBE',
         10: 'UNSUBSCRIBE', 12: 'PINGREQ', 14: 'DISCONNECT', 15: 'AUTH'}


def parse_packet(first, body, strict_flags=True):
    """one complete client packet -> dict; raises Malformed"""
    typ, flags = first >> 4, first & 15
    if typ not in NAMES:
        raise Malformed('packet type %d is not a client packet' % typ)
    name = NAMES[typ]
    p = {'type': name, 'flags': flags, 'first': first}
    c = Cur(body)
    if name == 'PUBLISH':
        qos = (flags >> 1) & 3
        if qos == 3:
            raise Malformed('QoS 3')
        if qos == 0 and flags & 8:
            raise Malformed('DUP set on QoS 0')
        p.update(qos=qos, dup=bool(flags & 8), retain=bool(flags & 1))
        p['topic'] = c.utf8()
        if qos:
            p['pid'] = c.u16()
            if p['pid'] == 0:
                raise Malformed('packet identifier 0')
        p['props'] = properties(c, 'PUBLISH')
        if any(k == 0x0B for k, _ in p['props']):
            raise Malformed('Subscription Identifier in a client PUBLISH')
        if len(p['topic']) == 0 and not any(k == 0x23 for k, _ in p['props']):
            raise Malformed('empty topic without alias')
        p['payload'] = c.rest()
        return p
    want = {'PUBREL': 2, 'SUBSCRIBE': 2, 'UNSUBSCRIBE': 2}.get(name, 0)
    if flags != want and strict_flags:
        raise Malformed('%s with flags %d' % (name, flags))
    if name == 'CONNECT':
        if c.utf8() != b'MQTT':
            raise Malformed('protocol name')
        if c.u8() != 5:
            raise Malformed('protocol version')
        cf = c.u8()
        if cf & 1:
            raise Malformed('reserved connect flag')
        p['clean_start'] = bool(cf & 2)
        will = bool(cf & 4)
        wq = (cf >> 3) & 3
        if wq == 3 or (not will and (wq or cf & 32)):
            raise Malformed('will flags')
        p['keepalive'] = c.u16()
        p['props'] = properties(c, 'CONNECT')
        p['client_id'] = c.utf8()
        if will:
            p['will'] = {'qos': wq, 'retain': bool(cf & 32), 'props': properties(c, 'WILL'), 'topic': c.utf8(),
                         'payload': c.binary()}
        if cf & 128:
            p['user'] = c.utf8()
        if cf & 64:
            p['password'] = c.binary()
    elif name in ('PUBACK', 'PUBREC', 'PUBREL', 'PUBCOMP'):
        p['pid'] = c.u16()
        if p['pid'] == 0:
            raise Malformed('packet identifier 0')
        p['reason'] = 0
        if not c.done():
            p['reason'] = c.u8()
            if not c.done():
                p['props'] = properties(c, name)
    elif name == 'SUBSCRIBE':
        p['pid'] = c.u16()
        if p['pid'] == 0:
            raise Malformed('packet identifier 0')
        p['props'] = properties(c, 'SUBSCRIBE')
        p['topics'] = []
        while not c.done():
            t = c.utf8()
            o = c.u8()
            if o & 0xC0 or (o & 3) == 3 or ((o >> 4) & 3) == 3:
                raise Malformed('subscription options 0x%02x' % o)
            p['topics'].append((t, o))
        if not p['topics']:
            raise Malformed('SUBSCRIBE without topic filter')
    elif name == 'UNSUBSCRIBE':
        p['pid'] = c.u16()
        if p['pid'] == 0:
            raise Malformed('packet identifier 0')
        p['props'] = properties(c, 'UNSUBSCRIBE')
        p['topics'] = []
        while not c.done():
            p['topics'].append(c.utf8())
        if not p['topics']:
            raise Malformed('UNSUBSCRIBE without topic filter')
    elif name == 'PINGREQ':
        pass
    elif name == 'DISCONNECT':
        p['reason'] = 0
        if not c.done():
            p['reason'] = c.u8()
            if not c.done():
                p['props'] = properties(c, 'DISCONNECT')
    elif name == 'AUTH':
        if not c.done():
            p['reason'] = c.u8()
            if not c.done():
                p['props'] = properties(c, 'AUTH')
    if not c.done():
        raise Malformed('%d bytes of trailing garbage in %s' % (len(body) - c.i, name))
    return p


def split_stream(b):
    """-> (list of (first, body, raw), tail bytes, error or None): frame a client byte stream"""
    out = []
    i = 0
    while i < len(b):
        try:
            n, j = varint(b, i + 1)
        except IndexError:
            break
        except Malformed as e:
            return out, bytes(b[i:]), str(e)
        if j + n > len(b):
            break
        out.append((b[i], bytes(b[j:j + n]), bytes(b[i:j + n])))
        i = j + n
    return out, bytes(b[i:]), None


def parse_client_stream(b, strict_flags=True):
    """-> (packets, tail, problems): every complete packet parsed strictly"""
    frames, tail, err = split_stream(b)
    problems = [] if err is None else [err]
    packets = []
    for first, body, raw in frames:
        try:
            p = parse_packet(first, body, strict_flags)
        except Malformed as e:
            p = {'type': 'MALFORMED', 'error': str(e), 'first': first}
            problems.append('%s (packet %s)' % (e, raw.hex()))
        p['raw'] = raw
        packets.append(p)
    return packets, tail, problems


# ---------------------------------------------------------------- server -> client packets (for C08's "valid is accepted")
class Unsure(Exception):
    """the packet is in a zone this validator does not judge (e.g. a reason code outside the table of its packet type)"""


SERVER_NAMES = {2: 'CONNACK', 3: 'PUBLISH', 4: 'PUBACK', 5: 'PUBREC', 6: 'PUBREL', 7: 'PUBCOMP', 9: 'SUBACK', 11: 'UNSUBACK',
                13: 'PINGRESP', 14: 'DISCONNECT'}
ACK_REASONS = {
    'PUBACK': {0x00, 0x10, 0x80, 0x83, 0x87, 0x90, 0x91, 0x97, 0x99},
    'PUBREC': {0x00, 0x10, 0x80, 0x83, 0x87, 0x90, 0x91, 0x97, 0x99},
    'PUBREL': {0x00, 0x92}, 'PUBCOMP': {0x00, 0x92},
    'SUBACK': {0x00, 0x01, 0x02, 0x80, 0x83, 0x87, 0x8F, 0x91, 0x97, 0x9E, 0xA1, 0xA2},
    'UNSUBACK': {0x00, 0x11, 0x80, 0x83, 0x87, 0x8F, 0x91},
    'DISCONNECT': {0x00, 0x80, 0x81, 0x82, 0x83, 0x87, 0x89, 0x8B, 0x8D, 0x8E, 0x8F, 0x90, 0x93, 0x94, 0x95, 0x96, 0x97, 0x98,
                   0x99, 0x9A, 0x9B, 0x9C, 0x9D, 0x9E, 0x9F, 0xA0, 0xA1, 0xA2},
    'CONNACK': {0x00, 0x80, 0x81, 0x82, 0x83, 0x84, 0x85, 0x86, 0x87, 0x88, 0x89, 0x8A, 0x8C, 0x90, 0x95, 0x97, 0x99, 0x9A,
                0x9B, 0x9C, 0x9D, 0x9F},
}


def parse_server_packet(first, body):
    """one complete broker packet -> dict if it is certainly valid MQTT 5 for a client that requested neither enhanced
    authentication nor topic aliases; raises Malformed if it is certainly not; Unsure otherwise"""
    typ, flags = first >> 4, first & 15
    if typ not in SERVER_NAMES:
        raise Malformed('packet type %d is not sent by a broker (to this client)' % typ)
    name = SERVER_NAMES[typ]
    p = {'type': name, 'first': first}
    c = Cur(body)
    if name == 'PUBLISH':
        qos = (flags >> 1) & 3
        if qos == 3:
            raise Malformed('QoS 3')
        if qos == 0 and flags & 8:
            raise Malformed('DUP set on QoS 0')
        p.update(qos=qos, dup=bool(flags & 8), retain=bool(flags & 1), topic=c.utf8())
        if b'+' in p['topic'] or b'#' in p['topic']:
            raise Malformed('wildcard in topic name')
        if qos:
            p['pid'] = c.u16()
            if p['pid'] == 0:
                raise Malformed('packet identifier 0')
        n = c.var()
        blk = c.take(n)
        out, seen, b = [], set(), Cur(blk)
        while not b.done():
            k = b.var()
            if k not in PROPS or 'PUBLISH' not in PROPS[k][0:2][1]:
                raise Malformed('property 0x%02x is not allowed in PUBLISH' % k)
            if k == 0x23:
                raise Malformed('Topic Alias although the client allows none')
            sh = PROPS[k][0]
            v = b.u8() if sh == 'b' else b.u16() if sh == '2' else b.u32() if sh == '4' else b.var() if sh == 'v' else \
                b.utf8() if sh == 's' else b.binary() if sh == 'd' else (b.utf8(), b.utf8())
            if k not in (0x26, 0x0B) and k in seen:
                raise Malformed('property 0x%02x appears twice' % k)
            seen.add(k)
            if k == 0x01 and v > 1:
                raise Malformed('Payload Format Indicator %d' % v)
            if k == 0x0B and v == 0:
                raise Malformed('Subscription Identifier 0')
            if k == 0x08 and (b'+' in v or b'#' in v or len(v) == 0):
                raise Malformed('Response Topic with wildcard')
            out.append((k, v))
        if len(p['topic']) == 0:
            raise Malformed('empty topic without alias')
        p['props'] = out
        p['props_raw'] = bytes(blk)
        p['payload'] = c.rest()
        if dict((k, v) for k, v in out if k != 0x26).get(0x01) == 1:
            try:
                p['payload'].decode('utf-8')
            except UnicodeDecodeError:
                raise Unsure('payload format says UTF-8, payload is not')
        return p
    want = 2 if name == 'PUBREL' else 0
    if flags != want:
        raise Malformed('%s with flags %d' % (name, flags))

    def props(where):
        return properties(c, where)

    if name == 'CONNACK':
        af = c.u8()
        if af > 1:
            raise Malformed('reserved connect acknowledge flags')
        p['sp'] = af
        p['reason'] = c.u8()
        if p['reason'] not in ACK_REASONS['CONNACK']:
            raise Unsure('CONNACK reason 0x%02x' % p['reason'])
        if p['reason'] != 0 and af:
            raise Malformed('session present with a failure code')
        p['props'] = props('CONNACK')
        for k, v in p['props']:
            if k in (0x24, 0x25, 0x28, 0x29, 0x2A) and v > 1:
                raise Malformed('CONNACK property 0x%02x has value %d' % (k, v))
            if k in (0x15, 0x16, 0x1A):
                raise Unsure('CONNACK property 0x%02x answers a request this client never makes' % k)
    elif name in ('PUBACK', 'PUBREC', 'PUBREL', 'PUBCOMP'):
        p['pid'] = c.u16()
        if p['pid'] == 0:
            raise Malformed('packet identifier 0')
        p['reason'] = 0
        if not c.done():
            p['reason'] = c.u8()
            if p['reason'] not in ACK_REASONS[name]:
                raise Unsure('%s reason 0x%02x' % (name, p['reason']))
            if not c.done():
                p['props'] = props(name)
    elif name in ('SUBACK', 'UNSUBACK'):
        p['pid'] = c.u16()
        if p['pid'] == 0:
            raise Malformed('packet identifier 0')
        p['props'] = props(name)
        p['codes'] = list(c.rest())
        if not p['codes']:
            raise Malformed('%s without reason codes' % name)
        if any(x not in ACK_REASONS[name] for x in p['codes']):
            raise Unsure('%s reason code' % name)
    elif name == 'DISCONNECT':
        p['reason'] = 0
        if not c.done():
            p['reason'] = c.u8()
            if p['reason'] not in ACK_REASONS['DISCONNECT']:
                raise Unsure('DISCONNECT reason 0x%02x' % p['reason'])
            if not c.done():
                p['props'] = props('DISCONNECT')
                if any(k == 0x11 for k, _ in p['props']):
                    raise Malformed('Session Expiry Interval in a server DISCONNECT')
    if not c.done():
        raise Malformed('%d bytes of trailing garbage in %s' % (len(body) - c.i, name))
    return p
