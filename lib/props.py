"""Per-property configuration of the checks: theorem file, correspondence suites and their observable slice,
trace monitors."""
import monitors as M

ALL_STATE = ['cap', 'used', 'ret', 'ctl', 'rel', 'pid', 'gen', 'sp', 'srv', 'quota', 'maxquota', 'mps', 'maxqos',
             'ka', 'np', 'pt', 'resumed', 'rb', 'pl', 'cid', 'conn', 'live', 'now', 'cp', 'pq', 'ev', 'h']
NO_TIMERS = [k for k in ALL_STATE if k not in ('np', 'pt', 'now', 'ka')]

# suite tuple: (name, quick count, thorough count)
PROPS = {
    'C19': dict(
        codec=[('valid', 0, 0)],
        sess=[('sess_c19', 300, 4000)],
        events='wrf', state=NO_TIMERS,
        monitors=[M.mon_c19, M.mon_c19_wire],
        title='invalid requests refused locally without trace; QoS capped when asked',
        claim='Proved in Coq for all inputs: the validity table equals MQTT 5 table 2-4 restricted to client packets '
              '(27 kinds x 5 contexts by exhaustive case analysis), value legality for every value, a refused request '
              'returns the world unchanged (session state, wire, handles), QoS downgrade caps at the broker maximum and the '
              'handle kind matches the QoS on the wire. The model is tied to the code by the exhaustive validity-table '
              'sweep through the hook and by differential session runs with invalid requests in every session state.',
        note='Trusted: Coq kernel, the model and Spec.v (reading choices listed in DESIGN.md C19), extraction, harness. '
             'No axioms. Two genuine defects were found and fixed (WillDelayInterval refused on the will; TopicAlias(0) accepted).'),
}

PROPS['C07'] = dict(
    sess=[('sess_c07', 300, 4000)],
    events='w', state=['ret', 'rel', 'pid', 'h', 'gen', 'conn'],
    monitors=[M.mon_c07],
    title='packet identifiers in flight are non-zero and pairwise distinct',
    claim='Proved in Coq for every program, script and broker behaviour (no bound on history length, so the 16-bit '
          'counter wraps arbitrarily often): in every reachable state the identifiers of retained packets and pending '
          'PUBRELs are in 1..65535 and pairwise distinct (invariant closed under every session step, lifted through the '
          'machine refinement), and the allocator returns a non-zero identifier not in flight (pigeonhole over 17 '
          'candidates). Model tied to the code by differential runs with the counter preset next to the wrap point '
          'and onto identifiers in flight.',
    note='Trusted: Coq kernel, the model, extraction, harness, the packet-id setter hook. No axioms. The property was '
         'false on the unchanged tree (identifier reuse after wrap, unbounded SUBSCRIBE resend); repaired by fix 6dd89ae.')

PROPS['C06'] = dict(
    sess=[('sess_c06', 300, 4000)],
    events='w', state=['ret', 'rel', 'quota', 'maxquota', 'h', 'conn', 'live', 'cp'],
    monitors=[M.mon_c06],
    title="the broker's Receive Maximum is never exceeded",
    claim='Proved in Coq for every program, script and broker behaviour satisfying the stated environment flag: in every '
          'reachable state send_quota + #unresolved QoS>0 publishes (retained PUBLISH packets + PUBRELs awaiting PUBCOMP) '
          '<= max_send_quota = min(Receive Maximum, 8); the invariant is inductive over every step; a publish without quota '
          'returns NotReady leaving outbound state and quota unchanged; a successful PUBREC can always queue its PUBREL '
          '(no exchange dropped). Tied to the code by differential runs (quota, retained and release lists compared after '
          'every action) and an independent wire-level monitor counting unresolved PUBLISH packets.',
    note='Trusted: Coq kernel, model, extraction, harness. No axioms. Environment assumptions are explicit (ghost flag '
         'w_envok): resumed CONNACKs leave room for what is carried over; PUBACK/PUBREC name PUBLISH entries. The property '
         'was false on the unchanged tree (three histories); repaired by fixes b3f2128 and 37cc1f9.')

PROPS['C17'] = dict(
    sess=[('sess_c17', 250, 3000)],
    events='w', state=['cap', 'used', 'ret', 'rel', 'cp', 'pq', 'conn', 'gen'],
    monitors=[M.mon_c17],
    title='transmit arena: retained packets stay intact and capacity is fully recovered',
    claim='Proved in Coq: a refinement of the concrete byte arena (offsets, copy_within compaction with memmove semantics, '
          'in-place encoding behind `used`, DUP poke) to the abstract list of (id, bytes, state): compaction, acknowledgement '
          'in any order, encoding of new packets and DUP marking leave the bytes of every packet that stays retained '
          'unchanged (DUP marking only sets bit 3 of the first byte); the geometry invariant holds in every reachable '
          'state (all slice accesses in bounds); the arena never changes size and a quiescent arena admits and encodes '
          'exactly what a new one does. Tied to the code by long differential histories comparing every retained '
          'entry (offset, length, bytes) after every action, and a snapshot monitor.',
    note='Trusted: Coq kernel, model, extraction, harness, snapshot hook. No axioms. Bytes outside live entries '
         '(alignment gaps, scratch behind `used`, leftovers of failed encodes) are not modelled; they are never read.')

PROPS['C11'] = dict(
    sess=[('sweep_c11', 600, 8000), ('sess_c11', 200, 3000)],
    events='wrf', state=['conn', 'live', 'cp', 'ev'],
    monitors=[M.mon_c11],
    title='a dead connection handle stays dead and never touches the transport again',
    claim='Proved in Coq for every script (a fault of every kind at every I/O call of every operation): each operation '
          'that returns a transport error, the disconnected error or the invalid-packet error leaves the handle dead '
          '(latched, by induction over the drive / flush / wait loops); disconnect() past its liveness check leaves it dead; '
          'on a dead handle every network operation returns Disconnected (disconnect: Ok) with the whole world unchanged, '
          'hence without any read, write or flush. Tied to the code by a systematic fault sweep (fail / zero-eof / drop at '
          'every I/O index of generated programs, followed by every kind of API call on the same handle).',
    note='Trusted: Coq kernel, model, extraction, harness. No axioms. Documented non-latching results (WriteZero, Rejected, '
         'NotReady, InvalidRequest, BufferTooSmall, InflightExhausted, send-time PacketTooLarge) are modelled as the code has them.')

TRUSTED_BASE = [
    'Coq 8.16.1 kernel and its bytecode VM (vm_compute); native_compute is not used',
    'axioms: none (every property theorem is reported "Closed under the global context" by Print Assumptions)',
    'the hand-written Gallina model coq/theories/Model/*.v, including Spec.v (the reading of MQTT 5)',
    'extraction with ExtrOcamlBasic only (Extract Inductive bool, option, unit, list, prod, sumbool, sumor; no '
    'Extract Constant), OCaml 4.13.1 ocamlopt, ocaml/driver.ml (integer line parser, byte printer)',
    'the correspondence check: Rust harness (scripted transport, virtual clock, executor, generators), the '
    'cfg(minimq_verif) hooks in /repo, lib/*.py (diff, trace monitors, independent Python MQTT parser)',
    'rustc/cargo and the dependency crates as far as the harness observes the implementation through them',
]

ASSUMPTIONS = [
    'transport futures are cancel-safe and obey the embedded-io contract',
    'usize has at least 32 bits; the u32 session generation does not wrap',
    'the executor polls a woken future; virtual time only takes whole-millisecond values',
    'debug-profile semantics for debug_assert!/overflow checks (the harness is built with both enabled)',
]

NOT_YET = {}
