"""Per-property configuration of the checks: theorem file, correspondence suites and their observable slice,
trace monitors."""
import monitors as M

ALL_STATE = ['cap', 'used', 'ret', 'ctl', 'rel', 'pid', 'gen', 'sp', 'srv', 'quota', 'maxquota', 'mps', 'maxqos',
             'ka', 'np', 'pt', 'resumed', 'rb', 'pl', 'cid', 'conn', 'live', 'now', 'cp', 'pq', 'ev', 'h']
NO_TIMERS = [k for k in ALL_STATE if k not in ('np', 'pt', 'now', 'ka')]

# suite tuple: (name, quick count, thorough count)
PROPS = {
    'C19': dict(
        codec=[('valid', 0, 0)],
        sess=[('sess_c19', 300, 4000)],
        events='wrf', state=NO_TIMERS,
        monitors=[M.mon_c19],
        title='invalid requests refused locally without trace; QoS capped when asked',
        claim='Proved in Coq for all inputs: the validity table equals MQTT 5 table 2-4 restricted to client packets '
              '(27 kinds x 5 contexts by exhaustive case analysis), value legality for every value, a refused request '
              'returns the world unchanged (session state, wire, handles), QoS downgrade caps at the broker maximum and the '
              'handle kind matches the QoS on the wire. The model is tied to the code by the exhaustive validity-table '
              'sweep through the hook and by differential session runs with invalid requests in every session state.',
        note='Trusted: Coq kernel, the model and Spec.v (reading choices listed in DESIGN.md C19), extraction, harness. '
             'No axioms. Two genuine defects were found and fixed (WillDelayInterval refused on the will; TopicAlias(0) accepted).'),
}

TRUSTED_BASE = [
    'Coq 8.16.1 kernel and its bytecode VM (vm_compute); native_compute is not used',
    'axioms: none (every property theorem is reported "Closed under the global context" by Print Assumptions)',
    'the hand-written Gallina model coq/theories/Model/*.v, including Spec.v (the reading of MQTT 5)',
    'extraction with ExtrOcamlBasic only (Extract Inductive bool, option, unit, list, prod, sumbool, sumor; no '
    'Extract Constant), OCaml 4.13.1 ocamlopt, ocaml/driver.ml (integer line parser, byte printer)',
    'the correspondence check: Rust harness (scripted transport, virtual clock, executor, generators), the '
    'cfg(minimq_verif) hooks in /repo, lib/*.py (diff, trace monitors, independent Python MQTT parser)',
    'rustc/cargo and the dependency crates as far as the harness observes the implementation through them',
]

ASSUMPTIONS = [
    'transport futures are cancel-safe and obey the embedded-io contract',
    'usize has at least 32 bits; the u32 session generation does not wrap',
    'the executor polls a woken future; virtual time only takes whole-millisecond values',
    'debug-profile semantics for debug_assert!/overflow checks (the harness is built with both enabled)',
]

NOT_YET = {}
