"""Per-property configuration of the checks: theorem file, correspondence suites and their observable slice,
trace monitors."""
import monitors as M

ALL_STATE = ['cap', 'used', 'ret', 'ctl', 'rel', 'pid', 'gen', 'sp', 'srv', 'quota', 'maxquota', 'mps', 'maxqos',
             'ka', 'np', 'pt', 'resumed', 'rb', 'pl', 'cid', 'conn', 'live', 'now', 'cp', 'pq', 'ev', 'h']
NO_TIMERS = [k for k in ALL_STATE if k not in ('np', 'pt', 'now', 'ka')]

# suite tuple: (name, quick count, thorough count)
PROPS = {
    'C19': dict(
        codec=[('valid', 0, 0)],
        sess=[('sess_c19', 300, 4000)],
        events='wrf', state=NO_TIMERS,
        monitors=[M.mon_c19, M.mon_c19_wire, M.mon_c19_handle],
        title='invalid requests refused locally without trace; QoS capped when asked',
        claim='Proved in Coq for all inputs: the validity table equals MQTT 5 table 2-4 restricted to client packets '
              '(27 kinds x 5 contexts by exhaustive case analysis), value legality for every value, a refused request '
              'returns the world unchanged (session state, wire, handles), QoS downgrade caps at the broker maximum and the '
              'handle kind matches the QoS on the wire. The model is tied to the code by the exhaustive validity-table '
              'sweep through the hook and by differential session runs with invalid requests in every session state.',
        note='Trusted: Coq kernel, the model and Spec.v (reading choices listed in DESIGN.md C19), extraction, harness. '
             'No axioms. Two genuine defects were found and fixed (WillDelayInterval refused on the will; TopicAlias(0) accepted).'),
}

PROPS['C07'] = dict(
    sess=[('sess_c07', 300, 4000), ('py_c07', 300, 4000)],
    events='w', state=['ret', 'rel', 'pid', 'h', 'gen', 'conn'],
    monitors=[M.mon_c07],
    title='packet identifiers in flight are non-zero and pairwise distinct',
    claim='Proved in Coq for every program, script and broker behaviour (no bound on history length, so the 16-bit '
          'counter wraps arbitrarily often): in every reachable state the identifiers of retained packets and pending '
          'PUBRELs are in 1..65535 and pairwise distinct (invariant closed under every session step, lifted through the '
          'machine refinement), and the allocator returns a non-zero identifier not in flight (pigeonhole over 17 '
          'candidates) — exactly the first identifier, in cyclic order from the counter, that is not in flight '
          '(C07_allocator_exact: nothing but identifiers in use is skipped). Model tied to the code by differential runs with the counter preset next to the wrap point '
          'and onto identifiers in flight.',
    note='Trusted: Coq kernel, the model, extraction, harness, the packet-id setter hook. No axioms. The property was '
         'false on the unchanged tree (identifier reuse after wrap, unbounded SUBSCRIBE resend); repaired by fix 6dd89ae.')

PROPS['C06'] = dict(
    sess=[('sess_c06', 300, 4000), ('py_c06', 300, 4000)],
    events='w', state=['ret', 'rel', 'quota', 'maxquota', 'h', 'conn', 'live', 'cp'],
    monitors=[M.mon_c06],
    title="the broker's Receive Maximum is never exceeded",
    claim='Proved in Coq for every program, script and broker behaviour satisfying the stated environment flag: in every '
          'reachable state send_quota + #unresolved QoS>0 publishes (retained PUBLISH packets + PUBRELs awaiting PUBCOMP) '
          '<= max_send_quota = min(Receive Maximum, 8); the invariant is inductive over every step; a publish without quota '
          'returns NotReady leaving outbound state and quota unchanged; a successful PUBREC can always queue its PUBREL '
          '(no exchange dropped). Tied to the code by differential runs (quota, retained and release lists compared after '
          'every action) and an independent wire-level monitor counting unresolved PUBLISH packets.',
    note='Trusted: Coq kernel, model, extraction, harness. No axioms. Environment assumptions are explicit (ghost flag '
         'w_envok): resumed CONNACKs leave room for what is carried over; PUBACK/PUBREC name PUBLISH entries. The property '
         'was false on the unchanged tree (three histories); repaired by fixes b3f2128 and 37cc1f9. Outside the environment flag the statement is refuted (C06_refuted_unsent_beyond_window): known finding K06r.')

PROPS['C17'] = dict(
    sess=[('sess_c17', 250, 3000)],
    events='w', state=['cap', 'used', 'ret', 'rel', 'cp', 'pq', 'conn', 'gen', 'live', 'quota'],
    monitors=[M.mon_c17, M.mon_c17_admission, M.mon_answered_released],
    title='transmit arena: retained packets stay intact and capacity is fully recovered',
    claim='Proved in Coq: a refinement of the concrete byte arena (offsets, copy_within compaction with memmove semantics, '
          'in-place encoding behind `used`, DUP poke) to the abstract list of (id, bytes, state): compaction, acknowledgement '
          'in any order, encoding of new packets and DUP marking leave the bytes of every packet that stays retained '
          'unchanged (DUP marking only sets bit 3 of the first byte); the geometry invariant holds in every reachable '
          'state (all slice accesses in bounds); the arena never changes size and a quiescent arena admits and encodes '
          'exactly what a new one does. Tied to the code by long differential histories comparing every retained '
          'entry (offset, length, bytes) after every action, a snapshot monitor, and the rule that an answered request (whatever the reason codes of its acknowledgement) keeps neither its slot nor its arena bytes (mon_answered_released).',
    note='Trusted: Coq kernel, model, extraction, harness, snapshot hook. No axioms. Bytes outside live entries '
         '(alignment gaps, scratch behind `used`, leftovers of failed encodes) are not modelled; they are never read.')

PROPS['C11'] = dict(
    sess=[('sweep_c11', 600, 8000), ('sess_c11', 200, 3000), ('py_edges', 200, 3000), ('py_c11d', 150, 1500)],
    events='wrf', state=['conn', 'live', 'cp', 'ev'],
    monitors=[M.mon_c11],
    title='a dead connection handle stays dead and never touches the transport again',
    claim='Proved in Coq for every script (a fault of every kind at every I/O call of every operation): each operation '
          'that returns a transport error, the disconnected error or the invalid-packet error leaves the handle dead '
          '(latched, by induction over the drive / flush / wait loops); disconnect() past its liveness check leaves it dead; '
          'on a dead handle every network operation returns Disconnected (disconnect: Ok) with the whole world unchanged, '
          'hence without any read, write or flush. Tied to the code by a systematic fault sweep (fail / zero-eof / drop at '
          'every I/O index of generated programs, followed by every kind of API call on the same handle).',
    note='Trusted: Coq kernel, model, extraction, harness. No axioms. Documented non-latching results (WriteZero, Rejected, '
         'NotReady, InvalidRequest, BufferTooSmall, InflightExhausted, send-time PacketTooLarge) are modelled as the code has them.')

PROPS['C14'] = dict(
    sess=[('sess_c14', 400, 5000), ('py_edges', 300, 4000), ('py_c14', 300, 3000)],
    events='wr', state=['mps', 'ret', 'rel', 'ctl', 'conn', 'live', 'rb', 'pl'],
    monitors=[M.mon_c14, M.mon_refused_too_large, M.mon_panic],
    title='Maximum Packet Size is honoured in both directions',
    claim='Proved in Coq, one lemma per transmit site with the exact boundary in the statement: the outbound engine only '
          'writes packets within the limit of the current CONNACK (control packets, PUBREL, retained packets re-checked at send '
          'time, so a packet retained under a larger limit is refused under a smaller one); publish / subscribe / unsubscribe / '
          'disconnect above the limit fail without retaining; an acknowledgement that would not fit closes the connection; CONNECT '
          'advertises the receive-buffer size; the read window never extends past the receive buffer and a declared length '
          'beyond it is refused. Tied to the code by differential runs with limits 2..1000 and sizes around them, receive '
          'buffers 4..64, replay under a changed limit, and a wire monitor measuring every packet against the limit.',
    note='Trusted: Coq kernel, model, extraction, harness, Python MQTT parser. No axioms.')

PROPS['C02'] = dict(
    sess=[('sess_c02', 300, 4000), ('sweep_c02', 300, 4000), ('py_c01', 200, 2000)],
    events='w', state=['ret', 'conn', 'gen', 'h'],
    monitors=[M.mon_acked_never_again, M.mon_c02, M.mon_c17, M.mon_c05_replay],
    title='an accepted QoS 1 publish is never lost: replayed on each resume until PUBACK',
    claim='Proved in Coq over every step of every operation under every schedule: the bytes of a retained packet, modulo '
          'the DUP bit, stay in the retained list until an acknowledgement naming its identifier is processed or a fresh '
          'broker session is established (entry_persist: cancellation, faults, reconnects, compaction, other acks, later '
          'publishes and replay cannot lose or alter it); every (re)connect rewinds every entry to byte 0 and the engine never '
          'picks a Sent entry (at most one transmission per connection); DUP marking only sets bit 3 of the first byte; '
          'removal keeps the order of the others. Tied to the code by differential runs (kill the connection at every I/O '
          'index, 2-5 consecutive resumes, all ack orders) and a wire monitor comparing every retransmission with the '
          'retained bytes.',
    note='Trusted: Coq kernel, model, extraction, harness. No axioms. The wire-level statement is now a theorem too '
         '(Owed.v, Replay.v): a connect() answered with session present leaves the queues as compact(arm_replay(o)) '
         '(C02_resumed_connect_keeps_queues); what they owe the wire is replay_bytes(o) - every owed acknowledgement, every pending '
         'PUBREL, every retained packet once, in queue order, retained packets with DUP set and otherwise byte for byte '
         '(C02_resumed_connect_owes_replay); the drain that follows puts exactly these bytes on the wire, on a behaving transport '
         '(C02_replay_on_wire) and on ANY transport that lets the drain end, however it cuts the writes '
         '(C02_replay_on_wire_any_transport); C02_replay_example / C02_replay_hyps_met compute a case with all three queues '
         'non-empty. That the broker then answers and the handles complete is part of C16.')
PROPS['C03'] = dict(
    sess=[('sess_c03', 300, 4000), ('py_c03', 200, 3000)],
    events='w', state=['ret', 'rel', 'conn', 'gen', 'h', 'quota'],
    monitors=[M.mon_acked_never_again, M.mon_c03, M.mon_c02, M.mon_c05_replay],
    title='QoS 2 outbound exchange is exactly-once',
    claim='Proved in Coq: a successful PUBREC moves the exchange from the retained list to the release list in one step '
          '(the PUBLISH can never be written again, the PUBREL is owed); the release list always has room (with the quota '
          'invariant of C06); a failing PUBREC ends the exchange without PUBREL; the release list grows at the tail, PUBCOMP '
          'deletes in place and the engine serves fresh entries in list order, so replayed PUBRELs keep PUBREC order; '
          'replay rewinds every owed PUBREL once per connection. Tied to the code by differential runs over concurrent QoS 2 '
          'exchanges with all PUBREC/PUBCOMP orders and resumed reconnects, and a wire monitor.',
    note='Trusted: Coq kernel, model, extraction, harness. No axioms. The order clause was false on the unchanged tree '
         '(swap_remove); repaired by fix 927b0b3. On the wire (Replay.v): after a resumed connect the drain writes every pending '
         'PUBREL exactly once, in release-list (= PUBREC) order, after the owed acknowledgements and before the retained publishes, '
         'on any transport (C03_replay_layout, C03_pubrels_replayed_in_order).')
PROPS['C05'] = dict(
    sess=[('sess_c05', 400, 5000), ('py_c05r', 150, 1500)],
    events='w', state=['sp', 'gen', 'ret', 'rel', 'srv', 'h', 'cid', 'conn', 'ev', 'pid'],
    monitors=[M.mon_c05, M.mon_c05_replay, M.mon_c02],
    title='fresh vs. resumed broker session is mirrored in local state and replay',
    claim='Proved in Coq: clean_start = not session_present with the configured or assigned client id; a successful CONNACK '
          'sets session_present and no step of any operation (in particular no rejected, garbled or invalid CONNACK) clears it '
          'again; a failed CONNACK leaves the session untouched; session-present 0 discards everything in flight, resets the '
          'identifier counter, bumps the generation and invalidates every earlier handle; session-present 1 leaves everything '
          'in flight untouched with every entry rewound for replay. Tied to the code by differential runs over sequences of '
          '2-6 connections with arbitrary session-present answers and rejected/garbled/EOF/cancelled handshakes.',
    note='Trusted: Coq kernel, model, extraction, harness. No axioms. Assumes the u32 generation does not wrap within one '
         'handle lifetime (2^32 fresh sessions). A literal violation on the unchanged tree was repaired by fix faf7e8e.')
PROPS['C18'] = dict(
    sess=[('sess_c18', 400, 5000)],
    events='', state=['h', 'gen', 'ret', 'rel', 'conn'],
    monitors=[M.mon_c18, M.mon_c18_ref, M.mon_c07],
    title='operation handles tell the truth about completion and invalidation',
    claim='Proved in Coq: a handle is invalidated exactly when the generation differs, and the generation changes exactly when '
          'a fresh broker session is established; it is pending exactly while its identifier is in flight and complete '
          'otherwise; identifiers in flight are unique in every reachable state and an entry leaves the lists only through '
          'an acknowledgement naming its identifier (or a fresh session), so complete means: its final acknowledgement was '
          'consumed; a failure reason code is surfaced as Rejected after the entry is removed. Tied to the code by '
          'differential runs querying the status of every handle after every action.',
    note='Trusted: Coq kernel, model, extraction, harness. No axioms. Environment assumption (explicit): acknowledgements carry '
         'the packet type matching the operation (the client matches acks to entries by identifier only).')

PROPS['C08'] = dict(
    codec=[('decode_exh', 0, 0), ('decode_hdr', 0, 0), ('decode_utf8', 0, 0), ('decode_gen', 3000, 40000),
           ('decode_props', 2000, 30000), ('reader', 2000, 30000)],
    sess=[('sess_c08', 300, 4000), ('py_edges', 200, 3000), ('py_c08', 400, 6000)],
    events='wrf', state=['ret', 'rel', 'ctl', 'srv', 'live', 'conn', 'rb', 'pl', 'quota', 'cid', 'sp', 'gen'],
    monitors=[M.mon_panic, M.mon_c08, M.mon_c08_connack, M.mon_c08_valid, M.mon_c11], codec_monitors=[M.mon_decode, M.mon_decode_valid],
    title='any inbound bytes: valid packets accepted verbatim, malformed rejected, no panic',
    claim='Proved in Coq: variable byte integers round-trip and the reader accepts exactly the canonical encodings (<= 4 bytes, '
          '<= 268435455); the packet reader\'s lax length probe agrees with the canonical reader; the first byte is accepted '
          'exactly for the types/flags MQTT 5 lets a server send (all 256 values, vm_compute over the whole domain lifted by '
          'forallb_forall) and everything else is rejected; non-canonical/oversized remaining length, trailing bytes, invalid '
          'UTF-8 topic and a declared length beyond the receive buffer are rejected; every PUBLISH (all lengths, QoS, flags, any '
          'well-formed property list) decodes to exactly the fields sent and its property block iterates to exactly the '
          'properties; a successful CONNACK is accepted exactly when none of its properties is Receive Maximum 0, a Maximum QoS '
          'above 2 or an Assigned Client Identifier longer than 64 bytes (C08_connack_accepted_iff) - the last class is valid '
          'MQTT 5 and REFUTES the property for it: C08_assigned_client_id_refuted, known finding K08a. Decoder, reader and '
          'iterator are total functions. Tied to the code by exhaustive sweeps (all byte strings '
          'of length <= 2, all 256 first bytes x 1..5-byte length forms, all short UTF-8 sequences) and generated + mutated '
          'packets through the decoder hook, the reader hook and live sessions; panics are caught (debug profile); an '
          'independent validator of broker packets (Python, three verdicts) demands that a certainly valid packet is never answered '
          'with InvalidPacket, over generated valid traffic carrying every property a broker may attach.',
    note='Trusted: Coq kernel, model, extraction, harness, decode/reader hooks. No axioms. Panics inside serde / heapless / core '
         'are covered only by the differential run under catch_unwind. A genuine defect found while proving the round trip '
         '(four-byte integers above 33554431 rejected) was repaired by fix dd0420c. Observations outside the property\'s list: '
         'DUP=1 on QoS 0 and packet identifier 0 are accepted.')
PROPS['C09'] = dict(
    codec=[('encode', 500, 8000), ('valid', 0, 0)],
    sess=[('sess_c05', 200, 3000), ('sess_c19', 100, 2000)],
    events='w', state=['cid', 'ka', 'conn'],
    monitors=[M.mon_c09], codec_monitors=[M.mon_encode],
    title='what the broker decodes is exactly what the application asked to send',
    claim='Proved in Coq, for every request the encoder accepts, every buffer size and all lengths symbolic (so the 127/128, '
          '16383/16384, 2097151/2097152 remaining-length boundaries are inside the proof): a broker-side decoder written from '
          'MQTT 5 sections 3.1 / 3.8 / 3.10 / 3.14 (Model/Broker.v) reads from the encoder output exactly the request — CONNECT '
          '(client id, clean start, keep-alive, every CONNECT property, will with QoS / retain / properties / topic / payload, '
          'user name and password; and for the CONNECT a session sends: Session Expiry, Receive Maximum 8, Maximum Packet Size = '
          'receive buffer as configured), SUBSCRIBE (identifier, properties, every filter with maximum QoS, no-local, '
          'retain-as-published, retain handling), UNSUBSCRIBE, DISCONNECT (reason, properties) and the four acknowledgements; '
          'PUBLISH decodes to precisely the request (topic, identifier, QoS, retain, DUP, every property, payload). Property::size '
          'equals the bytes emitted for all 27 kinds and all values, hence the declared block length is exact; the serializer '
          'writes the concatenation of all fields or fails (nothing truncated); a successful encoding fits its buffer with the '
          'header right-aligned. Tied to the code by byte-for-byte comparison of all encoders (CONNECT with all will/auth/QoS/'
          'retain combinations, PUBLISH, SUBSCRIBE with all option combinations, UNSUBSCRIBE, DISCONNECT, acks) over generated '
          'requests and buffer sizes from 0 to beyond the need, and by an independent Python MQTT parser that decodes the '
          'implementation\'s encoder output and compares every field with the request (mon_encode) and parses session wires.',
    note='At the wire (Sends.v): a publish (QoS 0, 1, 2), subscribe or unsubscribe that returns has put on the wire exactly what '
         'the queues owed before, followed by the encoding of the request under the identifier of the handle, and nothing else - on '
         'any transport, however it cuts the writes (C09_publish_on_wire, C09_publish_q0_on_wire, C09_subscribe_on_wire, '
         'C09_unsubscribe_on_wire; assumption PQ: no PINGREQ is to be queued at the instant of the call and the writes take no '
         'virtual time; C09_*_on_wire_every_transport drop the assumption: the same bytes with at most one PINGREQ inserted). '
         'Trusted: Coq kernel and VM (the non-vacuity example is computed), model incl. the broker-side decoder (my reading of '
         'MQTT 5), extraction, harness, encoder hooks, Python parser. No axioms. Premises of the round-trip theorems: identifiers and '
         'keep-alive fit 16 bits, property values fit their Rust types (props_ok), retain handling <= 2, DISCONNECT properties only '
         'with a reason — what the public API can express. The keep-alive clause was false on the unchanged tree; repaired by '
         'fix 2bb8a2d.')

PROPS['C20'] = dict(
    codec=[('reply', 3000, 40000)],
    codec_monitors=[M.mon_reply],
    title='reply helpers address exactly the requester',
    claim='Proved in Coq for all response topics and correlation data (any bytes, any length), at any position among any other '
          'well-formed inbound properties: the helpers see the first Response Topic and the first Correlation Data of the inbound '
          'property list (through the lazy iterator round trip); reply() yields a publication to exactly that topic carrying exactly '
          'that correlation data followed by the user properties (also read back from its encoding); no reply is offered without a '
          'response topic; the owned copy equals the two values when they fit the requested capacities and is an error otherwise, '
          'never a truncated copy; the publication built later from the owned copy (with user properties) is the one reply() builds '
          '(C20_owned_publication). Tied to the code by differential runs through a hook that builds the InboundPublish and renders '
          'reply(), reply_owned() for 8 capacity pairs and the encoded publication of the owned target, lengths around each capacity, '
          'property blocks longer than 64 KiB ahead of the response topic, and an independent Python reading of the inbound packet. '
          'An implementation that no longer returns is reported as HANG by the runner (60 s without output) with the case as replay.',
    note='Trusted: Coq kernel, model, extraction, harness, reply hook. No axioms.')

PROPS['C10'] = dict(
    sess=[('py_c10', 400, 6000), ('sess_c10', 150, 2500)],
    events='wrft', state=['ka', 'np', 'pt', 'now', 'conn', 'live', 'ctl'],
    monitors=[M.mon_c10],
    title='keep-alive: PINGREQ cadence and dead-peer detection follow the negotiated time',
    claim='Proved in Coq for all keep-alive values and all instants (unbounded N milliseconds): every completed outbound packet '
          'and every CONNACK schedule the next PINGREQ at now + K - min(5 s, K/2) <= now + K; a PINGREQ is queued exactly when '
          'that instant has been reached (ties included), none is outstanding and none is queued; the wait deadline is the earlier '
          'of the two timers; the timeout is armed only by the flush of a PINGREQ, exactly 5 s after it, it fires at that instant '
          'and never before, a PINGRESP clears it for good; with keep-alive 0 no ping is scheduled or queued in any reachable world '
          '(invariant through the machine refinement); for K >= 10 s a PINGREQ is never blocked by an outstanding one. The full gap '
          'statement is REFUTED for K < 5 s (C10_gap_refuted_small_keepalive; known finding K10). The instants at which the machine '
          'calls these functions (virtual clock, wait rule, I/O-wins ties) are tied to the code by differential runs with timers '
          'compared after every action and checked by a virtual-time monitor on the implementation traces.',
    note='The quiet wait is a theorem at the level of the machine and its virtual clock (PingAt.v): with nothing to send and nothing '
         'arriving, poll() sleeps exactly until the PINGREQ deadline d <= last activity + K, and AT d exactly the two bytes of a '
         'PINGREQ are written and flushed and the round-trip timer is armed for d + 5 s (C10_poll_pings_at_deadline); an unanswered '
         'PINGREQ ends the wait with the disconnected error exactly when that bound expires, the handle dead and nothing more written '
         '(C10_poll_times_out_at_bound); C10_ping_example / C10_ping_hyps_met compute K = 30 s: PINGREQ at 25 s, disconnected at 30 s, '
         'with the hypotheses proved. Partial: for arbitrary interleavings of user traffic, inbound traffic and time the gap bound for '
         'K >= 5 s is established per step (scheduling, queuing, arming, firing) plus the monitor, not as one theorem over whole '
         'executions. Trusted: Coq kernel, model, extraction, harness with its virtual '
         'embassy time driver. No axioms. Known finding K10 (keep-alive < 5 s) is reported as KNOWN-FINDING.')

PROPS['C01'] = dict(
    sess=[('py_c01', 300, 5000), ('sess_c01', 300, 6000), ('sweep_c01', 200, 5000), ('sess_base', 100, 3000), ('py_c07', 150, 1500)],
    events='wf', state=['ret', 'ctl', 'rel', 'conn', 'live', 'cp'],
    monitors=[M.mon_c01, M.mon_panic],
    title='the outbound byte stream is whole, well-formed MQTT 5 packets',
    claim='Proved in Coq over whole executions (C01_wire_is_whole_packets): for every program, every script (writes accepted '
          'down to one byte, a fault or a dropped future at any I/O call of any operation), every broker behaviour and any '
          'number of reconnects, the bytes the current transport has accepted are a sequence of whole packets followed by at '
          'most the beginning of one packet, and on a live handle that beginning is exactly the written prefix of the one '
          'queued entry in progress - unless the ghost flag of the model is set, which happens exactly for a QoS 0 publish or '
          'a disconnect() stopped in the middle of its packet with the handle still live and for disconnect() called while a '
          'queued packet is half written (the recorded findings; witnessed by computation). Behind it: every retained packet '
          'in the arena is one whole packet, at most one entry of the three queues is in progress, the control queue is '
          'served from its head (invariants closed under every session step); the engine writes from the recorded offset and '
          'the queues own exactly the prefix written; no inbound packet is processed while an outbound packet is half written. '
          'Packet level: every encoder returns exactly one packet whose first byte MQTT 5 lets a client send (K01a: a replayed '
          'SUBSCRIBE is a whole packet with the illegal first byte 0x8a), and the framing rule recovers the packets. Tied to the '
          'code by byte-for-byte differential runs and an independent strict decoder on every transport.',
    note='Full for packet boundaries, with the ghost flag naming the refuted cases K01b/K01c; first-byte legality of replayed '
         'SUBSCRIBE/UNSUBSCRIBE is refuted (K01a); "nothing follows a DISCONNECT" and "CONNECT first" are carried by the monitor. '
         'Trusted: Coq kernel and VM, model (incl. the ghost fields w_wire / w_poison), Spec.v, extraction, harness, Python decoder. No axioms.')

PROPS['C04'] = dict(
    codec=[('decode_gen', 1500, 20000)],
    sess=[('py_c04', 400, 6000), ('py_c04w', 224, 1120), ('sess_c04', 300, 5000), ('sess_base', 100, 2000), ('py_edges', 200, 3000), ('py_c08', 200, 3000)],
    events='wrf', state=['srv', 'ctl', 'conn', 'live', 'sp', 'rb', 'pl'],
    monitors=[M.mon_c04, M.mon_c04_valid, M.mon_panic],
    codec_monitors=[M.mon_decode],
    title='inbound publishes delivered faithfully, acknowledged in order, QoS 2 only once',
    claim='Proved in Coq: a PUBLISH decodes to exactly the fields the broker encoded (topic, identifier, QoS, retain, DUP, all '
          'properties through the lazy iterator, payload; no bound on lengths); QoS 0 is delivered; QoS 1 queues PUBACK(id) at the '
          'tail of the control queue, then delivers; a first QoS 2 arrival records the identifier, queues PUBREC(id) and delivers; a '
          'retransmission while the identifier is pending queues PUBREC again and is never delivered; PUBREL queues PUBCOMP '
          '(success if pending, 0x92 otherwise) and frees the identifier; through every session step (outbound traffic, disconnect, '
          'resumed CONNACK, other packets) a pending identifier stays pending unless that step is its PUBREL or a CONNACK without '
          'session present, which empties the set; the set is duplicate-free and at most 8 in every reachable world; the engine '
          'starts the first fresh acknowledgement of the queue (arrival order). The client drains before it reads: in EVERY '
          'execution (every program, script of partial writes / faults / dropped futures, broker behaviour, reconnects) every '
          'inbound packet was handled with nothing left to write (ghost flag w_drained, C04_drained_before_every_inbound_packet), '
          'so the acknowledgement joins an EMPTY control queue, cannot be refused for lack of room, and is written and flushed '
          'before the next packet is read — acknowledgements reach the wire in arrival order (C04_drained_not_refused and the '
          '*_drained forms of the handling theorems). Tied to the code by differential runs (pending set, control queue, reader '
          'state compared after every action), a reference receiver (Python) checking every delivery and every acknowledgement on '
          'the wire, and an independent validator of broker packets (a certainly valid PUBLISH must not be answered with '
          'InvalidPacket).',
    note='Environment assumption of the residue-free theorems: the broker Maximum Packet Size admits a 5-byte acknowledgement '
         '(AckFits). Below that (a limit of 1..4 bytes) the connection is closed as C14 demands and a first QoS 2 arrival leaves no '
         'trace (C04_qos2_first_arrival: s\' = s), so its retransmission is delivered - this was false on the unchanged tree '
         '(defect F18: the identifier stayed recorded and the message was lost), repaired by fix 6ec1ca9. Trusted: Coq kernel and VM (the '
         'non-vacuity example is computed), model, extraction, harness, Python reference receiver and validator. No axioms.')

PROPS['C12'] = dict(
    sess=[('py_c12', 300, 5000), ('sweep_c12', 400, 8000), ('sess_c12', 200, 4000), ('py_edges', 200, 3000), ('py_c12p', 150, 1500), ('py_c05r', 100, 1000), ('py_c12u', 200, 2000)],
    events='wrf', state=['cap', 'used', 'ret', 'ctl', 'rel', 'rb', 'pl', 'np', 'pt', 'resumed', 'sp', 'conn', 'live', 'cp', 'cid', 'quota', 'maxquota'],
    monitors=[M.mon_c12, M.mon_c12_usable, M.mon_panic],
    title='the session can always be reconnected, whatever happened before',
    claim='Proved in Coq for every session value (so for every history): the preamble of connect() empties the packet reader, clears '
          'both timers and the resumed flag and puts every queued control, release and retained entry back at byte 0; the CONNECT is '
          'encoded into the free tail of the compacted arena and the encoder succeeds exactly when 5 + its length fits there, failing '
          'with BufferTooSmall before any byte is written otherwise; a successful CONNACK without properties is accepted in every '
          'state; and — the whole of connect(), for EVERY world state, no reachability hypothesis — on a behaving transport '
          'answered by a conformant broker, whenever the CONNECT fits behind the retained packets, connect() writes the CONNECT '
          'in one call, flushes, pulls the CONNACK in through the packet reader (reads of 1, 1 and 3 bytes), decodes and accepts '
          'it, and reports `resumed` exactly when the client held session state (C12_connect_succeeds, '
          'C12_connect_action_succeeds; hypotheses shown satisfiable on a reachable state with a half-sent retained publish, '
          'C12_connect_hyps_met); and the same for EVERY conformant answer of the broker - any successful CONNACK the handshake '
          'accepts (either session-present value; any property list, in any order, with user properties; the acceptance condition is '
          'exact: C08_connack_accepted_iff), of any length, assembled by the packet reader on a behaving transport '
          '(C12_connect_succeeds_any, on top of the reader liveness lemma FillWhole.fill_whole and the framing invariant of C15; '
          'computed instance C12_connect_any_example). REFUTED for a full arena: C12_refuted_full_arena exhibits a reachable world (one unacknowledged '
          'PUBLISH in a 48-byte arena) in which connect() over a healthy transport to a conformant broker fails and leaves the '
          'arena as full as before (known finding K12). Tied to the code by a fault sweep (fail / zero / drop at every I/O index '
          'of generated histories, including rejected, garbled, illegal and missing CONNACKs) ending in a connect() to a conformant '
          'automatic broker, with a monitor that demands success, a whole CONNECT first, nothing partial carried over and a usable '
          'session.',
    note='The positive theorems assume a transport that accepts every write whole and delivers what has arrived (script []); '
         'arbitrary read fragmentation is covered by the framing theorems of C15 (the packet assembled is a function of the stream) '
         'and the correspondence sweep. Trusted: Coq kernel '
         'and VM (the refutation and the non-vacuity example are computed), model, extraction, harness incl. its conformant-broker '
         'mode, Python CONNACK conformance test. No axioms.')

PROPS['C15'] = dict(
    codec=[('reader', 600, 10000)],
    sess=[('py_c15s', 320, 3200)],
    twins=[('py_c15', 250, 4000)],
    events='', state=['ret', 'ctl', 'rel', 'srv', 'quota', 'h', 'conn', 'live', 'rb', 'pl', 'pid', 'gen'],
    monitors=[M.mon_c15_stream, M.mon_panic],
    twin_monitors=[M.twin_c15],
    title='behaviour does not depend on how the transport fragments reads and writes',
    claim='Proved in Coq for every stream and every fragmentation (no bound on lengths): the packet reader, driven by a transport '
          'that hands over any 1 <= cnt <= window bytes at each read, produces the same packets (length and decode), the same '
          'final reader state and the same unread rest — the big-step run relation is a function of (reader, stream), by a '
          'confluence argument on the body phase and the fact that the header phase asks for one byte at a time; the executable '
          'loop refines the relation; the pieces written from the recorded offset concatenate to the packet. At the level of the '
          'machine: in EVERY reachable world (any program, any script of read sizes down to one byte and splits inside the fixed '
          'header, read timing, faults, dropped futures, reconnects) the reader holds a prefix of the inbound byte stream no longer '
          'than the packet being assembled and its recorded length is what the stream\'s own header says '
          '(C15_reader_invariant_reachable); hence every packet the session handles is exactly the next frame of the stream, '
          'handling it consumes exactly that frame, and reads never change the stream (C15_handled_packet_is_next_frame, '
          'C15_frame_length_from_stream, C15_process_consumes_frame, C15_reads_conserve_stream): inbound framing is a function of '
          'the byte stream alone. Tied to the code by the '
          'reader hook (same stream, generated fragment lists) and by twin runs: the same program and inbound stream executed with '
          'whole and with randomly fragmented reads and writes (1, 2, 3, 5 bytes) on the implementation and on the model, comparing '
          'operation results, delivered messages and the outbound byte stream; and by pieces of one packet separated by a dropped '
          'or timed-out read (suite py_c15s), where the messages surfaced must be exactly the deliverable PUBLISH packets among the '
          'complete packets read (mon_c15_stream; a QoS 2 retransmission inside an open exchange is not deliverable, C04).',
    note='Inbound framing is proved for whole executions of the machine. Outbound (Owed.v): `owed`, a function of the queues '
         'alone, is what they still owe the wire; ONE engine step on ANY transport, whatever part of the packet it accepts, moves '
         'bytes from the front of owed to the end of the wire and changes nothing else (C15_engine_step_conserves: '
         'wire\' ++ owed\' = wire ++ owed); so a drain that comes to its end has written exactly owed for EVERY script of partial '
         'writes (C15_drain_writes_owed_any_fragmentation; C15_drain_writes_owed_every_state without any assumption on the '
         'keep-alive timers; both for transports whose writes take no virtual time - Calm, part of PQ - with arbitrary fragmentation; and '
         'C15_drain_every_transport with NO assumption on the script, slow writes - script kinds 4/5, time passing inside write() - included: '
         'a PINGREQ falling due in the middle of the drain joins behind the entry in progress, at most one joins, and the drain has written '
         'owed with at most one PINGREQ inserted) - the outbound byte stream is a function of the queues, not of the fragmentation. Partial only in that the equality of the RESULTS of two whole programs under different fragmentations '
         '(operations interleaved with inbound traffic and time) is checked on twin runs, not proved. '
         'Trusted: Coq kernel, model, extraction, harness, reader hook. No axioms.')

PROPS['C13'] = dict(
    sess=[('sweep_c13', 150, 3000), ('py_c01', 200, 2000), ('py_c16f', 150, 1500)],
    twins=[('py_c13', 1200, 12000)],
    events='wrf', state=['ret', 'ctl', 'rel', 'srv', 'quota', 'h', 'conn', 'live', 'rb', 'pl', 'pid', 'gen', 'cp'],
    monitors=[M.mon_c13, M.mon_c13_wire, M.mon_c13_flush, M.mon_panic],
    twin_monitors=[M.twin_c13],
    title='cancelling a cancel-safe operation loses, duplicates and corrupts nothing',
    claim='Proved in Coq: the unconsumed broker stream (reader buffer followed by the transport queue) is the same byte sequence '
          'after any read — delivered, dropped, timed out or failed (no inbound byte lost, duplicated or reordered by cancellation); '
          'a dropped engine step leaves the session untouched or records the step in full; a dropped publish/subscribe is either '
          'its dropped pre-flush alone (request not applied: no trace) or the request applied in full by a pure function followed '
          'by a dropped flush, and an applied request is in the arena. REFUTED for disconnect(): C13_disconnect_cancel_refuted '
          '(known finding K13d). The equality of a cancelled run (future dropped at a chosen I/O call after k calls accepting 1, 2, '
          '3 or all bytes, the dropped call repeated / followed by drive()) with its uncancelled twin — outbound packet sequence and '
          'delivered messages — is checked on the implementation and on the model by twin runs; from the transport calls alone: a flush that was pending when the future was dropped is issued again by the continuation (mon_c13_flush, suite py_c16f).',
    note='For the outbound drain the cancel-safety is a theorem (Sends.v): a drain dropped at any await point keeps wire ++ owed, the '
         'session invariants and the timers (C13_dropped_drain_conserves), and run again to its end it completes the byte stream as '
         'if never interrupted (C13_dropped_drain_resumes). Partial: run-to-run equality of whole operations (publish, subscribe, '
         'poll with inbound traffic) is checked, not proved. Trusted: Coq kernel and VM, model, extraction, harness, twin '
         'construction in lib/pygen.py (which consults the implementation to decide whether the dropped request had been enqueued). '
         'No axioms.')

PROPS['C16'] = dict(
    sess=[('drain_c16', 300, 5000), ('drain_base', 200, 4000), ('drain_c06', 150, 3000), ('drain_c03', 100, 2000), ('py_hist', 200, 3000), ('py_mixed', 200, 2000), ('py_c16f', 150, 1500)],
    events='wrf', state=['ret', 'ctl', 'rel', 'srv', 'quota', 'h', 'conn', 'live', 'pq', 'cp', 'gen'],
    monitors=[M.mon_c16, M.mon_c16_flush, M.mon_hist, M.mon_answered_released, M.mon_refused_too_large, M.mon_panic],
    title='with a responsive broker every accepted operation completes; the session quiesces',
    claim='Proved in Coq: a weight on the three outbound queues (per entry 2 + unwritten bytes while being written, 1 while awaiting '
          'its flush, 0 once sent) is strictly decreased by every write step and every flush step of the engine in every state '
          'satisfying the session invariant, which holds in every reachable world; at machine level every engine step that reports '
          'progress has strictly decreased the work of the session - so between two enqueues and within one connection the engine '
          'performs at most `work` steps, writes nothing for ever and nothing twice; poll()/recv() never return idle (only a message, '
          '"advanced", an error or a dropped future); an entry already sent on this connection is never picked again; a completed '
          'entry is flushed next; a flushed acknowledgement or PINGREQ leaves its queue. The loops themselves: on EVERY transport '
          '(any script of partial writes, faults, dropped futures) the engine loop of drive() and the flush loop inside publish / '
          'subscribe / unsubscribe end without exhausting their fuel once the fuel exceeds work + 5 (the 5 pays for the one '
          'PINGREQ that may be queued) - every iteration either leaves the loop or strictly lowers that measure, a step reporting '
          '"nothing done" cannot be selected (C16_drive_loop_terminates, C16_flush_outbound_terminates, C16_op_drive_terminates, '
          'with a computed example on a resumed connection). The outbound half of quiescence: on a behaving transport, a live '
          'connection without broker size limit and with no PINGREQ due, whose entries are unsent or awaiting their flush (as after every '
          '(re)connect) - one engine step takes the selected entry all the way (written whole, flushed, marked sent; never an error, '
          'a dropped future or a lost entry: C16_healthy_step) and drive() sends EVERYTHING queued - owed acknowledgements, pending '
          'PUBRELs, retained packets to replay - returning with every entry marked sent and the control queue empty '
          '(C16_drive_sends_all, C16_drained_all_sent, computed instance C16_healthy_example). Towards the broker: the packet reader on a behaving transport assembles '
          'exactly the packet whose bytes have arrived and stops (C16_reader_completes_arrived_packet, any length up to the receive '
          'buffer); poll() with nothing left to write and no timer pending reads precisely that packet '
          '(C16_poll_reads_arrived_packet); and one exchange end to end: a PUBACK that has arrived completes its QoS 1 publish in '
          'ONE poll() - read, decoded, the retained PUBLISH released with every other retained packet untouched, the quota slot '
          'returned, progress reported, still nothing to write (C16_poll_completes_puback, computed instance C16_puback_example). '
          'Histories of any length: `Idle` (healthy connection, no keep-alive, nothing queued, nothing half read, nothing in '
          'flight between client and broker) is re-established by a complete QoS 1, QoS 2, SUBSCRIBE or UNSUBSCRIBE exchange with '
          'the send window and the arena capacity unchanged; connect() of a client without keep-alive and with nothing in flight '
          'establishes it (first connection or resumed session, every configuration in which the CONNECT fits); an idle session '
          'accepts every valid request that fits - hence connect followed by ANY list of acknowledged requests, each with its '
          'poll() (two for QoS 2), completes every request and ends idle (C16_connect_then_history_completes, '
          'C16_history_completes_static, C16_exchange_idle_to_idle; hypotheses proved satisfiable). The conclusion of that theorem '
          'is also read off the implementation (suite py_hist, monitor mon_hist). The same with inbound QoS 0 messages arriving '
          'between the requests, in any order and number (Mixed.v: C16_mixed_history_completes, C16_message_idle; suite py_mixed). '
          'Quiescence of arbitrary backlogs is checked: every generated '
          'history (faults, cancellations, reconnects, small arenas, Receive Maximum pressure), followed by the benign continuation - '
          'transport healed, broker answering every packet including the CONNECT (session present iff no clean start), reconnect, 40 '
          'polls - must end live with no owed acknowledgement, no pending PUBREL, a publish-quiescent session and no pending handle; a '
          'poll that returns without a message must have made wire progress; an operation performing 50000 I/O calls (model: fuel) is '
          'reported as spinning; a request whose final acknowledgement was consumed, granting or refusing, is no longer retained '
          '(mon_answered_released).',
    note='Partial: termination of the engine loops is a theorem (strictly decreasing measure, no assumption on the transport); drive() sending everything queued on a behaving transport is a theorem (no broker size limit; C16_drive_sends_all_any_timer: also when a PINGREQ falls due), and what it writes is exactly what the queues owed (C16_drive_writes_owed); so is poll() handing an arrived packet to the session and a PUBACK completing its publish in one poll (no PINGREQ due); one whole QoS 1 exchange against the answering broker is a single theorem (Exchange.v, Exchange2.v, Exchange3.v: C16_publish_is_sent_and_answered, C16_qos1_exchange_completes, C16_qos2_exchange_completes, C16_subscribe_exchange_completes, C16_unsubscribe_exchange_completes - for QoS 2: publish, poll (PUBREC in, PUBREL out, PUBCOMP arrives), poll (PUBCOMP in) - publish() puts exactly the encoded PUBLISH on the wire, the broker reads it whole and answers with the PUBACK of its identifier, the next poll() completes the handle, returns the quota slot and leaves the session quiescent; C16_exchange_example / C16_exchange_hyps_met); that the answers to an arbitrary backlog (QoS 2, subscriptions, replays after reconnect) complete every handle within a bounded number of polls is a check over generated histories. '
         'Trusted: Coq kernel, model, extraction, harness with its healing action and automatic broker. No axioms. '
         'Known finding K12 (arena too full to reconnect) blocks the drain and is reported as KNOWN-FINDING.')

TRUSTED_BASE = [
    'Coq 8.16.1 kernel and its bytecode VM (vm_compute); native_compute is not used',
    'axioms: none (every property theorem is reported "Closed under the global context" by Print Assumptions)',
    'the hand-written Gallina model coq/theories/Model/*.v, including Spec.v (the reading of MQTT 5)',
    'extraction with ExtrOcamlBasic only (Extract Inductive bool, option, unit, list, prod, sumbool, sumor; no '
    'Extract Constant), OCaml 4.13.1 ocamlopt, ocaml/driver.ml (integer line parser, byte printer)',
    'the correspondence check: Rust harness (scripted transport, virtual clock, executor, generators), the '
    'cfg(minimq_verif) hooks in /repo, lib/*.py (diff, trace monitors, independent Python MQTT parser)',
    'rustc/cargo and the dependency crates as far as the harness observes the implementation through them',
]

ASSUMPTIONS = [
    'transport futures are cancel-safe and obey the embedded-io contract',
    'usize has at least 32 bits; the u32 session generation does not wrap',
    'the executor polls a woken future; virtual time only takes whole-millisecond values',
    'debug-profile semantics for debug_assert!/overflow checks (the harness is built with both enabled)',
]

NOT_YET = {}
