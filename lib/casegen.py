"""A small Python DSL for writing session cases (token lines) by hand: corpus witnesses and directed cases."""


def vb(n):
    out = bytearray()
    while True:
        b = n % 128
        n //= 128
        if n:
            b |= 0x80
        out.append(b)
        if not n:
            return bytes(out)


def pkt(first, body):
    return bytes([first]) + vb(len(body)) + bytes(body)


def lp(b):
    return bytes([len(b) >> 8, len(b) & 255]) + bytes(b)


PROP_IDS = [1, 2, 3, 8, 9, 11, 17, 18, 19, 21, 22, 23, 24, 25, 26, 28, 31, 33, 34, 35, 36, 37, 38, 39, 40, 41, 42]
SHAPE = {1: 'b', 2: '4', 3: 's', 8: 's', 9: 'd', 11: 'v', 17: '4', 18: 's', 19: '2', 21: 's', 22: 'd', 23: 'b',
         24: '4', 25: 'b', 26: 's', 28: 's', 31: 's', 33: '2', 34: '2', 35: '2', 36: 'b', 37: 'b', 38: 'p',
         39: '4', 40: 'b', 41: 'b', 42: 'b'}


def enc_props(ps):
    """ps: list of (property id, value)"""
    body = bytearray()
    for pid, v in ps:
        body += vb(pid)
        sh = SHAPE[pid]
        if sh == 'b':
            body.append(v)
        elif sh == '2':
            body += v.to_bytes(2, 'big')
        elif sh == '4':
            body += v.to_bytes(4, 'big')
        elif sh == 'v':
            body += vb(v)
        elif sh in 'sd':
            body += lp(v)
        else:
            body += lp(v[0]) + lp(v[1])
    return vb(len(body)) + bytes(body)


def connack(sp=0, rc=0, props=()):
    return pkt(0x20, bytes([sp, rc]) + enc_props(props))


def ack(typ, pid, rc=None):
    body = pid.to_bytes(2, 'big') + (bytes([rc]) if rc is not None else b'')
    return pkt((typ << 4) | (2 if typ == 6 else 0), body)


def suback(pid, codes=(0,), typ=9):
    return pkt(typ << 4, pid.to_bytes(2, 'big') + b'\x00' + bytes(codes))


def publish(qos, pid, topic, payload, props=(), dup=False, retain=False):
    body = lp(topic) + (pid.to_bytes(2, 'big') if qos else b'') + enc_props(props) + bytes(payload)
    return pkt(0x30 | (qos << 1) | (8 if dup else 0) | (1 if retain else 0), body)


PINGRESP = bytes([0xD0, 0])


def tb(b):
    return [len(b)] + list(b)


def tprop(pid, v):
    k = PROP_IDS.index(pid)
    sh = SHAPE[pid]
    if sh in 'b24v':
        return [k, v, 0, 0]
    if sh in 'sd':
        return [k, 0] + tb(v) + [0]
    return [k, 0] + tb(v[0]) + tb(v[1])


def tprops(ps):
    out = [len(ps)]
    for pid, v in ps:
        out += tprop(pid, v)
    return out


class Case:
    def __init__(self, rx=64, tx=256, cid=b't', ka=0, expiry=0, downgrade=False):
        self.cfg = [rx, tx] + tb(cid) + [ka, expiry, int(downgrade), 0, 0]
        self.actions = []
        self.script = []

    def connect(self, *chunks):
        """chunks: bytes or (delay, bytes)"""
        cs = [(0, c) if isinstance(c, (bytes, bytearray)) else c for c in chunks]
        a = [0, len(cs)]
        for d, b in cs:
            a += [d] + tb(b)
        self.actions.append(a)
        return self

    def publish(self, topic=b'a', payload=b'', qos=0, props=(), corr=None, retain=False):
        a = [1] + tb(topic) + ([0] if corr is None else [1] + tb(corr)) + tprops(props) + [qos] + tb(payload) + [int(retain)]
        self.actions.append(a)
        return self

    def subscribe(self, topics=((b'a', 0),), props=()):
        a = [2] + tprops(props) + [len(topics)]
        for t in topics:
            name, q = t[0], t[1]
            a += tb(name) + [q, 0, 0, 0]
        self.actions.append(a)
        return self

    def unsubscribe(self, topics=(b'a',), props=()):
        a = [3] + tprops(props) + [len(topics)]
        for t in topics:
            a += tb(t)
        self.actions.append(a)
        return self

    def disconnect(self, reason=None, props=None):
        a = [4] + ([0] if reason is None else [1, reason]) + ([0] if props is None else [1] + tprops(props))
        self.actions.append(a)
        return self

    def drive(self):
        self.actions.append([5]); return self

    def poll(self, n=1):
        for _ in range(n):
            self.actions.append([6])
        return self

    def recv(self):
        self.actions.append([7]); return self

    def feed(self, b, delay=0):
        self.actions.append([8, delay] + tb(b)); return self

    def advance(self, dt):
        self.actions.append([9, dt]); return self

    def drop(self):
        self.actions.append([10]); return self

    def hd(self):
        self.actions.append([11]); return self

    def broker(self, mode=1):
        self.actions.append([12, mode]); return self

    def setpid(self, pid):
        self.actions.append([13, pid]); return self

    def ev(self, *evs):
        """script elements (kind, amount)"""
        self.script += list(evs); return self

    def line(self):
        t = [10] + self.cfg + [len(self.actions)]
        for a in self.actions:
            t += a
        t += [len(self.script)]
        for k, a in self.script:
            t += [k, a]
        return ' '.join(str(x) for x in t)
