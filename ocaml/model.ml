
(** val negb : bool -> bool **)

let negb = function
| true -> false
| false -> true

type nat =
| O
| S of nat

(** val fst : ('a1 * 'a2) -> 'a1 **)

let fst = function
| (x, _) -> x

(** val snd : ('a1 * 'a2) -> 'a2 **)

let snd = function
| (_, y) -> y

(** val length : 'a1 list -> nat **)

let rec length = function
| [] -> O
| _ :: l' -> S (length l')

(** val app : 'a1 list -> 'a1 list -> 'a1 list **)

let rec app l m =
  match l with
  | [] -> m
  | a :: l1 -> a :: (app l1 m)

type comparison =
| Eq
| Lt
| Gt

module Coq__1 = struct
 (** val add : nat -> nat -> nat **)
 let rec add n0 m =
   match n0 with
   | O -> m
   | S p -> S (add p m)
end
include Coq__1

(** val mul : nat -> nat -> nat **)

let rec mul n0 m =
  match n0 with
  | O -> O
  | S p -> add m (mul p m)

type positive =
| XI of positive
| XO of positive
| XH

type n =
| N0
| Npos of positive

module Pos =
 struct
  type mask =
  | IsNul
  | IsPos of positive
  | IsNeg
 end

module Coq_Pos =
 struct
  (** val succ : positive -> positive **)

  let rec succ = function
  | XI p -> XO (succ p)
  | XO p -> XI p
  | XH -> XO XH

  (** val add : positive -> positive -> positive **)

  let rec add x y =
    match x with
    | XI p ->
      (match y with
       | XI q -> XO (add_carry p q)
       | XO q -> XI (add p q)
       | XH -> XO (succ p))
    | XO p ->
      (match y with
       | XI q -> XI (add p q)
       | XO q -> XO (add p q)
       | XH -> XI p)
    | XH -> (match y with
             | XI q -> XO (succ q)
             | XO q -> XI q
             | XH -> XO XH)

  (** val add_carry : positive -> positive -> positive **)

  and add_carry x y =
    match x with
    | XI p ->
      (match y with
       | XI q -> XI (add_carry p q)
       | XO q -> XO (add_carry p q)
       | XH -> XI (succ p))
    | XO p ->
      (match y with
       | XI q -> XO (add_carry p q)
       | XO q -> XI (add p q)
       | XH -> XO (succ p))
    | XH ->
      (match y with
       | XI q -> XI (succ q)
       | XO q -> XO (succ q)
       | XH -> XI XH)

  (** val pred_double : positive -> positive **)

  let rec pred_double = function
  | XI p -> XI (XO p)
  | XO p -> XI (pred_double p)
  | XH -> XH

  (** val pred_N : positive -> n **)

  let pred_N = function
  | XI p -> Npos (XO p)
  | XO p -> Npos (pred_double p)
  | XH -> N0

  type mask = Pos.mask =
  | IsNul
  | IsPos of positive
  | IsNeg

  (** val succ_double_mask : mask -> mask **)

  let succ_double_mask = function
  | IsNul -> IsPos XH
  | IsPos p -> IsPos (XI p)
  | IsNeg -> IsNeg

  (** val double_mask : mask -> mask **)

  let double_mask = function
  | IsPos p -> IsPos (XO p)
  | x0 -> x0

  (** val double_pred_mask : positive -> mask **)

  let double_pred_mask = function
  | XI p -> IsPos (XO (XO p))
  | XO p -> IsPos (XO (pred_double p))
  | XH -> IsNul

  (** val sub_mask : positive -> positive -> mask **)

  let rec sub_mask x y =
    match x with
    | XI p ->
      (match y with
       | XI q -> double_mask (sub_mask p q)
       | XO q -> succ_double_mask (sub_mask p q)
       | XH -> IsPos (XO p))
    | XO p ->
      (match y with
       | XI q -> succ_double_mask (sub_mask_carry p q)
       | XO q -> double_mask (sub_mask p q)
       | XH -> IsPos (pred_double p))
    | XH -> (match y with
             | XH -> IsNul
             | _ -> IsNeg)

  (** val sub_mask_carry : positive -> positive -> mask **)

  and sub_mask_carry x y =
    match x with
    | XI p ->
      (match y with
       | XI q -> succ_double_mask (sub_mask_carry p q)
       | XO q -> double_mask (sub_mask p q)
       | XH -> IsPos (pred_double p))
    | XO p ->
      (match y with
       | XI q -> double_mask (sub_mask_carry p q)
       | XO q -> succ_double_mask (sub_mask_carry p q)
       | XH -> double_pred_mask p)
    | XH -> IsNeg

  (** val mul : positive -> positive -> positive **)

  let rec mul x y =
    match x with
    | XI p -> add y (XO (mul p y))
    | XO p -> XO (mul p y)
    | XH -> y

  (** val iter : ('a1 -> 'a1) -> 'a1 -> positive -> 'a1 **)

  let rec iter f x = function
  | XI n' -> f (iter f (iter f x n') n')
  | XO n' -> iter f (iter f x n') n'
  | XH -> f x

  (** val pow : positive -> positive -> positive **)

  let pow x =
    iter (mul x) XH

  (** val size_nat : positive -> nat **)

  let rec size_nat = function
  | XI p0 -> S (size_nat p0)
  | XO p0 -> S (size_nat p0)
  | XH -> S O

  (** val compare_cont : comparison -> positive -> positive -> comparison **)

  let rec compare_cont r x y =
    match x with
    | XI p ->
      (match y with
       | XI q -> compare_cont r p q
       | XO q -> compare_cont Gt p q
       | XH -> Gt)
    | XO p ->
      (match y with
       | XI q -> compare_cont Lt p q
       | XO q -> compare_cont r p q
       | XH -> Gt)
    | XH -> (match y with
             | XH -> r
             | _ -> Lt)

  (** val compare : positive -> positive -> comparison **)

  let compare =
    compare_cont Eq

  (** val eqb : positive -> positive -> bool **)

  let rec eqb p q =
    match p with
    | XI p0 -> (match q with
                | XI q0 -> eqb p0 q0
                | _ -> false)
    | XO p0 -> (match q with
                | XO q0 -> eqb p0 q0
                | _ -> false)
    | XH -> (match q with
             | XH -> true
             | _ -> false)

  (** val iter_op : ('a1 -> 'a1 -> 'a1) -> positive -> 'a1 -> 'a1 **)

  let rec iter_op op p a =
    match p with
    | XI p0 -> op a (iter_op op p0 (op a a))
    | XO p0 -> iter_op op p0 (op a a)
    | XH -> a

  (** val to_nat : positive -> nat **)

  let to_nat x =
    iter_op Coq__1.add x (S O)
 end

module N =
 struct
  (** val succ_double : n -> n **)

  let succ_double = function
  | N0 -> Npos XH
  | Npos p -> Npos (XI p)

  (** val double : n -> n **)

  let double = function
  | N0 -> N0
  | Npos p -> Npos (XO p)

  (** val succ : n -> n **)

  let succ = function
  | N0 -> Npos XH
  | Npos p -> Npos (Coq_Pos.succ p)

  (** val pred : n -> n **)

  let pred = function
  | N0 -> N0
  | Npos p -> Coq_Pos.pred_N p

  (** val add : n -> n -> n **)

  let add n0 m =
    match n0 with
    | N0 -> m
    | Npos p -> (match m with
                 | N0 -> n0
                 | Npos q -> Npos (Coq_Pos.add p q))

  (** val sub : n -> n -> n **)

  let sub n0 m =
    match n0 with
    | N0 -> N0
    | Npos n' ->
      (match m with
       | N0 -> n0
       | Npos m' ->
         (match Coq_Pos.sub_mask n' m' with
          | Coq_Pos.IsPos p -> Npos p
          | _ -> N0))

  (** val mul : n -> n -> n **)

  let mul n0 m =
    match n0 with
    | N0 -> N0
    | Npos p -> (match m with
                 | N0 -> N0
                 | Npos q -> Npos (Coq_Pos.mul p q))

  (** val compare : n -> n -> comparison **)

  let compare n0 m =
    match n0 with
    | N0 -> (match m with
             | N0 -> Eq
             | Npos _ -> Lt)
    | Npos n' -> (match m with
                  | N0 -> Gt
                  | Npos m' -> Coq_Pos.compare n' m')

  (** val eqb : n -> n -> bool **)

  let eqb n0 m =
    match n0 with
    | N0 -> (match m with
             | N0 -> true
             | Npos _ -> false)
    | Npos p -> (match m with
                 | N0 -> false
                 | Npos q -> Coq_Pos.eqb p q)

  (** val leb : n -> n -> bool **)

  let leb x y =
    match compare x y with
    | Gt -> false
    | _ -> true

  (** val ltb : n -> n -> bool **)

  let ltb x y =
    match compare x y with
    | Lt -> true
    | _ -> false

  (** val min : n -> n -> n **)

  let min n0 n' =
    match compare n0 n' with
    | Gt -> n'
    | _ -> n0

  (** val max : n -> n -> n **)

  let max n0 n' =
    match compare n0 n' with
    | Gt -> n0
    | _ -> n'

  (** val div2 : n -> n **)

  let div2 = function
  | N0 -> N0
  | Npos p0 -> (match p0 with
                | XI p -> Npos p
                | XO p -> Npos p
                | XH -> N0)

  (** val even : n -> bool **)

  let even = function
  | N0 -> true
  | Npos p -> (match p with
               | XO _ -> true
               | _ -> false)

  (** val odd : n -> bool **)

  let odd n0 =
    negb (even n0)

  (** val pow : n -> n -> n **)

  let pow n0 = function
  | N0 -> Npos XH
  | Npos p0 -> (match n0 with
                | N0 -> N0
                | Npos q -> Npos (Coq_Pos.pow q p0))

  (** val size_nat : n -> nat **)

  let size_nat = function
  | N0 -> O
  | Npos p -> Coq_Pos.size_nat p

  (** val pos_div_eucl : positive -> n -> n * n **)

  let rec pos_div_eucl a b =
    match a with
    | XI a' ->
      let (q, r) = pos_div_eucl a' b in
      let r' = succ_double r in
      if leb b r' then ((succ_double q), (sub r' b)) else ((double q), r')
    | XO a' ->
      let (q, r) = pos_div_eucl a' b in
      let r' = double r in
      if leb b r' then ((succ_double q), (sub r' b)) else ((double q), r')
    | XH ->
      (match b with
       | N0 -> (N0, (Npos XH))
       | Npos p -> (match p with
                    | XH -> ((Npos XH), N0)
                    | _ -> (N0, (Npos XH))))

  (** val div_eucl : n -> n -> n * n **)

  let div_eucl a b =
    match a with
    | N0 -> (N0, N0)
    | Npos na -> (match b with
                  | N0 -> (N0, a)
                  | Npos _ -> pos_div_eucl na b)

  (** val div : n -> n -> n **)

  let div a b =
    fst (div_eucl a b)

  (** val modulo : n -> n -> n **)

  let modulo a b =
    snd (div_eucl a b)

  (** val shiftr : n -> n -> n **)

  let shiftr a = function
  | N0 -> a
  | Npos p -> Coq_Pos.iter div2 a p

  (** val to_nat : n -> nat **)

  let to_nat = function
  | N0 -> O
  | Npos p -> Coq_Pos.to_nat p
 end

(** val tl : 'a1 list -> 'a1 list **)

let tl = function
| [] -> []
| _ :: m -> m

(** val nth_error : 'a1 list -> nat -> 'a1 option **)

let rec nth_error l = function
| O -> (match l with
        | [] -> None
        | x :: _ -> Some x)
| S n1 -> (match l with
           | [] -> None
           | _ :: l0 -> nth_error l0 n1)

(** val map : ('a1 -> 'a2) -> 'a1 list -> 'a2 list **)

let rec map f = function
| [] -> []
| a :: t -> (f a) :: (map f t)

(** val flat_map : ('a1 -> 'a2 list) -> 'a1 list -> 'a2 list **)

let rec flat_map f = function
| [] -> []
| x :: t -> app (f x) (flat_map f t)

(** val find : ('a1 -> bool) -> 'a1 list -> 'a1 option **)

let rec find f = function
| [] -> None
| x :: tl0 -> if f x then Some x else find f tl0

type ascii =
| Ascii of bool * bool * bool * bool * bool * bool * bool * bool

(** val n_of_digits : bool list -> n **)

let rec n_of_digits = function
| [] -> N0
| b :: l' ->
  N.add (if b then Npos XH else N0) (N.mul (Npos (XO XH)) (n_of_digits l'))

(** val n_of_ascii : ascii -> n **)

let n_of_ascii = function
| Ascii (a0, a1, a2, a3, a4, a5, a6, a7) ->
  n_of_digits
    (a0 :: (a1 :: (a2 :: (a3 :: (a4 :: (a5 :: (a6 :: (a7 :: []))))))))

type string =
| EmptyString
| String of ascii * string

type bytes = n list

(** val lenN_acc : bytes -> n -> n **)

let rec lenN_acc l acc =
  match l with
  | [] -> acc
  | _ :: t -> lenN_acc t (N.succ acc)

(** val lenN : bytes -> n **)

let lenN l =
  lenN_acc l N0

(** val takeN : n -> 'a1 list -> 'a1 list **)

let rec takeN n0 = function
| [] -> []
| x :: t -> if N.eqb n0 N0 then [] else x :: (takeN (N.pred n0) t)

(** val dropN : n -> 'a1 list -> 'a1 list **)

let rec dropN n0 l = match l with
| [] -> []
| _ :: t -> if N.eqb n0 N0 then l else dropN (N.pred n0) t

(** val u16_be : n -> bytes **)

let u16_be v =
  (N.modulo (N.shiftr v (Npos (XO (XO (XO XH))))) (Npos (XO (XO (XO (XO (XO
    (XO (XO (XO XH)))))))))) :: ((N.modulo v (Npos (XO (XO (XO (XO (XO (XO
                                   (XO (XO XH)))))))))) :: [])

(** val u32_be : n -> bytes **)

let u32_be v =
  (N.modulo (N.shiftr v (Npos (XO (XO (XO (XI XH)))))) (Npos (XO (XO (XO (XO
    (XO (XO (XO (XO XH)))))))))) :: ((N.modulo
                                       (N.shiftr v (Npos (XO (XO (XO (XO
                                         XH)))))) (Npos (XO (XO (XO (XO (XO
                                       (XO (XO (XO XH)))))))))) :: ((N.modulo
                                                                    (N.shiftr
                                                                    v (Npos
                                                                    (XO (XO
                                                                    (XO
                                                                    XH)))))
                                                                    (Npos (XO
                                                                    (XO (XO
                                                                    (XO (XO
                                                                    (XO (XO
                                                                    (XO
                                                                    XH)))))))))) :: (
    (N.modulo v (Npos (XO (XO (XO (XO (XO (XO (XO (XO XH)))))))))) :: [])))

(** val sumN : n list -> n **)

let rec sumN = function
| [] -> N0
| x :: t -> N.add x (sumN t)

(** val vARINT_MAX : n **)

let vARINT_MAX =
  Npos (XI (XI (XI (XI (XI (XI (XI (XI (XI (XI (XI (XI (XI (XI (XI (XI (XI
    (XI (XI (XI (XI (XI (XI (XI (XI (XI (XI XH)))))))))))))))))))))))))))

(** val varint_len : n -> n **)

let varint_len v =
  if N.leb v (Npos (XI (XI (XI (XI (XI (XI XH)))))))
  then Npos XH
  else if N.leb v (Npos (XI (XI (XI (XI (XI (XI (XI (XI (XI (XI (XI (XI (XI
            XH))))))))))))))
       then Npos (XO XH)
       else if N.leb v (Npos (XI (XI (XI (XI (XI (XI (XI (XI (XI (XI (XI (XI
                 (XI (XI (XI (XI (XI (XI (XI (XI XH)))))))))))))))))))))
            then Npos (XI XH)
            else Npos (XO (XO XH))

(** val varint_write_fuel : nat -> n -> bytes **)

let rec varint_write_fuel fuel v =
  match fuel with
  | O -> []
  | S f ->
    let b = N.modulo v (Npos (XO (XO (XO (XO (XO (XO (XO XH)))))))) in
    let v' = N.div v (Npos (XO (XO (XO (XO (XO (XO (XO XH)))))))) in
    if N.eqb v' N0
    then b :: []
    else (N.add b (Npos (XO (XO (XO (XO (XO (XO (XO XH))))))))) :: (varint_write_fuel
                                                                    f v')

(** val varint_write : n -> bytes option **)

let varint_write v =
  if N.ltb vARINT_MAX v
  then None
  else Some (varint_write_fuel (S (S (S (S O)))) v)

type vres =
| VOk of n * bytes
| VErrShort
| VErrBad

(** val varint_read_go : n list -> n -> bytes -> vres **)

let rec varint_read_go shifts value l =
  match shifts with
  | [] -> VErrBad
  | shift :: more ->
    (match l with
     | [] -> VErrShort
     | b :: t ->
       let part = N.modulo b (Npos (XO (XO (XO (XO (XO (XO (XO XH)))))))) in
       if (&&) (N.eqb shift (Npos (XI (XO (XI (XO XH))))))
            (N.ltb (Npos (XI (XI (XI XH)))) part)
       then VErrBad
       else let value' = N.add value (N.mul part (N.pow (Npos (XO XH)) shift))
            in
            if N.ltb b (Npos (XO (XO (XO (XO (XO (XO (XO XH))))))))
            then if (&&) (negb (N.eqb shift N0)) (N.eqb part N0)
                 then VErrBad
                 else VOk (value', t)
            else varint_read_go more value' t)

(** val varint_read : bytes -> vres **)

let varint_read l =
  varint_read_go (N0 :: ((Npos (XI (XI XH))) :: ((Npos (XO (XI (XI
    XH)))) :: ((Npos (XI (XO (XI (XO XH))))) :: [])))) N0 l

(** val probe_go : n -> nat -> n -> bytes -> n option **)

let rec probe_go idx cnt acc l =
  match cnt with
  | O -> None
  | S c ->
    (match l with
     | [] -> None
     | b :: t ->
       let acc' =
         N.add acc
           (N.mul (N.modulo b (Npos (XO (XO (XO (XO (XO (XO (XO XH)))))))))
             (N.pow (Npos (XO XH)) (N.mul idx (Npos (XI (XI XH))))))
       in
       if N.ltb b (Npos (XO (XO (XO (XO (XO (XO (XO XH))))))))
       then Some (N.add (N.add (Npos XH) (N.add (Npos XH) idx)) acc')
       else probe_go (N.add idx (Npos XH)) c acc' t)

(** val probe_len : bytes -> n option **)

let probe_len after_first =
  probe_go N0 (S (S (S (S O)))) N0 after_first

(** val inr : n -> n -> n -> bool **)

let inr lo hi b =
  (&&) (N.leb lo b) (N.leb b hi)

(** val cont : n -> bool **)

let cont b =
  inr (Npos (XO (XO (XO (XO (XO (XO (XO XH)))))))) (Npos (XI (XI (XI (XI (XI
    (XI (XO XH)))))))) b

(** val utf8_valid_fuel : nat -> bytes -> bool **)

let rec utf8_valid_fuel fuel l =
  match fuel with
  | O -> false
  | S f ->
    (match l with
     | [] -> true
     | b0 :: t ->
       if N.ltb b0 (Npos (XO (XO (XO (XO (XO (XO (XO XH))))))))
       then utf8_valid_fuel f t
       else if inr (Npos (XO (XI (XO (XO (XO (XO (XI XH)))))))) (Npos (XI (XI
                 (XI (XI (XI (XO (XI XH)))))))) b0
            then (match t with
                  | [] -> false
                  | b1 :: t' -> (&&) (cont b1) (utf8_valid_fuel f t'))
            else if N.eqb b0 (Npos (XO (XO (XO (XO (XO (XI (XI XH))))))))
                 then (match t with
                       | [] -> false
                       | b1 :: l0 ->
                         (match l0 with
                          | [] -> false
                          | b2 :: t' ->
                            (&&)
                              ((&&)
                                (inr (Npos (XO (XO (XO (XO (XO (XI (XO
                                  XH)))))))) (Npos (XI (XI (XI (XI (XI (XI
                                  (XO XH)))))))) b1) (cont b2))
                              (utf8_valid_fuel f t')))
                 else if (||)
                           (inr (Npos (XI (XO (XO (XO (XO (XI (XI XH))))))))
                             (Npos (XO (XO (XI (XI (XO (XI (XI XH)))))))) b0)
                           (inr (Npos (XO (XI (XI (XI (XO (XI (XI XH))))))))
                             (Npos (XI (XI (XI (XI (XO (XI (XI XH)))))))) b0)
                      then (match t with
                            | [] -> false
                            | b1 :: l0 ->
                              (match l0 with
                               | [] -> false
                               | b2 :: t' ->
                                 (&&) ((&&) (cont b1) (cont b2))
                                   (utf8_valid_fuel f t')))
                      else if N.eqb b0 (Npos (XI (XO (XI (XI (XO (XI (XI
                                XH))))))))
                           then (match t with
                                 | [] -> false
                                 | b1 :: l0 ->
                                   (match l0 with
                                    | [] -> false
                                    | b2 :: t' ->
                                      (&&)
                                        ((&&)
                                          (inr (Npos (XO (XO (XO (XO (XO (XO
                                            (XO XH)))))))) (Npos (XI (XI (XI
                                            (XI (XI (XO (XO XH)))))))) b1)
                                          (cont b2)) (utf8_valid_fuel f t')))
                           else if N.eqb b0 (Npos (XO (XO (XO (XO (XI (XI (XI
                                     XH))))))))
                                then (match t with
                                      | [] -> false
                                      | b1 :: l0 ->
                                        (match l0 with
                                         | [] -> false
                                         | b2 :: l1 ->
                                           (match l1 with
                                            | [] -> false
                                            | b3 :: t' ->
                                              (&&)
                                                ((&&)
                                                  ((&&)
                                                    (inr (Npos (XO (XO (XO
                                                      (XO (XI (XO (XO
                                                      XH)))))))) (Npos (XI
                                                      (XI (XI (XI (XI (XI (XO
                                                      XH)))))))) b1)
                                                    (cont b2)) (cont b3))
                                                (utf8_valid_fuel f t'))))
                                else if inr (Npos (XI (XO (XO (XO (XI (XI (XI
                                          XH)))))))) (Npos (XI (XI (XO (XO
                                          (XI (XI (XI XH)))))))) b0
                                     then (match t with
                                           | [] -> false
                                           | b1 :: l0 ->
                                             (match l0 with
                                              | [] -> false
                                              | b2 :: l1 ->
                                                (match l1 with
                                                 | [] -> false
                                                 | b3 :: t' ->
                                                   (&&)
                                                     ((&&)
                                                       ((&&) (cont b1)
                                                         (cont b2)) (cont b3))
                                                     (utf8_valid_fuel f t'))))
                                     else if N.eqb b0 (Npos (XO (XO (XI (XO
                                               (XI (XI (XI XH))))))))
                                          then (match t with
                                                | [] -> false
                                                | b1 :: l0 ->
                                                  (match l0 with
                                                   | [] -> false
                                                   | b2 :: l1 ->
                                                     (match l1 with
                                                      | [] -> false
                                                      | b3 :: t' ->
                                                        (&&)
                                                          ((&&)
                                                            ((&&)
                                                              (inr (Npos (XO
                                                                (XO (XO (XO
                                                                (XO (XO (XO
                                                                XH))))))))
                                                                (Npos (XI (XI
                                                                (XI (XI (XO
                                                                (XO (XO
                                                                XH)))))))) b1)
                                                              (cont b2))
                                                            (cont b3))
                                                          (utf8_valid_fuel f
                                                            t'))))
                                          else false)

(** val utf8_valid : bytes -> bool **)

let utf8_valid l =
  utf8_valid_fuel (S (length l)) l

type pkind =
| KPayloadFormatIndicator
| KMessageExpiryInterval
| KContentType
| KResponseTopic
| KCorrelationData
| KSubscriptionIdentifier
| KSessionExpiryInterval
| KAssignedClientIdentifier
| KServerKeepAlive
| KAuthenticationMethod
| KAuthenticationData
| KRequestProblemInformation
| KWillDelayInterval
| KRequestResponseInformation
| KResponseInformation
| KServerReference
| KReasonString
| KReceiveMaximum
| KTopicAliasMaximum
| KTopicAlias
| KMaximumQoS
| KRetainAvailable
| KUserProperty
| KMaximumPacketSize
| KWildcardSubscriptionAvailable
| KSubscriptionIdentifierAvailable
| KSharedSubscriptionAvailable

(** val all_kinds : pkind list **)

let all_kinds =
  KPayloadFormatIndicator :: (KMessageExpiryInterval :: (KContentType :: (KResponseTopic :: (KCorrelationData :: (KSubscriptionIdentifier :: (KSessionExpiryInterval :: (KAssignedClientIdentifier :: (KServerKeepAlive :: (KAuthenticationMethod :: (KAuthenticationData :: (KRequestProblemInformation :: (KWillDelayInterval :: (KRequestResponseInformation :: (KResponseInformation :: (KServerReference :: (KReasonString :: (KReceiveMaximum :: (KTopicAliasMaximum :: (KTopicAlias :: (KMaximumQoS :: (KRetainAvailable :: (KUserProperty :: (KMaximumPacketSize :: (KWildcardSubscriptionAvailable :: (KSubscriptionIdentifierAvailable :: (KSharedSubscriptionAvailable :: []))))))))))))))))))))))))))

(** val kind_id : pkind -> n **)

let kind_id = function
| KPayloadFormatIndicator -> Npos XH
| KMessageExpiryInterval -> Npos (XO XH)
| KContentType -> Npos (XI XH)
| KResponseTopic -> Npos (XO (XO (XO XH)))
| KCorrelationData -> Npos (XI (XO (XO XH)))
| KSubscriptionIdentifier -> Npos (XI (XI (XO XH)))
| KSessionExpiryInterval -> Npos (XI (XO (XO (XO XH))))
| KAssignedClientIdentifier -> Npos (XO (XI (XO (XO XH))))
| KServerKeepAlive -> Npos (XI (XI (XO (XO XH))))
| KAuthenticationMethod -> Npos (XI (XO (XI (XO XH))))
| KAuthenticationData -> Npos (XO (XI (XI (XO XH))))
| KRequestProblemInformation -> Npos (XI (XI (XI (XO XH))))
| KWillDelayInterval -> Npos (XO (XO (XO (XI XH))))
| KRequestResponseInformation -> Npos (XI (XO (XO (XI XH))))
| KResponseInformation -> Npos (XO (XI (XO (XI XH))))
| KServerReference -> Npos (XO (XO (XI (XI XH))))
| KReasonString -> Npos (XI (XI (XI (XI XH))))
| KReceiveMaximum -> Npos (XI (XO (XO (XO (XO XH)))))
| KTopicAliasMaximum -> Npos (XO (XI (XO (XO (XO XH)))))
| KTopicAlias -> Npos (XI (XI (XO (XO (XO XH)))))
| KMaximumQoS -> Npos (XO (XO (XI (XO (XO XH)))))
| KRetainAvailable -> Npos (XI (XO (XI (XO (XO XH)))))
| KUserProperty -> Npos (XO (XI (XI (XO (XO XH)))))
| KMaximumPacketSize -> Npos (XI (XI (XI (XO (XO XH)))))
| KWildcardSubscriptionAvailable -> Npos (XO (XO (XO (XI (XO XH)))))
| KSubscriptionIdentifierAvailable -> Npos (XI (XO (XO (XI (XO XH)))))
| KSharedSubscriptionAvailable -> Npos (XO (XI (XO (XI (XO XH)))))

(** val kind_of_id : n -> pkind option **)

let kind_of_id i =
  find (fun k -> N.eqb (kind_id k) i) all_kinds

type vshape =
| ShU8
| ShU16
| ShU32
| ShVar
| ShStr
| ShBin
| ShPair

(** val kind_shape : pkind -> vshape **)

let kind_shape = function
| KMessageExpiryInterval -> ShU32
| KContentType -> ShStr
| KResponseTopic -> ShStr
| KCorrelationData -> ShBin
| KSubscriptionIdentifier -> ShVar
| KSessionExpiryInterval -> ShU32
| KAssignedClientIdentifier -> ShStr
| KServerKeepAlive -> ShU16
| KAuthenticationMethod -> ShStr
| KAuthenticationData -> ShBin
| KWillDelayInterval -> ShU32
| KResponseInformation -> ShStr
| KServerReference -> ShStr
| KReasonString -> ShStr
| KReceiveMaximum -> ShU16
| KTopicAliasMaximum -> ShU16
| KTopicAlias -> ShU16
| KUserProperty -> ShPair
| KMaximumPacketSize -> ShU32
| _ -> ShU8

type prop = { pk : pkind; pnum : n; pdata : bytes; pdata2 : bytes }

type pctx =
| CtxPublish
| CtxSubscribe
| CtxUnsubscribe
| CtxDisconnect
| CtxWill

(** val all_ctx : pctx list **)

let all_ctx =
  CtxPublish :: (CtxSubscribe :: (CtxUnsubscribe :: (CtxDisconnect :: (CtxWill :: []))))

(** val has_valid_value : prop -> bool **)

let has_valid_value p =
  match p.pk with
  | KPayloadFormatIndicator -> N.leb p.pnum (Npos XH)
  | KSubscriptionIdentifier ->
    (&&) (N.leb (Npos XH) p.pnum) (N.leb p.pnum vARINT_MAX)
  | KRequestProblemInformation -> N.leb p.pnum (Npos XH)
  | KRequestResponseInformation -> N.leb p.pnum (Npos XH)
  | KTopicAlias -> negb (N.eqb p.pnum N0)
  | KMaximumQoS -> N.leb p.pnum (Npos (XO XH))
  | KRetainAvailable -> N.leb p.pnum (Npos XH)
  | KWildcardSubscriptionAvailable -> N.leb p.pnum (Npos XH)
  | KSubscriptionIdentifierAvailable -> N.leb p.pnum (Npos XH)
  | KSharedSubscriptionAvailable -> N.leb p.pnum (Npos XH)
  | _ -> true

(** val kind_valid_for : pkind -> pctx -> bool **)

let kind_valid_for k = function
| CtxPublish ->
  (match k with
   | KPayloadFormatIndicator -> true
   | KMessageExpiryInterval -> true
   | KContentType -> true
   | KResponseTopic -> true
   | KCorrelationData -> true
   | KTopicAlias -> true
   | KUserProperty -> true
   | _ -> false)
| CtxSubscribe ->
  (match k with
   | KSubscriptionIdentifier -> true
   | KUserProperty -> true
   | _ -> false)
| CtxUnsubscribe -> (match k with
                     | KUserProperty -> true
                     | _ -> false)
| CtxDisconnect ->
  (match k with
   | KSessionExpiryInterval -> true
   | KServerReference -> true
   | KReasonString -> true
   | KUserProperty -> true
   | _ -> false)
| CtxWill ->
  (match k with
   | KPayloadFormatIndicator -> true
   | KMessageExpiryInterval -> true
   | KContentType -> true
   | KResponseTopic -> true
   | KCorrelationData -> true
   | KWillDelayInterval -> true
   | KUserProperty -> true
   | _ -> false)

(** val is_valid_for : prop -> pctx -> bool **)

let is_valid_for p c =
  (&&) (has_valid_value p) (kind_valid_for p.pk c)

(** val prop_size : prop -> n **)

let prop_size p =
  let idl = varint_len (kind_id p.pk) in
  (match kind_shape p.pk with
   | ShU8 -> N.add (Npos XH) idl
   | ShU16 -> N.add (Npos (XO XH)) idl
   | ShU32 -> N.add (Npos (XO (XO XH))) idl
   | ShVar -> N.add (varint_len p.pnum) idl
   | ShPair ->
     N.add
       (N.add (N.add (lenN p.pdata2) (Npos (XO XH)))
         (N.add (lenN p.pdata) (Npos (XO XH)))) idl
   | _ -> N.add (N.add (lenN p.pdata) (Npos (XO XH))) idl)

(** val len_prefixed : bytes -> bytes option **)

let len_prefixed d =
  if N.ltb (Npos (XI (XI (XI (XI (XI (XI (XI (XI (XI (XI (XI (XI (XI (XI (XI
       XH)))))))))))))))) (lenN d)
  then None
  else Some (app (u16_be (lenN d)) d)

(** val prop_encode : prop -> bytes option **)

let prop_encode p =
  match varint_write (kind_id p.pk) with
  | Some idb ->
    (match kind_shape p.pk with
     | ShU8 -> Some (app idb (p.pnum :: []))
     | ShU16 -> Some (app idb (u16_be p.pnum))
     | ShU32 -> Some (app idb (u32_be p.pnum))
     | ShVar ->
       (match varint_write p.pnum with
        | Some v -> Some (app idb v)
        | None -> None)
     | ShPair ->
       (match len_prefixed p.pdata with
        | Some a ->
          (match len_prefixed p.pdata2 with
           | Some b -> Some (app idb (app a b))
           | None -> None)
        | None -> None)
     | _ ->
       (match len_prefixed p.pdata with
        | Some d -> Some (app idb d)
        | None -> None))
  | None -> None

type properties =
| PSlice of prop list
| PEncoded of bytes
| PWithCorr of prop * prop list

(** val props_size : properties -> n **)

let props_size = function
| PSlice l -> sumN (map prop_size l)
| PEncoded b -> lenN b
| PWithCorr (c, l) -> N.add (sumN (map prop_size l)) (prop_size c)

type pdec =
| PDOk of prop * n
| PDErr of n

(** val take_exact : n -> bytes -> (bytes * bytes) option **)

let take_exact n0 l =
  if N.ltb (lenN l) n0 then None else Some ((takeN n0 l), (dropN n0 l))

(** val read_u16 : bytes -> (n * bytes) option **)

let read_u16 = function
| [] -> None
| a :: l0 ->
  (match l0 with
   | [] -> None
   | b :: t ->
     Some
       ((N.add (N.mul a (Npos (XO (XO (XO (XO (XO (XO (XO (XO XH)))))))))) b),
       t))

type fres =
| FOk of bytes * bytes * n
| FErr of n

(** val read_field : bool -> bytes -> fres **)

let read_field is_str l =
  match read_u16 l with
  | Some p ->
    let (n0, t) = p in
    (match take_exact n0 t with
     | Some p0 ->
       let (d, rest) = p0 in
       if (&&) is_str (negb (utf8_valid d))
       then FErr (N.add (Npos (XO XH)) n0)
       else FOk (d, rest, (N.add (Npos (XO XH)) n0))
     | None -> FErr (Npos (XO XH)))
  | None -> FErr (lenN l)

(** val varint_consumed : bytes -> n **)

let varint_consumed l =
  match varint_read l with
  | VOk (_, rest) -> N.sub (lenN l) (lenN rest)
  | VErrShort -> lenN l
  | VErrBad ->
    let rec go cnt l0 acc =
      match cnt with
      | O -> acc
      | S c ->
        (match l0 with
         | [] -> acc
         | b :: t ->
           if N.ltb b (Npos (XO (XO (XO (XO (XO (XO (XO XH))))))))
           then N.add acc (Npos XH)
           else go c t (N.add acc (Npos XH)))
    in go (S (S (S (S O)))) l N0

(** val mkprop : pkind -> n -> bytes -> bytes -> prop **)

let mkprop k n0 d d2 =
  { pk = k; pnum = n0; pdata = d; pdata2 = d2 }

(** val prop_decode : bytes -> pdec **)

let prop_decode l =
  match varint_read l with
  | VOk (id, rest) ->
    let c0 = N.sub (lenN l) (lenN rest) in
    (match kind_of_id id with
     | Some k ->
       (match kind_shape k with
        | ShU8 ->
          (match rest with
           | [] -> PDErr c0
           | b :: _ -> PDOk ((mkprop k b [] []), (N.add c0 (Npos XH))))
        | ShU16 ->
          (match read_u16 rest with
           | Some p ->
             let (v, _) = p in
             PDOk ((mkprop k v [] []), (N.add c0 (Npos (XO XH))))
           | None -> PDErr (N.add c0 (lenN rest)))
        | ShU32 ->
          (match rest with
           | [] -> PDErr c0
           | a :: l0 ->
             (match l0 with
              | [] -> PDErr c0
              | b :: l1 ->
                (match l1 with
                 | [] -> PDErr c0
                 | c :: l2 ->
                   (match l2 with
                    | [] -> PDErr c0
                    | d :: _ ->
                      PDOk
                        ((mkprop k
                           (N.add
                             (N.mul
                               (N.add
                                 (N.mul
                                   (N.add
                                     (N.mul a (Npos (XO (XO (XO (XO (XO (XO
                                       (XO (XO XH)))))))))) b) (Npos (XO (XO
                                   (XO (XO (XO (XO (XO (XO XH)))))))))) c)
                               (Npos (XO (XO (XO (XO (XO (XO (XO (XO
                               XH)))))))))) d) [] []),
                        (N.add c0 (Npos (XO (XO XH)))))))))
        | ShVar ->
          (match varint_read rest with
           | VOk (v, r2) ->
             PDOk ((mkprop k v [] []),
               (N.add c0 (N.sub (lenN rest) (lenN r2))))
           | _ -> PDErr (N.add c0 (varint_consumed rest)))
        | ShStr ->
          (match read_field true rest with
           | FOk (d, _, u) -> PDOk ((mkprop k N0 d []), (N.add c0 u))
           | FErr u -> PDErr (N.add c0 u))
        | ShBin ->
          (match read_field false rest with
           | FOk (d, _, u) -> PDOk ((mkprop k N0 d []), (N.add c0 u))
           | FErr u -> PDErr (N.add c0 u))
        | ShPair ->
          (match read_field true rest with
           | FOk (d, r2, u) ->
             (match read_field true r2 with
              | FOk (d2, _, u2) ->
                PDOk ((mkprop k N0 d d2), (N.add (N.add c0 u) u2))
              | FErr u2 -> PDErr (N.add (N.add c0 u) u2))
           | FErr u -> PDErr (N.add c0 u)))
     | None -> PDErr c0)
  | _ -> PDErr (varint_consumed l)

(** val props_iter_fuel : nat -> bytes -> prop option list **)

let rec props_iter_fuel fuel l =
  match fuel with
  | O -> []
  | S f ->
    (match l with
     | [] -> []
     | _ :: _ ->
       (match prop_decode l with
        | PDOk (p, u) -> (Some p) :: (props_iter_fuel f (dropN u l))
        | PDErr u -> None :: (props_iter_fuel f (dropN u l))))

(** val props_iter_encoded : bytes -> prop option list **)

let props_iter_encoded l =
  props_iter_fuel (length l) l

type serr =
| EMem
| ECustom
| EPayload

type sres =
| SOk of n * bytes
| SErr of serr

type chunk = bytes option

(** val sat_sub : n -> n -> n **)

let sat_sub =
  N.sub

(** val ser_push : n -> n -> chunk list -> bytes -> sres **)

let rec ser_push cap idx cs acc =
  match cs with
  | [] -> SOk (idx, acc)
  | c :: t ->
    (match c with
     | Some d ->
       if N.ltb (sat_sub cap idx) (lenN d)
       then SErr EMem
       else ser_push cap (N.add idx (lenN d)) t (app acc d)
     | None -> SErr ECustom)

(** val finalize : n -> n -> bytes -> n -> n -> sres **)

let finalize cap idx body typ flags =
  match varint_write (N.sub idx (Npos (XI (XO XH)))) with
  | Some rl ->
    if N.ltb cap (Npos (XI (XO XH)))
    then SErr EMem
    else SOk ((N.sub (N.sub (Npos (XI (XO XH))) (lenN rl)) (Npos XH)),
           ((N.add (N.mul typ (Npos (XO (XO (XO (XO XH))))))
              (N.modulo flags (Npos (XO (XO (XO (XO XH))))))) :: (app rl body)))
  | None -> SErr EMem

(** val encode_chunks : n -> n -> n -> chunk list -> sres **)

let encode_chunks cap typ flags cs =
  match ser_push cap (Npos (XI (XO XH))) cs [] with
  | SOk (idx, body) -> finalize cap idx body typ flags
  | SErr e -> SErr e

(** val encode_chunks_payload : n -> n -> n -> chunk list -> bytes -> sres **)

let encode_chunks_payload cap typ flags cs payload =
  match ser_push cap (Npos (XI (XO XH))) cs [] with
  | SOk (idx, body) ->
    let start = N.min idx cap in
    if N.ltb (N.sub cap start) (lenN payload)
    then SErr EPayload
    else if N.ltb (sat_sub cap idx) (lenN payload)
         then SErr EMem
         else finalize cap (N.add idx (lenN payload)) (app body payload) typ
                flags
  | SErr e -> SErr e

(** val c_u8 : n -> chunk **)

let c_u8 v =
  Some (v :: [])

(** val c_u16 : n -> chunk **)

let c_u16 v =
  Some (u16_be v)

(** val c_str : bytes -> chunk **)

let c_str =
  len_prefixed

(** val c_varint : n -> chunk **)

let c_varint =
  varint_write

(** val c_prop : prop -> chunk **)

let c_prop =
  prop_encode

(** val c_properties : properties -> chunk list **)

let c_properties ps =
  (c_varint (props_size ps)) :: (match ps with
                                 | PSlice l -> map c_prop l
                                 | PEncoded b -> (Some b) :: []
                                 | PWithCorr (c, l) ->
                                   (c_prop c) :: (map c_prop l))

(** val rc_known : n -> bool **)

let rc_known b =
  (||)
    ((||)
      ((||)
        ((||)
          ((||)
            ((||)
              ((||)
                ((||)
                  ((||) ((||) (N.eqb b N0) (N.eqb b (Npos XH)))
                    (N.eqb b (Npos (XO XH)))) (N.eqb b (Npos (XO (XO XH)))))
                (N.eqb b (Npos (XO (XO (XO (XO XH)))))))
              (N.eqb b (Npos (XI (XO (XO (XO XH)))))))
            (N.eqb b (Npos (XO (XO (XO (XI XH)))))))
          (N.eqb b (Npos (XI (XO (XO (XI XH)))))))
        (inr (Npos (XO (XO (XO (XO (XO (XO (XO XH)))))))) (Npos (XI (XO (XO
          (XI (XO (XO (XO XH)))))))) b))
      (inr (Npos (XO (XO (XI (XI (XO (XO (XO XH)))))))) (Npos (XO (XI (XO (XO
        (XO (XI (XO XH)))))))) b))
    (N.eqb b (Npos (XI (XI (XI (XI (XI (XI (XI XH)))))))))

(** val rc_norm : n -> n **)

let rc_norm b =
  if rc_known b then b else Npos (XI (XI (XI (XI (XI (XI (XI XH)))))))

type qos =
| Q0
| Q1
| Q2

(** val qos_n : qos -> n **)

let qos_n = function
| Q0 -> N0
| Q1 -> Npos XH
| Q2 -> Npos (XO XH)

(** val qos_of_n : n -> qos option **)

let qos_of_n n0 =
  if N.eqb n0 N0
  then Some Q0
  else if N.eqb n0 (Npos XH)
       then Some Q1
       else if N.eqb n0 (Npos (XO XH)) then Some Q2 else None

type will = { w_topic : bytes; w_data : bytes; w_qos : qos; w_retain : 
              bool; w_props : prop list }

type auth = { a_user : bytes; a_pass : bytes }

type connect_req = { cq_keepalive : n; cq_props : prop list;
                     cq_client_id : bytes; cq_auth : auth option;
                     cq_will : will option; cq_clean : bool }

(** val b2n : bool -> n **)

let b2n = function
| true -> Npos XH
| false -> N0

(** val connect_flags : connect_req -> n **)

let connect_flags r =
  N.add
    (N.add (if r.cq_clean then Npos (XO XH) else N0)
      (match r.cq_will with
       | Some w ->
         N.add
           (N.add (Npos (XO (XO XH)))
             (N.mul (qos_n w.w_qos) (Npos (XO (XO (XO XH))))))
           (if w.w_retain then Npos (XO (XO (XO (XO (XO XH))))) else N0)
       | None -> N0))
    (match r.cq_auth with
     | Some _ -> Npos (XO (XO (XO (XO (XO (XO (XI XH)))))))
     | None -> N0)

(** val mQTT_NAME : bytes **)

let mQTT_NAME =
  (Npos (XI (XO (XI (XI (XO (XO XH))))))) :: ((Npos (XI (XO (XO (XO (XI (XO
    XH))))))) :: ((Npos (XO (XO (XI (XO (XI (XO XH))))))) :: ((Npos (XO (XO
    (XI (XO (XI (XO XH))))))) :: [])))

(** val connect_chunks : connect_req -> chunk list **)

let connect_chunks r =
  app
    ((c_str mQTT_NAME) :: ((c_u8 (Npos (XI (XO XH)))) :: ((c_u8
                                                            (connect_flags r)) :: (
    (c_u16 r.cq_keepalive) :: []))))
    (app (c_properties (PSlice r.cq_props))
      (app ((c_str r.cq_client_id) :: [])
        (app
          (match r.cq_will with
           | Some w ->
             app (c_properties (PSlice w.w_props))
               ((c_str w.w_topic) :: ((c_str w.w_data) :: []))
           | None -> [])
          (match r.cq_auth with
           | Some a -> (c_str a.a_user) :: ((c_str a.a_pass) :: [])
           | None -> []))))

(** val enc_connect : n -> connect_req -> sres **)

let enc_connect cap r =
  encode_chunks cap (Npos XH) N0 (connect_chunks r)

type publish_req = { pq_topic : bytes; pq_pid : n option;
                     pq_props : properties; pq_retain : bool; pq_qos : 
                     qos; pq_dup : bool; pq_payload : bytes }

(** val publish_flags : publish_req -> n **)

let publish_flags r =
  N.add (N.add (N.mul (qos_n r.pq_qos) (Npos (XO XH))) (b2n r.pq_retain))
    (if r.pq_dup then Npos (XO (XO (XO XH))) else N0)

(** val publish_chunks : publish_req -> chunk list **)

let publish_chunks r =
  app ((c_str r.pq_topic) :: [])
    (app (match r.pq_pid with
          | Some id -> (c_u16 id) :: []
          | None -> []) (c_properties r.pq_props))

(** val enc_publish : n -> publish_req -> sres **)

let enc_publish cap r =
  encode_chunks_payload cap (Npos (XI XH)) (publish_flags r)
    (publish_chunks r) r.pq_payload

type sub_opts = { so_qos : qos; so_no_local : bool; so_rap : bool; so_rh : n }

(** val sub_opts_byte : sub_opts -> n **)

let sub_opts_byte o =
  N.add
    (N.add
      (N.add (qos_n o.so_qos)
        (if o.so_no_local then Npos (XO (XO XH)) else N0))
      (if o.so_rap then Npos (XO (XO (XO XH))) else N0))
    (N.mul o.so_rh (Npos (XO (XO (XO (XO XH))))))

type subscribe_req = { sq_pid : n; sq_props : prop list;
                       sq_topics : (bytes * sub_opts) list }

(** val subscribe_chunks : subscribe_req -> chunk list **)

let subscribe_chunks r =
  app ((c_u16 r.sq_pid) :: [])
    (app (c_properties (PSlice r.sq_props))
      (flat_map (fun t ->
        (c_str (fst t)) :: ((c_u8 (sub_opts_byte (snd t))) :: []))
        r.sq_topics))

(** val enc_subscribe : n -> subscribe_req -> sres **)

let enc_subscribe cap r =
  encode_chunks cap (Npos (XO (XO (XO XH)))) (Npos (XO XH))
    (subscribe_chunks r)

type unsubscribe_req = { uq_pid : n; uq_props : prop list;
                         uq_topics : bytes list }

(** val unsubscribe_chunks : unsubscribe_req -> chunk list **)

let unsubscribe_chunks r =
  app ((c_u16 r.uq_pid) :: [])
    (app (c_properties (PSlice r.uq_props)) (map c_str r.uq_topics))

(** val enc_unsubscribe : n -> unsubscribe_req -> sres **)

let enc_unsubscribe cap r =
  encode_chunks cap (Npos (XO (XI (XO XH)))) (Npos (XO XH))
    (unsubscribe_chunks r)

type disconnect_req = { dq_reason : n option; dq_props : prop list option }

(** val disconnect_chunks : disconnect_req -> chunk list **)

let disconnect_chunks r =
  app
    (match r.dq_reason with
     | Some c -> (c_u8 (rc_norm c)) :: []
     | None -> [])
    (match r.dq_props with
     | Some l -> c_properties (PSlice l)
     | None -> [])

(** val enc_disconnect : n -> disconnect_req -> sres **)

let enc_disconnect cap r =
  encode_chunks cap (Npos (XO (XI (XI XH)))) N0 (disconnect_chunks r)

(** val ack_chunks : n -> n -> chunk list **)

let ack_chunks pid reason =
  (c_u16 pid) :: ((c_u8 (rc_norm reason)) :: [])

(** val enc_ack : n -> n -> n -> n -> sres **)

let enc_ack cap typ pid reason =
  encode_chunks cap typ
    (if N.eqb typ (Npos (XO (XI XH))) then Npos (XO XH) else N0)
    (ack_chunks pid reason)

(** val enc_pingreq : n -> sres **)

let enc_pingreq cap =
  encode_chunks cap (Npos (XO (XO (XI XH)))) N0 []

type rpacket =
| RConnAck of bool * n * bytes
| RPublish of bytes * n option * qos * bool * bool * bytes * bytes
| RPubAck of n * n
| RPubRec of n * n
| RPubRel of n * n
| RPubComp of n * n
| RSubAck of n * bytes * bytes
| RUnsubAck of n * bytes * bytes
| RDisconnect of n * bytes option
| RPingResp

(** val de_props : bytes -> (bytes * bytes) option **)

let de_props l =
  match varint_read l with
  | VOk (n0, rest) -> take_exact n0 rest
  | _ -> None

(** val de_reason : bytes -> (n * bytes) option **)

let de_reason = function
| [] -> Some (N0, [])
| c :: t ->
  (match t with
   | [] -> Some ((rc_norm c), [])
   | _ :: _ ->
     (match de_props t with
      | Some p -> let (_, rest) = p in Some ((rc_norm c), rest)
      | None -> None))

(** val de_ack : (n -> n -> rpacket) -> bytes -> (rpacket * bytes) option **)

let de_ack mk l =
  match read_u16 l with
  | Some p ->
    let (pid, t) = p in
    (match de_reason t with
     | Some p0 -> let (rc, rest) = p0 in Some ((mk pid rc), rest)
     | None -> None)
  | None -> None

(** val de_suback :
    (n -> bytes -> bytes -> rpacket) -> bytes -> (rpacket * bytes) option **)

let de_suback mk l =
  match read_u16 l with
  | Some p ->
    let (pid, t) = p in
    (match de_props t with
     | Some p0 -> let (ps, rest) = p0 in Some ((mk pid ps []), rest)
     | None -> None)
  | None -> None

(** val de_body : n -> bytes -> (rpacket * bytes) option **)

let de_body hdr l =
  let typ = N.div hdr (Npos (XO (XO (XO (XO XH))))) in
  let flags = N.modulo hdr (Npos (XO (XO (XO (XO XH))))) in
  if N.eqb typ N0
  then None
  else let valid_flags =
         if N.eqb typ (Npos (XI XH))
         then true
         else if N.eqb typ (Npos (XO (XI XH)))
              then N.eqb flags (Npos (XO XH))
              else if (||)
                        ((||)
                          ((||)
                            ((||)
                              ((||)
                                ((||)
                                  ((||) (N.eqb typ (Npos (XO XH)))
                                    (N.eqb typ (Npos (XO (XO XH)))))
                                  (N.eqb typ (Npos (XI (XO XH)))))
                                (N.eqb typ (Npos (XI (XI XH)))))
                              (N.eqb typ (Npos (XI (XO (XO XH))))))
                            (N.eqb typ (Npos (XI (XI (XO XH))))))
                          (N.eqb typ (Npos (XI (XO (XI XH))))))
                        (N.eqb typ (Npos (XO (XI (XI XH)))))
                   then N.eqb flags N0
                   else true
       in
       if negb valid_flags
       then None
       else if N.eqb typ (Npos (XO XH))
            then (match l with
                  | [] -> None
                  | spb :: l0 ->
                    (match l0 with
                     | [] -> None
                     | rc :: t ->
                       if N.ltb (Npos XH) spb
                       then None
                       else (match de_props t with
                             | Some p ->
                               let (ps, rest) = p in
                               Some ((RConnAck ((N.eqb spb (Npos XH)),
                               (rc_norm rc), ps)), rest)
                             | None -> None)))
            else if N.eqb typ (Npos (XI XH))
                 then (match qos_of_n
                               (N.modulo (N.div hdr (Npos (XO XH))) (Npos (XO
                                 (XO XH)))) with
                       | Some q ->
                         (match read_field true l with
                          | FOk (topic, t, _) ->
                            let pidr =
                              match q with
                              | Q0 -> Some (None, t)
                              | _ ->
                                (match read_u16 t with
                                 | Some p ->
                                   let (id, t') = p in Some ((Some id), t')
                                 | None -> None)
                            in
                            (match pidr with
                             | Some p ->
                               let (pid, t2) = p in
                               (match de_props t2 with
                                | Some p0 ->
                                  let (ps, rest) = p0 in
                                  Some ((RPublish (topic, pid, q,
                                  (N.odd hdr),
                                  (N.odd (N.div hdr (Npos (XO (XO (XO XH)))))),
                                  ps, [])), rest)
                                | None -> None)
                             | None -> None)
                          | FErr _ -> None)
                       | None -> None)
                 else if N.eqb typ (Npos (XO (XO XH)))
                      then de_ack (fun x x0 -> RPubAck (x, x0)) l
                      else if N.eqb typ (Npos (XI (XO XH)))
                           then de_ack (fun x x0 -> RPubRec (x, x0)) l
                           else if N.eqb typ (Npos (XO (XI XH)))
                                then de_ack (fun x x0 -> RPubRel (x, x0)) l
                                else if N.eqb typ (Npos (XI (XI XH)))
                                     then de_ack (fun x x0 -> RPubComp (x,
                                            x0)) l
                                     else if N.eqb typ (Npos (XI (XO (XO
                                               XH))))
                                          then de_suback (fun x x0 x1 ->
                                                 RSubAck (x, x0, x1)) l
                                          else if N.eqb typ (Npos (XI (XI (XO
                                                    XH))))
                                               then de_suback (fun x x0 x1 ->
                                                      RUnsubAck (x, x0, x1)) l
                                               else if N.eqb typ (Npos (XI
                                                         (XO (XI XH))))
                                                    then Some (RPingResp, l)
                                                    else if N.eqb typ (Npos
                                                              (XO (XI (XI
                                                              XH))))
                                                         then (match l with
                                                               | [] ->
                                                                 Some
                                                                   ((RDisconnect
                                                                   (N0,
                                                                   None)), [])
                                                               | c :: t ->
                                                                 (match t with
                                                                  | [] ->
                                                                    Some
                                                                    ((RDisconnect
                                                                    ((rc_norm
                                                                    c),
                                                                    None)),
                                                                    [])
                                                                  | _ :: _ ->
                                                                    (match 
                                                                    de_props t with
                                                                    | Some p ->
                                                                    let (
                                                                    ps, rest) =
                                                                    p
                                                                    in
                                                                    Some
                                                                    ((RDisconnect
                                                                    (
                                                                    (rc_norm
                                                                    c), (Some
                                                                    ps))),
                                                                    rest)
                                                                    | None ->
                                                                    None)))
                                                         else None

(** val from_buffer : bytes -> rpacket option **)

let from_buffer = function
| [] -> None
| hdr :: t ->
  (match varint_read t with
   | VOk (_, body) ->
     (match de_body hdr body with
      | Some p0 ->
        let (p, rest) = p0 in
        (match rest with
         | [] -> Some p
         | _ :: _ ->
           (match p with
            | RPublish (topic, pid, q, r, d, ps, _) ->
              Some (RPublish (topic, pid, q, r, d, ps, rest))
            | RSubAck (pid, ps, _) -> Some (RSubAck (pid, ps, rest))
            | RUnsubAck (pid, ps, _) -> Some (RUnsubAck (pid, ps, rest))
            | _ -> None))
      | None -> None)
   | _ -> None)

type reader = { rcap : n; rdata : bytes; rplen : n option }

(** val reader_new : n -> reader **)

let reader_new cap =
  { rcap = cap; rdata = []; rplen = None }

(** val reader_reset : reader -> reader **)

let reader_reset r =
  { rcap = r.rcap; rdata = []; rplen = None }

(** val read_bytes : reader -> n **)

let read_bytes r =
  lenN r.rdata

(** val probe : reader -> reader option **)

let probe r =
  if N.leb (read_bytes r) (Npos XH)
  then Some r
  else let pl =
         probe_len (takeN (Npos (XO (XO XH))) (dropN (Npos XH) r.rdata))
       in
       if (&&) (N.leb (Npos (XI (XO XH))) (read_bytes r))
            (match pl with
             | Some _ -> false
             | None -> true)
       then None
       else Some { rcap = r.rcap; rdata = r.rdata; rplen = pl }

(** val receive_buffer : reader -> reader * n option **)

let receive_buffer r =
  let r1 = match r.rplen with
           | Some _ -> Some r
           | None -> probe r in
  (match r1 with
   | Some r' ->
     let e =
       match r'.rplen with
       | Some pl -> pl
       | None -> N.add (read_bytes r') (Npos XH)
     in
     if N.leb e r'.rcap
     then (r', (Some (N.sub e (read_bytes r'))))
     else (r', None)
   | None -> ({ rcap = r.rcap; rdata = r.rdata; rplen = None }, None))

(** val commit : reader -> bytes -> reader **)

let commit r d =
  { rcap = r.rcap; rdata = (app r.rdata d); rplen = r.rplen }

(** val packet_available : reader -> bool **)

let packet_available r =
  match r.rplen with
  | Some pl -> N.leb pl (read_bytes r)
  | None -> false

(** val take_packet : reader -> ((reader * n) * rpacket option) option **)

let take_packet r =
  match r.rplen with
  | Some pl -> Some (((reader_reset r), pl), (from_buffer (takeN pl r.rdata)))
  | None -> None

type text = n list

(** val s2t : string -> text **)

let rec s2t = function
| EmptyString -> []
| String (c, r) -> (n_of_ascii c) :: (s2t r)

(** val digit : n -> n **)

let digit d =
  N.add (Npos (XO (XO (XO (XO (XI XH)))))) d

(** val show_N_fuel : nat -> n -> text -> text **)

let rec show_N_fuel fuel n0 acc =
  match fuel with
  | O -> acc
  | S f ->
    let acc' = (digit (N.modulo n0 (Npos (XO (XI (XO XH)))))) :: acc in
    if N.ltb n0 (Npos (XO (XI (XO XH))))
    then acc'
    else show_N_fuel f (N.div n0 (Npos (XO (XI (XO XH))))) acc'

(** val show_N : n -> text **)

let show_N n0 =
  show_N_fuel (S (N.size_nat n0)) n0 []

(** val hexdig : n -> n **)

let hexdig d =
  if N.ltb d (Npos (XO (XI (XO XH))))
  then N.add (Npos (XO (XO (XO (XO (XI XH)))))) d
  else N.add (Npos (XI (XI (XI (XO (XI (XO XH))))))) d

(** val hex : bytes -> text **)

let rec hex = function
| [] -> []
| b :: t ->
  (hexdig (N.div b (Npos (XO (XO (XO (XO XH))))))) :: ((hexdig
                                                         (N.modulo b (Npos
                                                           (XO (XO (XO (XO
                                                           XH))))))) :: 
    (hex t))

(** val show_bool : bool -> text **)

let show_bool = function
| true ->
  s2t (String ((Ascii (true, false, false, false, true, true, false, false)),
    EmptyString))
| false ->
  s2t (String ((Ascii (false, false, false, false, true, true, false,
    false)), EmptyString))

(** val show_optN : n option -> text **)

let show_optN = function
| Some n0 -> show_N n0
| None ->
  s2t (String ((Ascii (true, false, true, true, false, true, false, false)),
    EmptyString))

(** val join : text -> text list -> text **)

let rec join sep = function
| [] -> []
| x :: t -> (match t with
             | [] -> x
             | _ :: _ -> app x (app sep (join sep t)))

(** val show_prop : prop -> text **)

let show_prop p =
  app (show_N (kind_id p.pk))
    (app
      (s2t (String ((Ascii (false, true, false, true, true, true, false,
        false)), EmptyString)))
      (match kind_shape p.pk with
       | ShStr ->
         app
           (s2t (String ((Ascii (false, false, false, true, true, true, true,
             false)), EmptyString))) (hex p.pdata)
       | ShBin ->
         app
           (s2t (String ((Ascii (false, false, false, true, true, true, true,
             false)), EmptyString))) (hex p.pdata)
       | ShPair ->
         app
           (s2t (String ((Ascii (false, false, false, true, true, true, true,
             false)), EmptyString)))
           (app (hex p.pdata)
             (app
               (s2t (String ((Ascii (false, true, true, true, true, true,
                 true, false)), EmptyString))) (hex p.pdata2)))
       | _ -> show_N p.pnum))

(** val show_item : prop option -> text **)

let show_item = function
| Some p -> show_prop p
| None ->
  s2t (String ((Ascii (true, false, true, false, false, false, true, false)),
    EmptyString))

(** val show_props_block : bytes -> text **)

let show_props_block b =
  app
    (s2t (String ((Ascii (false, false, false, true, true, true, true,
      false)), EmptyString)))
    (app (hex b)
      (app
        (s2t (String ((Ascii (false, false, false, false, false, true, false,
          false)), (String ((Ascii (true, false, false, true, false, true,
          true, false)), (String ((Ascii (false, false, true, false, true,
          true, true, false)), (String ((Ascii (true, false, true, false,
          false, true, true, false)), (String ((Ascii (false, true, false,
          false, true, true, true, false)), (String ((Ascii (true, false,
          true, true, true, true, false, false)), (String ((Ascii (true,
          true, false, true, true, false, true, false)),
          EmptyString)))))))))))))))
        (app
          (join
            (s2t (String ((Ascii (false, false, true, true, false, true,
              false, false)), EmptyString)))
            (map show_item (props_iter_encoded b)))
          (s2t (String ((Ascii (true, false, true, true, true, false, true,
            false)), EmptyString))))))

(** val show_packet : rpacket -> text **)

let show_packet = function
| RConnAck (sp, rc, ps) ->
  app
    (s2t (String ((Ascii (true, true, false, false, false, false, true,
      false)), (String ((Ascii (true, true, true, true, false, false, true,
      false)), (String ((Ascii (false, true, true, true, false, false, true,
      false)), (String ((Ascii (false, true, true, true, false, false, true,
      false)), (String ((Ascii (true, false, false, false, false, false,
      true, false)), (String ((Ascii (true, true, false, false, false, false,
      true, false)), (String ((Ascii (true, true, false, true, false, false,
      true, false)), (String ((Ascii (false, false, false, false, false,
      true, false, false)), (String ((Ascii (true, true, false, false, true,
      true, true, false)), (String ((Ascii (false, false, false, false, true,
      true, true, false)), (String ((Ascii (true, false, true, true, true,
      true, false, false)), EmptyString)))))))))))))))))))))))
    (app (show_bool sp)
      (app
        (s2t (String ((Ascii (false, false, false, false, false, true, false,
          false)), (String ((Ascii (false, true, false, false, true, true,
          true, false)), (String ((Ascii (true, true, false, false, false,
          true, true, false)), (String ((Ascii (true, false, true, true,
          true, true, false, false)), EmptyString)))))))))
        (app (show_N rc)
          (app
            (s2t (String ((Ascii (false, false, false, false, false, true,
              false, false)), (String ((Ascii (false, false, false, false,
              true, true, true, false)), (String ((Ascii (false, true, false,
              false, true, true, true, false)), (String ((Ascii (true, true,
              true, true, false, true, true, false)), (String ((Ascii (false,
              false, false, false, true, true, true, false)), (String ((Ascii
              (true, true, false, false, true, true, true, false)), (String
              ((Ascii (true, false, true, true, true, true, false, false)),
              EmptyString))))))))))))))) (show_props_block ps)))))
| RPublish (topic, pid, q, r, d, ps, payload) ->
  app
    (s2t (String ((Ascii (false, false, false, false, true, false, true,
      false)), (String ((Ascii (true, false, true, false, true, false, true,
      false)), (String ((Ascii (false, true, false, false, false, false,
      true, false)), (String ((Ascii (false, false, true, true, false, false,
      true, false)), (String ((Ascii (true, false, false, true, false, false,
      true, false)), (String ((Ascii (true, true, false, false, true, false,
      true, false)), (String ((Ascii (false, false, false, true, false,
      false, true, false)), (String ((Ascii (false, false, false, false,
      false, true, false, false)), (String ((Ascii (false, false, true,
      false, true, true, true, false)), (String ((Ascii (true, true, true,
      true, false, true, true, false)), (String ((Ascii (false, false, false,
      false, true, true, true, false)), (String ((Ascii (true, false, false,
      true, false, true, true, false)), (String ((Ascii (true, true, false,
      false, false, true, true, false)), (String ((Ascii (true, false, true,
      true, true, true, false, false)), (String ((Ascii (false, false, false,
      true, true, true, true, false)),
      EmptyString)))))))))))))))))))))))))))))))
    (app (hex topic)
      (app
        (s2t (String ((Ascii (false, false, false, false, false, true, false,
          false)), (String ((Ascii (false, false, false, false, true, true,
          true, false)), (String ((Ascii (true, false, false, true, false,
          true, true, false)), (String ((Ascii (false, false, true, false,
          false, true, true, false)), (String ((Ascii (true, false, true,
          true, true, true, false, false)), EmptyString)))))))))))
        (app (show_optN pid)
          (app
            (s2t (String ((Ascii (false, false, false, false, false, true,
              false, false)), (String ((Ascii (true, false, false, false,
              true, true, true, false)), (String ((Ascii (true, true, true,
              true, false, true, true, false)), (String ((Ascii (true, true,
              false, false, true, true, true, false)), (String ((Ascii (true,
              false, true, true, true, true, false, false)),
              EmptyString)))))))))))
            (app (show_N (qos_n q))
              (app
                (s2t (String ((Ascii (false, false, false, false, false,
                  true, false, false)), (String ((Ascii (false, true, false,
                  false, true, true, true, false)), (String ((Ascii (true,
                  false, true, false, false, true, true, false)), (String
                  ((Ascii (false, false, true, false, true, true, true,
                  false)), (String ((Ascii (true, false, false, false, false,
                  true, true, false)), (String ((Ascii (true, false, false,
                  true, false, true, true, false)), (String ((Ascii (false,
                  true, true, true, false, true, true, false)), (String
                  ((Ascii (true, false, true, true, true, true, false,
                  false)), EmptyString)))))))))))))))))
                (app (show_bool r)
                  (app
                    (s2t (String ((Ascii (false, false, false, false, false,
                      true, false, false)), (String ((Ascii (false, false,
                      true, false, false, true, true, false)), (String
                      ((Ascii (true, false, true, false, true, true, true,
                      false)), (String ((Ascii (false, false, false, false,
                      true, true, true, false)), (String ((Ascii (true,
                      false, true, true, true, true, false, false)),
                      EmptyString)))))))))))
                    (app (show_bool d)
                      (app
                        (s2t (String ((Ascii (false, false, false, false,
                          false, true, false, false)), (String ((Ascii
                          (false, false, false, false, true, true, true,
                          false)), (String ((Ascii (true, false, false,
                          false, false, true, true, false)), (String ((Ascii
                          (true, false, false, true, true, true, true,
                          false)), (String ((Ascii (false, false, true, true,
                          false, true, true, false)), (String ((Ascii (true,
                          true, true, true, false, true, true, false)),
                          (String ((Ascii (true, false, false, false, false,
                          true, true, false)), (String ((Ascii (false, false,
                          true, false, false, true, true, false)), (String
                          ((Ascii (true, false, true, true, true, true,
                          false, false)), (String ((Ascii (false, false,
                          false, true, true, true, true, false)),
                          EmptyString)))))))))))))))))))))
                        (app (hex payload)
                          (app
                            (s2t (String ((Ascii (false, false, false, false,
                              false, true, false, false)), (String ((Ascii
                              (false, false, false, false, true, true, true,
                              false)), (String ((Ascii (false, true, false,
                              false, true, true, true, false)), (String
                              ((Ascii (true, true, true, true, false, true,
                              true, false)), (String ((Ascii (false, false,
                              false, false, true, true, true, false)),
                              (String ((Ascii (true, true, false, false,
                              true, true, true, false)), (String ((Ascii
                              (true, false, true, true, true, true, false,
                              false)), EmptyString)))))))))))))))
                            (show_props_block ps)))))))))))))
| RPubAck (pid, rc) ->
  app
    (s2t (String ((Ascii (false, false, false, false, true, false, true,
      false)), (String ((Ascii (true, false, true, false, true, false, true,
      false)), (String ((Ascii (false, true, false, false, false, false,
      true, false)), (String ((Ascii (true, false, false, false, false,
      false, true, false)), (String ((Ascii (true, true, false, false, false,
      false, true, false)), (String ((Ascii (true, true, false, true, false,
      false, true, false)), (String ((Ascii (false, false, false, false,
      false, true, false, false)), (String ((Ascii (false, false, false,
      false, true, true, true, false)), (String ((Ascii (true, false, false,
      true, false, true, true, false)), (String ((Ascii (false, false, true,
      false, false, true, true, false)), (String ((Ascii (true, false, true,
      true, true, true, false, false)), EmptyString)))))))))))))))))))))))
    (app (show_N pid)
      (app
        (s2t (String ((Ascii (false, false, false, false, false, true, false,
          false)), (String ((Ascii (false, true, false, false, true, true,
          true, false)), (String ((Ascii (true, true, false, false, false,
          true, true, false)), (String ((Ascii (true, false, true, true,
          true, true, false, false)), EmptyString))))))))) (show_N rc)))
| RPubRec (pid, rc) ->
  app
    (s2t (String ((Ascii (false, false, false, false, true, false, true,
      false)), (String ((Ascii (true, false, true, false, true, false, true,
      false)), (String ((Ascii (false, true, false, false, false, false,
      true, false)), (String ((Ascii (false, true, false, false, true, false,
      true, false)), (String ((Ascii (true, false, true, false, false, false,
      true, false)), (String ((Ascii (true, true, false, false, false, false,
      true, false)), (String ((Ascii (false, false, false, false, false,
      true, false, false)), (String ((Ascii (false, false, false, false,
      true, true, true, false)), (String ((Ascii (true, false, false, true,
      false, true, true, false)), (String ((Ascii (false, false, true, false,
      false, true, true, false)), (String ((Ascii (true, false, true, true,
      true, true, false, false)), EmptyString)))))))))))))))))))))))
    (app (show_N pid)
      (app
        (s2t (String ((Ascii (false, false, false, false, false, true, false,
          false)), (String ((Ascii (false, true, false, false, true, true,
          true, false)), (String ((Ascii (true, true, false, false, false,
          true, true, false)), (String ((Ascii (true, false, true, true,
          true, true, false, false)), EmptyString))))))))) (show_N rc)))
| RPubRel (pid, rc) ->
  app
    (s2t (String ((Ascii (false, false, false, false, true, false, true,
      false)), (String ((Ascii (true, false, true, false, true, false, true,
      false)), (String ((Ascii (false, true, false, false, false, false,
      true, false)), (String ((Ascii (false, true, false, false, true, false,
      true, false)), (String ((Ascii (true, false, true, false, false, false,
      true, false)), (String ((Ascii (false, false, true, true, false, false,
      true, false)), (String ((Ascii (false, false, false, false, false,
      true, false, false)), (String ((Ascii (false, false, false, false,
      true, true, true, false)), (String ((Ascii (true, false, false, true,
      false, true, true, false)), (String ((Ascii (false, false, true, false,
      false, true, true, false)), (String ((Ascii (true, false, true, true,
      true, true, false, false)), EmptyString)))))))))))))))))))))))
    (app (show_N pid)
      (app
        (s2t (String ((Ascii (false, false, false, false, false, true, false,
          false)), (String ((Ascii (false, true, false, false, true, true,
          true, false)), (String ((Ascii (true, true, false, false, false,
          true, true, false)), (String ((Ascii (true, false, true, true,
          true, true, false, false)), EmptyString))))))))) (show_N rc)))
| RPubComp (pid, rc) ->
  app
    (s2t (String ((Ascii (false, false, false, false, true, false, true,
      false)), (String ((Ascii (true, false, true, false, true, false, true,
      false)), (String ((Ascii (false, true, false, false, false, false,
      true, false)), (String ((Ascii (true, true, false, false, false, false,
      true, false)), (String ((Ascii (true, true, true, true, false, false,
      true, false)), (String ((Ascii (true, false, true, true, false, false,
      true, false)), (String ((Ascii (false, false, false, false, true,
      false, true, false)), (String ((Ascii (false, false, false, false,
      false, true, false, false)), (String ((Ascii (false, false, false,
      false, true, true, true, false)), (String ((Ascii (true, false, false,
      true, false, true, true, false)), (String ((Ascii (false, false, true,
      false, false, true, true, false)), (String ((Ascii (true, false, true,
      true, true, true, false, false)), EmptyString)))))))))))))))))))))))))
    (app (show_N pid)
      (app
        (s2t (String ((Ascii (false, false, false, false, false, true, false,
          false)), (String ((Ascii (false, true, false, false, true, true,
          true, false)), (String ((Ascii (true, true, false, false, false,
          true, true, false)), (String ((Ascii (true, false, true, true,
          true, true, false, false)), EmptyString))))))))) (show_N rc)))
| RSubAck (pid, ps, codes) ->
  app
    (s2t (String ((Ascii (true, true, false, false, true, false, true,
      false)), (String ((Ascii (true, false, true, false, true, false, true,
      false)), (String ((Ascii (false, true, false, false, false, false,
      true, false)), (String ((Ascii (true, false, false, false, false,
      false, true, false)), (String ((Ascii (true, true, false, false, false,
      false, true, false)), (String ((Ascii (true, true, false, true, false,
      false, true, false)), (String ((Ascii (false, false, false, false,
      false, true, false, false)), (String ((Ascii (false, false, false,
      false, true, true, true, false)), (String ((Ascii (true, false, false,
      true, false, true, true, false)), (String ((Ascii (false, false, true,
      false, false, true, true, false)), (String ((Ascii (true, false, true,
      true, true, true, false, false)), EmptyString)))))))))))))))))))))))
    (app (show_N pid)
      (app
        (s2t (String ((Ascii (false, false, false, false, false, true, false,
          false)), (String ((Ascii (true, true, false, false, false, true,
          true, false)), (String ((Ascii (true, true, true, true, false,
          true, true, false)), (String ((Ascii (false, false, true, false,
          false, true, true, false)), (String ((Ascii (true, false, true,
          false, false, true, true, false)), (String ((Ascii (true, true,
          false, false, true, true, true, false)), (String ((Ascii (true,
          false, true, true, true, true, false, false)), (String ((Ascii
          (false, false, false, true, true, true, true, false)),
          EmptyString)))))))))))))))))
        (app (hex codes)
          (app
            (s2t (String ((Ascii (false, false, false, false, false, true,
              false, false)), (String ((Ascii (false, false, false, false,
              true, true, true, false)), (String ((Ascii (false, true, false,
              false, true, true, true, false)), (String ((Ascii (true, true,
              true, true, false, true, true, false)), (String ((Ascii (false,
              false, false, false, true, true, true, false)), (String ((Ascii
              (true, true, false, false, true, true, true, false)), (String
              ((Ascii (true, false, true, true, true, true, false, false)),
              EmptyString))))))))))))))) (show_props_block ps)))))
| RUnsubAck (pid, ps, codes) ->
  app
    (s2t (String ((Ascii (true, false, true, false, true, false, true,
      false)), (String ((Ascii (false, true, true, true, false, false, true,
      false)), (String ((Ascii (true, true, false, false, true, false, true,
      false)), (String ((Ascii (true, false, true, false, true, false, true,
      false)), (String ((Ascii (false, true, false, false, false, false,
      true, false)), (String ((Ascii (true, false, false, false, false,
      false, true, false)), (String ((Ascii (true, true, false, false, false,
      false, true, false)), (String ((Ascii (true, true, false, true, false,
      false, true, false)), (String ((Ascii (false, false, false, false,
      false, true, false, false)), (String ((Ascii (false, false, false,
      false, true, true, true, false)), (String ((Ascii (true, false, false,
      true, false, true, true, false)), (String ((Ascii (false, false, true,
      false, false, true, true, false)), (String ((Ascii (true, false, true,
      true, true, true, false, false)), EmptyString)))))))))))))))))))))))))))
    (app (show_N pid)
      (app
        (s2t (String ((Ascii (false, false, false, false, false, true, false,
          false)), (String ((Ascii (true, true, false, false, false, true,
          true, false)), (String ((Ascii (true, true, true, true, false,
          true, true, false)), (String ((Ascii (false, false, true, false,
          false, true, true, false)), (String ((Ascii (true, false, true,
          false, false, true, true, false)), (String ((Ascii (true, true,
          false, false, true, true, true, false)), (String ((Ascii (true,
          false, true, true, true, true, false, false)), (String ((Ascii
          (false, false, false, true, true, true, true, false)),
          EmptyString)))))))))))))))))
        (app (hex codes)
          (app
            (s2t (String ((Ascii (false, false, false, false, false, true,
              false, false)), (String ((Ascii (false, false, false, false,
              true, true, true, false)), (String ((Ascii (false, true, false,
              false, true, true, true, false)), (String ((Ascii (true, true,
              true, true, false, true, true, false)), (String ((Ascii (false,
              false, false, false, true, true, true, false)), (String ((Ascii
              (true, true, false, false, true, true, true, false)), (String
              ((Ascii (true, false, true, true, true, true, false, false)),
              EmptyString))))))))))))))) (show_props_block ps)))))
| RDisconnect (rc, ps) ->
  app
    (s2t (String ((Ascii (false, false, true, false, false, false, true,
      false)), (String ((Ascii (true, false, false, true, false, false, true,
      false)), (String ((Ascii (true, true, false, false, true, false, true,
      false)), (String ((Ascii (true, true, false, false, false, false, true,
      false)), (String ((Ascii (true, true, true, true, false, false, true,
      false)), (String ((Ascii (false, true, true, true, false, false, true,
      false)), (String ((Ascii (false, true, true, true, false, false, true,
      false)), (String ((Ascii (true, false, true, false, false, false, true,
      false)), (String ((Ascii (true, true, false, false, false, false, true,
      false)), (String ((Ascii (false, false, true, false, true, false, true,
      false)), (String ((Ascii (false, false, false, false, false, true,
      false, false)), (String ((Ascii (false, true, false, false, true, true,
      true, false)), (String ((Ascii (true, true, false, false, false, true,
      true, false)), (String ((Ascii (true, false, true, true, true, true,
      false, false)), EmptyString)))))))))))))))))))))))))))))
    (app (show_N rc)
      (app
        (s2t (String ((Ascii (false, false, false, false, false, true, false,
          false)), (String ((Ascii (false, false, false, false, true, true,
          true, false)), (String ((Ascii (false, true, false, false, true,
          true, true, false)), (String ((Ascii (true, true, true, true,
          false, true, true, false)), (String ((Ascii (false, false, false,
          false, true, true, true, false)), (String ((Ascii (true, true,
          false, false, true, true, true, false)), (String ((Ascii (true,
          false, true, true, true, true, false, false)),
          EmptyString)))))))))))))))
        (match ps with
         | Some b -> show_props_block b
         | None ->
           s2t (String ((Ascii (false, true, true, true, false, true, true,
             false)), (String ((Ascii (true, true, true, true, false, true,
             true, false)), (String ((Ascii (false, true, true, true, false,
             true, true, false)), (String ((Ascii (true, false, true, false,
             false, true, true, false)), EmptyString)))))))))))
| RPingResp ->
  s2t (String ((Ascii (false, false, false, false, true, false, true,
    false)), (String ((Ascii (true, false, false, true, false, false, true,
    false)), (String ((Ascii (false, true, true, true, false, false, true,
    false)), (String ((Ascii (true, true, true, false, false, false, true,
    false)), (String ((Ascii (false, true, false, false, true, false, true,
    false)), (String ((Ascii (true, false, true, false, false, false, true,
    false)), (String ((Ascii (true, true, false, false, true, false, true,
    false)), (String ((Ascii (false, false, false, false, true, false, true,
    false)), EmptyString))))))))))))))))

(** val show_decode : bytes -> text **)

let show_decode buf =
  match from_buffer buf with
  | Some p -> show_packet p
  | None ->
    s2t (String ((Ascii (true, false, true, false, false, false, true,
      false)), (String ((Ascii (false, true, false, false, true, false, true,
      false)), (String ((Ascii (false, true, false, false, true, false, true,
      false)), EmptyString))))))

(** val show_sres : sres -> text **)

let show_sres = function
| SOk (off, b) ->
  app
    (s2t (String ((Ascii (true, true, true, true, false, false, true,
      false)), (String ((Ascii (true, true, false, true, false, false, true,
      false)), (String ((Ascii (false, false, false, false, false, true,
      false, false)), (String ((Ascii (true, true, true, true, false, true,
      true, false)), (String ((Ascii (false, true, true, false, false, true,
      true, false)), (String ((Ascii (false, true, true, false, false, true,
      true, false)), (String ((Ascii (true, false, true, true, true, true,
      false, false)), EmptyString)))))))))))))))
    (app (show_N off)
      (app
        (s2t (String ((Ascii (false, false, false, false, false, true, false,
          false)), (String ((Ascii (false, false, false, true, true, true,
          true, false)), EmptyString))))) (hex b)))
| SErr e ->
  (match e with
   | EMem ->
     s2t (String ((Ascii (true, false, true, false, false, false, true,
       false)), (String ((Ascii (false, true, false, false, true, false,
       true, false)), (String ((Ascii (false, true, false, false, true,
       false, true, false)), (String ((Ascii (false, false, false, false,
       false, true, false, false)), (String ((Ascii (true, false, true, true,
       false, true, true, false)), (String ((Ascii (true, false, true, false,
       false, true, true, false)), (String ((Ascii (true, false, true, true,
       false, true, true, false)), EmptyString))))))))))))))
   | ECustom ->
     s2t (String ((Ascii (true, false, true, false, false, false, true,
       false)), (String ((Ascii (false, true, false, false, true, false,
       true, false)), (String ((Ascii (false, true, false, false, true,
       false, true, false)), (String ((Ascii (false, false, false, false,
       false, true, false, false)), (String ((Ascii (true, true, false,
       false, false, true, true, false)), (String ((Ascii (true, false, true,
       false, true, true, true, false)), (String ((Ascii (true, true, false,
       false, true, true, true, false)), (String ((Ascii (false, false, true,
       false, true, true, true, false)), (String ((Ascii (true, true, true,
       true, false, true, true, false)), (String ((Ascii (true, false, true,
       true, false, true, true, false)), EmptyString))))))))))))))))))))
   | EPayload ->
     s2t (String ((Ascii (true, false, true, false, false, false, true,
       false)), (String ((Ascii (false, true, false, false, true, false,
       true, false)), (String ((Ascii (false, true, false, false, true,
       false, true, false)), (String ((Ascii (false, false, false, false,
       false, true, false, false)), (String ((Ascii (false, false, false,
       false, true, true, true, false)), (String ((Ascii (true, false, false,
       false, false, true, true, false)), (String ((Ascii (true, false,
       false, true, true, true, true, false)), (String ((Ascii (false, false,
       true, true, false, true, true, false)), (String ((Ascii (true, true,
       true, true, false, true, true, false)), (String ((Ascii (true, false,
       false, false, false, true, true, false)), (String ((Ascii (false,
       false, true, false, false, true, true, false)),
       EmptyString)))))))))))))))))))))))

(** val show_reader_end : reader -> text **)

let show_reader_end r =
  app
    (s2t (String ((Ascii (true, false, true, false, false, true, true,
      false)), (String ((Ascii (false, true, true, true, false, true, true,
      false)), (String ((Ascii (false, false, true, false, false, true, true,
      false)), (String ((Ascii (false, false, false, false, false, true,
      false, false)), (String ((Ascii (false, true, false, false, true, true,
      true, false)), (String ((Ascii (false, true, false, false, false, true,
      true, false)), (String ((Ascii (true, false, true, true, true, true,
      false, false)), EmptyString)))))))))))))))
    (app (show_N (read_bytes r))
      (app
        (s2t (String ((Ascii (false, false, false, false, false, true, false,
          false)), (String ((Ascii (false, false, false, false, true, true,
          true, false)), (String ((Ascii (false, false, true, true, false,
          true, true, false)), (String ((Ascii (true, false, true, true,
          true, true, false, false)), EmptyString)))))))))
        (show_optN r.rplen)))

(** val reader_run_fuel : nat -> reader -> bytes -> n list -> text -> text **)

let rec reader_run_fuel fuel r input frags acc =
  match fuel with
  | O ->
    app acc
      (s2t (String ((Ascii (false, true, true, false, false, false, true,
        false)), (String ((Ascii (true, false, true, false, true, false,
        true, false)), (String ((Ascii (true, false, true, false, false,
        false, true, false)), (String ((Ascii (false, false, true, true,
        false, false, true, false)), EmptyString)))))))))
  | S f ->
    if packet_available r
    then (match take_packet r with
          | Some p0 ->
            let (p1, o) = p0 in
            let (r', pl) = p1 in
            (match o with
             | Some p ->
               reader_run_fuel f r' input frags
                 (app acc
                   (app
                     (s2t (String ((Ascii (false, false, false, false, true,
                       true, true, false)), (String ((Ascii (true, true,
                       false, true, false, true, true, false)), (String
                       ((Ascii (false, false, true, false, true, true, true,
                       false)), (String ((Ascii (false, false, false, false,
                       false, true, false, false)), EmptyString)))))))))
                     (app (show_N pl)
                       (app
                         (s2t (String ((Ascii (false, false, false, false,
                           false, true, false, false)), EmptyString)))
                         (app (show_packet p)
                           (s2t (String ((Ascii (true, true, false, true,
                             true, true, false, false)), EmptyString))))))))
             | None ->
               reader_run_fuel f r' input frags
                 (app acc
                   (s2t (String ((Ascii (false, false, false, false, true,
                     true, true, false)), (String ((Ascii (true, true, false,
                     true, false, true, true, false)), (String ((Ascii
                     (false, false, true, false, true, true, true, false)),
                     (String ((Ascii (false, false, false, false, false,
                     true, false, false)), (String ((Ascii (true, false,
                     true, false, false, false, true, false)), (String
                     ((Ascii (false, true, false, false, true, false, true,
                     false)), (String ((Ascii (false, true, false, false,
                     true, false, true, false)), (String ((Ascii (true, true,
                     false, true, true, true, false, false)),
                     EmptyString)))))))))))))))))))
          | None ->
            app acc
              (s2t (String ((Ascii (false, false, false, false, true, true,
                true, false)), (String ((Ascii (true, true, false, true,
                false, true, true, false)), (String ((Ascii (false, false,
                true, false, true, true, true, false)), (String ((Ascii
                (false, false, false, false, false, true, false, false)),
                (String ((Ascii (false, true, true, true, false, false, true,
                false)), (String ((Ascii (true, true, true, true, false,
                false, true, false)), (String ((Ascii (false, true, true,
                true, false, false, true, false)), (String ((Ascii (true,
                false, true, false, false, false, true, false)), (String
                ((Ascii (true, true, false, true, true, true, false, false)),
                EmptyString))))))))))))))))))))
    else let (r', o) = receive_buffer r in
         (match o with
          | Some w ->
            let acc' =
              app acc
                (app
                  (s2t (String ((Ascii (true, true, true, false, true, true,
                    true, false)), (String ((Ascii (true, false, false, true,
                    false, true, true, false)), (String ((Ascii (false, true,
                    true, true, false, true, true, false)), (String ((Ascii
                    (false, false, false, false, false, true, false, false)),
                    EmptyString)))))))))
                  (app (show_N w)
                    (s2t (String ((Ascii (true, true, false, true, true,
                      true, false, false)), EmptyString)))))
            in
            if (||) (N.eqb w N0) (N.eqb (lenN input) N0)
            then app acc' (show_reader_end r')
            else let req = match frags with
                           | [] -> Npos XH
                           | x :: _ -> x in
                 let cnt = N.min (N.min (N.max req (Npos XH)) w) (lenN input)
                 in
                 reader_run_fuel f (commit r' (takeN cnt input))
                   (dropN cnt input) (tl frags) acc'
          | None ->
            app acc
              (app
                (s2t (String ((Ascii (true, true, true, false, true, true,
                  true, false)), (String ((Ascii (true, false, false, true,
                  false, true, true, false)), (String ((Ascii (false, true,
                  true, true, false, true, true, false)), (String ((Ascii
                  (false, false, false, false, false, true, false, false)),
                  (String ((Ascii (true, false, true, false, false, false,
                  true, false)), (String ((Ascii (false, true, false, false,
                  true, false, true, false)), (String ((Ascii (false, true,
                  false, false, true, false, true, false)), (String ((Ascii
                  (true, true, false, true, true, true, false, false)),
                  EmptyString))))))))))))))))) (show_reader_end r')))

(** val show_reader_run : n -> bytes -> n list -> text **)

let show_reader_run rx input frags =
  reader_run_fuel (add (mul (S (S O)) (length input)) (S (S (S (S O)))))
    (reader_new rx) input frags []

type 'a parser0 = n list -> ('a * n list) option

(** val p_ret : 'a1 -> 'a1 parser0 **)

let p_ret a l =
  Some (a, l)

(** val p_bind : 'a1 parser0 -> ('a1 -> 'a2 parser0) -> 'a2 parser0 **)

let p_bind p f l =
  match p l with
  | Some p0 -> let (a, r) = p0 in f a r
  | None -> None

(** val p_N : n parser0 **)

let p_N = function
| [] -> None
| x :: t -> Some (x, t)

(** val p_bool : bool parser0 **)

let p_bool =
  p_bind p_N (fun x -> p_ret (negb (N.eqb x N0)))

(** val p_count : nat -> 'a1 parser0 -> n -> 'a1 list parser0 **)

let rec p_count fuel p n0 =
  match fuel with
  | O -> (fun _ -> None)
  | S f ->
    if N.eqb n0 N0
    then p_ret []
    else p_bind p (fun x ->
           p_bind (p_count f p (N.pred n0)) (fun r -> p_ret (x :: r)))

(** val p_list : 'a1 parser0 -> 'a1 list parser0 **)

let p_list p = function
| [] -> None
| n0 :: t -> p_count (S (length t)) p n0 t

(** val p_bytes : bytes parser0 **)

let p_bytes =
  p_list p_N

(** val p_opt : 'a1 parser0 -> 'a1 option parser0 **)

let p_opt p =
  p_bind p_N (fun t ->
    if N.eqb t N0 then p_ret None else p_bind p (fun x -> p_ret (Some x)))

(** val p_kind : pkind parser0 **)

let p_kind =
  p_bind p_N (fun i l ->
    match nth_error all_kinds (N.to_nat i) with
    | Some k -> Some (k, l)
    | None -> None)

(** val p_prop : prop parser0 **)

let p_prop =
  p_bind p_kind (fun k ->
    p_bind p_N (fun n0 ->
      p_bind p_bytes (fun d ->
        p_bind p_bytes (fun d2 -> p_ret (mkprop k n0 d d2)))))

(** val p_ctx : pctx parser0 **)

let p_ctx =
  p_bind p_N (fun i l ->
    match nth_error all_ctx (N.to_nat i) with
    | Some c -> Some (c, l)
    | None -> None)

(** val p_qos : qos parser0 **)

let p_qos =
  p_bind p_N (fun i l ->
    match qos_of_n i with
    | Some q -> Some (q, l)
    | None -> None)

(** val p_properties : properties parser0 **)

let p_properties =
  p_bind p_N (fun t ->
    if N.eqb t N0
    then p_bind (p_list p_prop) (fun l -> p_ret (PSlice l))
    else p_bind p_bytes (fun c ->
           p_bind (p_list p_prop) (fun l ->
             p_ret (PWithCorr ((mkprop KCorrelationData N0 c []), l)))))

(** val p_will : will parser0 **)

let p_will =
  p_bind p_bytes (fun t ->
    p_bind p_bytes (fun d ->
      p_bind p_qos (fun q ->
        p_bind p_bool (fun r ->
          p_bind (p_list p_prop) (fun ps ->
            p_ret { w_topic = t; w_data = d; w_qos = q; w_retain = r;
              w_props = ps })))))

(** val p_auth : auth parser0 **)

let p_auth =
  p_bind p_bytes (fun u ->
    p_bind p_bytes (fun p -> p_ret { a_user = u; a_pass = p }))

(** val p_connect_req : connect_req parser0 **)

let p_connect_req =
  p_bind p_N (fun ka ->
    p_bind (p_list p_prop) (fun ps ->
      p_bind p_bytes (fun cid ->
        p_bind (p_opt p_auth) (fun a ->
          p_bind (p_opt p_will) (fun w ->
            p_bind p_bool (fun c ->
              p_ret { cq_keepalive = ka; cq_props = ps; cq_client_id = cid;
                cq_auth = a; cq_will = w; cq_clean = c }))))))

(** val p_publish_req : publish_req parser0 **)

let p_publish_req =
  p_bind p_bytes (fun t ->
    p_bind (p_opt p_N) (fun pid ->
      p_bind p_properties (fun ps ->
        p_bind p_bool (fun r ->
          p_bind p_qos (fun q ->
            p_bind p_bool (fun d ->
              p_bind p_bytes (fun pl ->
                p_ret { pq_topic = t; pq_pid = pid; pq_props = ps;
                  pq_retain = r; pq_qos = q; pq_dup = d; pq_payload = pl })))))))

(** val p_sub_topic : (bytes * sub_opts) parser0 **)

let p_sub_topic =
  p_bind p_bytes (fun t ->
    p_bind p_qos (fun q ->
      p_bind p_bool (fun nl ->
        p_bind p_bool (fun rap ->
          p_bind p_N (fun rh ->
            p_ret (t, { so_qos = q; so_no_local = nl; so_rap = rap; so_rh =
              rh }))))))

(** val p_subscribe_req : subscribe_req parser0 **)

let p_subscribe_req =
  p_bind p_N (fun pid ->
    p_bind (p_list p_prop) (fun ps ->
      p_bind (p_list p_sub_topic) (fun ts ->
        p_ret { sq_pid = pid; sq_props = ps; sq_topics = ts })))

(** val p_unsubscribe_req : unsubscribe_req parser0 **)

let p_unsubscribe_req =
  p_bind p_N (fun pid ->
    p_bind (p_list p_prop) (fun ps ->
      p_bind (p_list p_bytes) (fun ts ->
        p_ret { uq_pid = pid; uq_props = ps; uq_topics = ts })))

(** val p_disconnect_req : disconnect_req parser0 **)

let p_disconnect_req =
  p_bind (p_opt p_N) (fun r ->
    p_bind (p_opt (p_list p_prop)) (fun ps ->
      p_ret { dq_reason = r; dq_props = ps }))

(** val run_p : 'a1 parser0 -> ('a1 -> text) -> n list -> text **)

let run_p p f l =
  match p l with
  | Some p0 ->
    let (a, l0) = p0 in
    (match l0 with
     | [] -> f a
     | _ :: _ ->
       s2t (String ((Ascii (false, true, false, false, false, false, true,
         false)), (String ((Ascii (true, false, false, false, false, false,
         true, false)), (String ((Ascii (false, false, true, false, false,
         false, true, false)), (String ((Ascii (true, true, false, false,
         false, false, true, false)), (String ((Ascii (true, false, false,
         false, false, false, true, false)), (String ((Ascii (true, true,
         false, false, true, false, true, false)), (String ((Ascii (true,
         false, true, false, false, false, true, false)), (String ((Ascii
         (false, false, false, false, false, true, false, false)), (String
         ((Ascii (false, false, true, false, true, true, true, false)),
         (String ((Ascii (false, true, false, false, true, true, true,
         false)), (String ((Ascii (true, false, false, false, false, true,
         true, false)), (String ((Ascii (true, false, false, true, false,
         true, true, false)), (String ((Ascii (false, false, true, true,
         false, true, true, false)), (String ((Ascii (true, false, false,
         true, false, true, true, false)), (String ((Ascii (false, true,
         true, true, false, true, true, false)), (String ((Ascii (true, true,
         true, false, false, true, true, false)),
         EmptyString)))))))))))))))))))))))))))))))))
  | None ->
    s2t (String ((Ascii (false, true, false, false, false, false, true,
      false)), (String ((Ascii (true, false, false, false, false, false,
      true, false)), (String ((Ascii (false, false, true, false, false,
      false, true, false)), (String ((Ascii (true, true, false, false, false,
      false, true, false)), (String ((Ascii (true, false, false, false,
      false, false, true, false)), (String ((Ascii (true, true, false, false,
      true, false, true, false)), (String ((Ascii (true, false, true, false,
      false, false, true, false)), (String ((Ascii (false, false, false,
      false, false, true, false, false)), (String ((Ascii (false, false,
      false, false, true, true, true, false)), (String ((Ascii (true, false,
      false, false, false, true, true, false)), (String ((Ascii (false, true,
      false, false, true, true, true, false)), (String ((Ascii (true, true,
      false, false, true, true, true, false)), (String ((Ascii (true, false,
      true, false, false, true, true, false)),
      EmptyString))))))))))))))))))))))))))

(** val exec_codec : n -> n list -> text option **)

let exec_codec cmd l =
  if N.eqb cmd (Npos XH)
  then Some (run_p p_bytes show_decode l)
  else if N.eqb cmd (Npos (XO XH))
       then Some
              (run_p
                (p_bind p_N (fun rx ->
                  p_bind p_bytes (fun i ->
                    p_bind (p_list p_N) (fun f -> p_ret ((rx, i), f)))))
                (fun pat ->
                let (p, f) = pat in let (rx, i) = p in show_reader_run rx i f)
                l)
       else if N.eqb cmd (Npos (XI XH))
            then Some
                   (run_p
                     (p_bind p_prop (fun p ->
                       p_bind p_ctx (fun c -> p_ret (p, c)))) (fun pat ->
                     let (p, c) = pat in show_bool (is_valid_for p c)) l)
            else if N.eqb cmd (Npos (XO (XO XH)))
                 then Some
                        (run_p
                          (p_bind p_N (fun cap ->
                            p_bind p_connect_req (fun r -> p_ret (cap, r))))
                          (fun pat ->
                          let (cap, r) = pat in show_sres (enc_connect cap r))
                          l)
                 else if N.eqb cmd (Npos (XI (XO XH)))
                      then Some
                             (run_p
                               (p_bind p_N (fun cap ->
                                 p_bind p_publish_req (fun r ->
                                   p_ret (cap, r)))) (fun pat ->
                               let (cap, r) = pat in
                               show_sres (enc_publish cap r)) l)
                      else if N.eqb cmd (Npos (XO (XI XH)))
                           then Some
                                  (run_p
                                    (p_bind p_N (fun cap ->
                                      p_bind p_subscribe_req (fun r ->
                                        p_ret (cap, r)))) (fun pat ->
                                    let (cap, r) = pat in
                                    show_sres (enc_subscribe cap r)) l)
                           else if N.eqb cmd (Npos (XI (XI XH)))
                                then Some
                                       (run_p
                                         (p_bind p_N (fun cap ->
                                           p_bind p_unsubscribe_req (fun r ->
                                             p_ret (cap, r)))) (fun pat ->
                                         let (cap, r) = pat in
                                         show_sres (enc_unsubscribe cap r)) l)
                                else if N.eqb cmd (Npos (XO (XO (XO XH))))
                                     then Some
                                            (run_p
                                              (p_bind p_N (fun cap ->
                                                p_bind p_disconnect_req
                                                  (fun r -> p_ret (cap, r))))
                                              (fun pat ->
                                              let (cap, r) = pat in
                                              show_sres (enc_disconnect cap r))
                                              l)
                                     else if N.eqb cmd (Npos (XI (XO (XO
                                               XH))))
                                          then Some
                                                 (run_p
                                                   (p_bind p_N (fun cap ->
                                                     p_bind p_N (fun k ->
                                                       p_bind p_N (fun pid ->
                                                         p_bind p_N
                                                           (fun rc ->
                                                           p_ret (((cap, k),
                                                             pid), rc))))))
                                                   (fun pat ->
                                                   let (p, rc) = pat in
                                                   let (p0, pid) = p in
                                                   let (cap, k) = p0 in
                                                   show_sres
                                                     (if N.eqb k (Npos (XO
                                                           (XO (XI XH))))
                                                      then enc_pingreq cap
                                                      else enc_ack cap k pid
                                                             rc)) l)
                                          else None

(** val exec : n list -> text **)

let exec = function
| [] ->
  s2t (String ((Ascii (false, true, false, false, false, false, true,
    false)), (String ((Ascii (true, false, false, false, false, false, true,
    false)), (String ((Ascii (false, false, true, false, false, false, true,
    false)), (String ((Ascii (true, true, false, false, false, false, true,
    false)), (String ((Ascii (true, false, false, false, false, false, true,
    false)), (String ((Ascii (true, true, false, false, true, false, true,
    false)), (String ((Ascii (true, false, true, false, false, false, true,
    false)), (String ((Ascii (false, false, false, false, false, true, false,
    false)), (String ((Ascii (true, false, true, false, false, true, true,
    false)), (String ((Ascii (true, false, true, true, false, true, true,
    false)), (String ((Ascii (false, false, false, false, true, true, true,
    false)), (String ((Ascii (false, false, true, false, true, true, true,
    false)), (String ((Ascii (true, false, false, true, true, true, true,
    false)), EmptyString))))))))))))))))))))))))))
| cmd :: rest ->
  (match exec_codec cmd rest with
   | Some t -> t
   | None ->
     s2t (String ((Ascii (false, true, false, false, false, false, true,
       false)), (String ((Ascii (true, false, false, false, false, false,
       true, false)), (String ((Ascii (false, false, true, false, false,
       false, true, false)), (String ((Ascii (true, true, false, false,
       false, false, true, false)), (String ((Ascii (true, false, false,
       false, false, false, true, false)), (String ((Ascii (true, true,
       false, false, true, false, true, false)), (String ((Ascii (true,
       false, true, false, false, false, true, false)), (String ((Ascii
       (false, false, false, false, false, true, false, false)), (String
       ((Ascii (true, true, false, false, false, true, true, false)), (String
       ((Ascii (true, false, true, true, false, true, true, false)), (String
       ((Ascii (false, false, true, false, false, true, true, false)),
       EmptyString)))))))))))))))))))))))
