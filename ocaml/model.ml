
(** val negb : bool -> bool **)

let negb = function
| true -> false
| false -> true

type nat =
| O
| S of nat

(** val fst : ('a1 * 'a2) -> 'a1 **)

let fst = function
| (x, _) -> x

(** val snd : ('a1 * 'a2) -> 'a2 **)

let snd = function
| (_, y) -> y

(** val length : 'a1 list -> nat **)

let rec length = function
| [] -> O
| _ :: l' -> S (length l')

(** val app : 'a1 list -> 'a1 list -> 'a1 list **)

let rec app l m =
  match l with
  | [] -> m
  | a :: l1 -> a :: (app l1 m)

type comparison =
| Eq
| Lt
| Gt

module Coq__1 = struct
 (** val add : nat -> nat -> nat **)
 let rec add n0 m =
   match n0 with
   | O -> m
   | S p -> S (add p m)
end
include Coq__1

(** val mul : nat -> nat -> nat **)

let rec mul n0 m =
  match n0 with
  | O -> O
  | S p -> add m (mul p m)

type positive =
| XI of positive
| XO of positive
| XH

type n =
| N0
| Npos of positive

module Pos =
 struct
  type mask =
  | IsNul
  | IsPos of positive
  | IsNeg
 end

module Coq_Pos =
 struct
  (** val succ : positive -> positive **)

  let rec succ = function
  | XI p -> XO (succ p)
  | XO p -> XI p
  | XH -> XO XH

  (** val add : positive -> positive -> positive **)

  let rec add x y =
    match x with
    | XI p ->
      (match y with
       | XI q -> XO (add_carry p q)
       | XO q -> XI (add p q)
       | XH -> XO (succ p))
    | XO p ->
      (match y with
       | XI q -> XI (add p q)
       | XO q -> XO (add p q)
       | XH -> XI p)
    | XH -> (match y with
             | XI q -> XO (succ q)
             | XO q -> XI q
             | XH -> XO XH)

  (** val add_carry : positive -> positive -> positive **)

  and add_carry x y =
    match x with
    | XI p ->
      (match y with
       | XI q -> XI (add_carry p q)
       | XO q -> XO (add_carry p q)
       | XH -> XI (succ p))
    | XO p ->
      (match y with
       | XI q -> XO (add_carry p q)
       | XO q -> XI (add p q)
       | XH -> XO (succ p))
    | XH ->
      (match y with
       | XI q -> XI (succ q)
       | XO q -> XO (succ q)
       | XH -> XI XH)

  (** val pred_double : positive -> positive **)

  let rec pred_double = function
  | XI p -> XI (XO p)
  | XO p -> XI (pred_double p)
  | XH -> XH

  (** val pred_N : positive -> n **)

  let pred_N = function
  | XI p -> Npos (XO p)
  | XO p -> Npos (pred_double p)
  | XH -> N0

  type mask = Pos.mask =
  | IsNul
  | IsPos of positive
  | IsNeg

  (** val succ_double_mask : mask -> mask **)

  let succ_double_mask = function
  | IsNul -> IsPos XH
  | IsPos p -> IsPos (XI p)
  | IsNeg -> IsNeg

  (** val double_mask : mask -> mask **)

  let double_mask = function
  | IsPos p -> IsPos (XO p)
  | x0 -> x0

  (** val double_pred_mask : positive -> mask **)

  let double_pred_mask = function
  | XI p -> IsPos (XO (XO p))
  | XO p -> IsPos (XO (pred_double p))
  | XH -> IsNul

  (** val sub_mask : positive -> positive -> mask **)

  let rec sub_mask x y =
    match x with
    | XI p ->
      (match y with
       | XI q -> double_mask (sub_mask p q)
       | XO q -> succ_double_mask (sub_mask p q)
       | XH -> IsPos (XO p))
    | XO p ->
      (match y with
       | XI q -> succ_double_mask (sub_mask_carry p q)
       | XO q -> double_mask (sub_mask p q)
       | XH -> IsPos (pred_double p))
    | XH -> (match y with
             | XH -> IsNul
             | _ -> IsNeg)

  (** val sub_mask_carry : positive -> positive -> mask **)

  and sub_mask_carry x y =
    match x with
    | XI p ->
      (match y with
       | XI q -> succ_double_mask (sub_mask_carry p q)
       | XO q -> double_mask (sub_mask p q)
       | XH -> IsPos (pred_double p))
    | XO p ->
      (match y with
       | XI q -> double_mask (sub_mask_carry p q)
       | XO q -> succ_double_mask (sub_mask_carry p q)
       | XH -> double_pred_mask p)
    | XH -> IsNeg

  (** val mul : positive -> positive -> positive **)

  let rec mul x y =
    match x with
    | XI p -> add y (XO (mul p y))
    | XO p -> XO (mul p y)
    | XH -> y

  (** val iter : ('a1 -> 'a1) -> 'a1 -> positive -> 'a1 **)

  let rec iter f x = function
  | XI n' -> f (iter f (iter f x n') n')
  | XO n' -> iter f (iter f x n') n'
  | XH -> f x

  (** val pow : positive -> positive -> positive **)

  let pow x =
    iter (mul x) XH

  (** val size_nat : positive -> nat **)

  let rec size_nat = function
  | XI p0 -> S (size_nat p0)
  | XO p0 -> S (size_nat p0)
  | XH -> S O

  (** val compare_cont : comparison -> positive -> positive -> comparison **)

  let rec compare_cont r x y =
    match x with
    | XI p ->
      (match y with
       | XI q -> compare_cont r p q
       | XO q -> compare_cont Gt p q
       | XH -> Gt)
    | XO p ->
      (match y with
       | XI q -> compare_cont Lt p q
       | XO q -> compare_cont r p q
       | XH -> Gt)
    | XH -> (match y with
             | XH -> r
             | _ -> Lt)

  (** val compare : positive -> positive -> comparison **)

  let compare =
    compare_cont Eq

  (** val eqb : positive -> positive -> bool **)

  let rec eqb p q =
    match p with
    | XI p0 -> (match q with
                | XI q0 -> eqb p0 q0
                | _ -> false)
    | XO p0 -> (match q with
                | XO q0 -> eqb p0 q0
                | _ -> false)
    | XH -> (match q with
             | XH -> true
             | _ -> false)

  (** val testbit : positive -> n -> bool **)

  let rec testbit p n0 =
    match p with
    | XI p0 -> (match n0 with
                | N0 -> true
                | Npos n1 -> testbit p0 (pred_N n1))
    | XO p0 -> (match n0 with
                | N0 -> false
                | Npos n1 -> testbit p0 (pred_N n1))
    | XH -> (match n0 with
             | N0 -> true
             | Npos _ -> false)

  (** val iter_op : ('a1 -> 'a1 -> 'a1) -> positive -> 'a1 -> 'a1 **)

  let rec iter_op op0 p a =
    match p with
    | XI p0 -> op0 a (iter_op op0 p0 (op0 a a))
    | XO p0 -> iter_op op0 p0 (op0 a a)
    | XH -> a

  (** val to_nat : positive -> nat **)

  let to_nat x =
    iter_op Coq__1.add x (S O)
 end

module N =
 struct
  (** val succ_double : n -> n **)

  let succ_double = function
  | N0 -> Npos XH
  | Npos p -> Npos (XI p)

  (** val double : n -> n **)

  let double = function
  | N0 -> N0
  | Npos p -> Npos (XO p)

  (** val succ : n -> n **)

  let succ = function
  | N0 -> Npos XH
  | Npos p -> Npos (Coq_Pos.succ p)

  (** val pred : n -> n **)

  let pred = function
  | N0 -> N0
  | Npos p -> Coq_Pos.pred_N p

  (** val add : n -> n -> n **)

  let add n0 m =
    match n0 with
    | N0 -> m
    | Npos p -> (match m with
                 | N0 -> n0
                 | Npos q -> Npos (Coq_Pos.add p q))

  (** val sub : n -> n -> n **)

  let sub n0 m =
    match n0 with
    | N0 -> N0
    | Npos n' ->
      (match m with
       | N0 -> n0
       | Npos m' ->
         (match Coq_Pos.sub_mask n' m' with
          | Coq_Pos.IsPos p -> Npos p
          | _ -> N0))

  (** val mul : n -> n -> n **)

  let mul n0 m =
    match n0 with
    | N0 -> N0
    | Npos p -> (match m with
                 | N0 -> N0
                 | Npos q -> Npos (Coq_Pos.mul p q))

  (** val compare : n -> n -> comparison **)

  let compare n0 m =
    match n0 with
    | N0 -> (match m with
             | N0 -> Eq
             | Npos _ -> Lt)
    | Npos n' -> (match m with
                  | N0 -> Gt
                  | Npos m' -> Coq_Pos.compare n' m')

  (** val eqb : n -> n -> bool **)

  let eqb n0 m =
    match n0 with
    | N0 -> (match m with
             | N0 -> true
             | Npos _ -> false)
    | Npos p -> (match m with
                 | N0 -> false
                 | Npos q -> Coq_Pos.eqb p q)

  (** val leb : n -> n -> bool **)

  let leb x y =
    match compare x y with
    | Gt -> false
    | _ -> true

  (** val ltb : n -> n -> bool **)

  let ltb x y =
    match compare x y with
    | Lt -> true
    | _ -> false

  (** val min : n -> n -> n **)

  let min n0 n' =
    match compare n0 n' with
    | Gt -> n'
    | _ -> n0

  (** val max : n -> n -> n **)

  let max n0 n' =
    match compare n0 n' with
    | Gt -> n0
    | _ -> n'

  (** val div2 : n -> n **)

  let div2 = function
  | N0 -> N0
  | Npos p0 -> (match p0 with
                | XI p -> Npos p
                | XO p -> Npos p
                | XH -> N0)

  (** val even : n -> bool **)

  let even = function
  | N0 -> true
  | Npos p -> (match p with
               | XO _ -> true
               | _ -> false)

  (** val odd : n -> bool **)

  let odd n0 =
    negb (even n0)

  (** val pow : n -> n -> n **)

  let pow n0 = function
  | N0 -> Npos XH
  | Npos p0 -> (match n0 with
                | N0 -> N0
                | Npos q -> Npos (Coq_Pos.pow q p0))

  (** val size_nat : n -> nat **)

  let size_nat = function
  | N0 -> O
  | Npos p -> Coq_Pos.size_nat p

  (** val pos_div_eucl : positive -> n -> n * n **)

  let rec pos_div_eucl a b =
    match a with
    | XI a' ->
      let (q, r) = pos_div_eucl a' b in
      let r' = succ_double r in
      if leb b r' then ((succ_double q), (sub r' b)) else ((double q), r')
    | XO a' ->
      let (q, r) = pos_div_eucl a' b in
      let r' = double r in
      if leb b r' then ((succ_double q), (sub r' b)) else ((double q), r')
    | XH ->
      (match b with
       | N0 -> (N0, (Npos XH))
       | Npos p -> (match p with
                    | XH -> ((Npos XH), N0)
                    | _ -> (N0, (Npos XH))))

  (** val div_eucl : n -> n -> n * n **)

  let div_eucl a b =
    match a with
    | N0 -> (N0, N0)
    | Npos na -> (match b with
                  | N0 -> (N0, a)
                  | Npos _ -> pos_div_eucl na b)

  (** val div : n -> n -> n **)

  let div a b =
    fst (div_eucl a b)

  (** val modulo : n -> n -> n **)

  let modulo a b =
    snd (div_eucl a b)

  (** val shiftr : n -> n -> n **)

  let shiftr a = function
  | N0 -> a
  | Npos p -> Coq_Pos.iter div2 a p

  (** val testbit : n -> n -> bool **)

  let testbit a n0 =
    match a with
    | N0 -> false
    | Npos p -> Coq_Pos.testbit p n0

  (** val to_nat : n -> nat **)

  let to_nat = function
  | N0 -> O
  | Npos p -> Coq_Pos.to_nat p
 end

(** val tl : 'a1 list -> 'a1 list **)

let tl = function
| [] -> []
| _ :: m -> m

(** val nth_error : 'a1 list -> nat -> 'a1 option **)

let rec nth_error l = function
| O -> (match l with
        | [] -> None
        | x :: _ -> Some x)
| S n1 -> (match l with
           | [] -> None
           | _ :: l0 -> nth_error l0 n1)

(** val rev : 'a1 list -> 'a1 list **)

let rec rev = function
| [] -> []
| x :: l' -> app (rev l') (x :: [])

(** val map : ('a1 -> 'a2) -> 'a1 list -> 'a2 list **)

let rec map f = function
| [] -> []
| a :: t -> (f a) :: (map f t)

(** val flat_map : ('a1 -> 'a2 list) -> 'a1 list -> 'a2 list **)

let rec flat_map f = function
| [] -> []
| x :: t -> app (f x) (flat_map f t)

(** val fold_left : ('a1 -> 'a2 -> 'a1) -> 'a2 list -> 'a1 -> 'a1 **)

let rec fold_left f l a0 =
  match l with
  | [] -> a0
  | b :: t -> fold_left f t (f a0 b)

(** val existsb : ('a1 -> bool) -> 'a1 list -> bool **)

let rec existsb f = function
| [] -> false
| a :: l0 -> (||) (f a) (existsb f l0)

(** val forallb : ('a1 -> bool) -> 'a1 list -> bool **)

let rec forallb f = function
| [] -> true
| a :: l0 -> (&&) (f a) (forallb f l0)

(** val filter : ('a1 -> bool) -> 'a1 list -> 'a1 list **)

let rec filter f = function
| [] -> []
| x :: l0 -> if f x then x :: (filter f l0) else filter f l0

(** val find : ('a1 -> bool) -> 'a1 list -> 'a1 option **)

let rec find f = function
| [] -> None
| x :: tl0 -> if f x then Some x else find f tl0

type ascii =
| Ascii of bool * bool * bool * bool * bool * bool * bool * bool

(** val n_of_digits : bool list -> n **)

let rec n_of_digits = function
| [] -> N0
| b :: l' ->
  N.add (if b then Npos XH else N0) (N.mul (Npos (XO XH)) (n_of_digits l'))

(** val n_of_ascii : ascii -> n **)

let n_of_ascii = function
| Ascii (a0, a1, a2, a3, a4, a5, a6, a7) ->
  n_of_digits
    (a0 :: (a1 :: (a2 :: (a3 :: (a4 :: (a5 :: (a6 :: (a7 :: []))))))))

type string =
| EmptyString
| String of ascii * string

type bytes = n list

(** val lenN_acc : bytes -> n -> n **)

let rec lenN_acc l acc =
  match l with
  | [] -> acc
  | _ :: t -> lenN_acc t (N.succ acc)

(** val lenN : bytes -> n **)

let lenN l =
  lenN_acc l N0

(** val glen : 'a1 list -> n **)

let rec glen = function
| [] -> N0
| _ :: t -> N.succ (glen t)

(** val takeN : n -> 'a1 list -> 'a1 list **)

let rec takeN n0 = function
| [] -> []
| x :: t -> if N.eqb n0 N0 then [] else x :: (takeN (N.pred n0) t)

(** val dropN : n -> 'a1 list -> 'a1 list **)

let rec dropN n0 l = match l with
| [] -> []
| _ :: t -> if N.eqb n0 N0 then l else dropN (N.pred n0) t

(** val sliceN : n -> n -> 'a1 list -> 'a1 list **)

let sliceN off len l =
  takeN len (dropN off l)

(** val repeatN_fuel : nat -> 'a1 -> 'a1 list **)

let rec repeatN_fuel fuel x =
  match fuel with
  | O -> []
  | S f -> x :: (repeatN_fuel f x)

(** val zerosN : n -> bytes **)

let zerosN n0 =
  repeatN_fuel (N.to_nat n0) N0

(** val overwrite : bytes -> n -> bytes -> bytes **)

let overwrite l off d =
  app (takeN off l) (app d (dropN (N.add off (lenN d)) l))

(** val u16_be : n -> bytes **)

let u16_be v =
  (N.modulo (N.shiftr v (Npos (XO (XO (XO XH))))) (Npos (XO (XO (XO (XO (XO
    (XO (XO (XO XH)))))))))) :: ((N.modulo v (Npos (XO (XO (XO (XO (XO (XO
                                   (XO (XO XH)))))))))) :: [])

(** val u32_be : n -> bytes **)

let u32_be v =
  (N.modulo (N.shiftr v (Npos (XO (XO (XO (XI XH)))))) (Npos (XO (XO (XO (XO
    (XO (XO (XO (XO XH)))))))))) :: ((N.modulo
                                       (N.shiftr v (Npos (XO (XO (XO (XO
                                         XH)))))) (Npos (XO (XO (XO (XO (XO
                                       (XO (XO (XO XH)))))))))) :: ((N.modulo
                                                                    (N.shiftr
                                                                    v (Npos
                                                                    (XO (XO
                                                                    (XO
                                                                    XH)))))
                                                                    (Npos (XO
                                                                    (XO (XO
                                                                    (XO (XO
                                                                    (XO (XO
                                                                    (XO
                                                                    XH)))))))))) :: (
    (N.modulo v (Npos (XO (XO (XO (XO (XO (XO (XO (XO XH)))))))))) :: [])))

(** val list_eqb : bytes -> bytes -> bool **)

let rec list_eqb a b =
  match a with
  | [] -> (match b with
           | [] -> true
           | _ :: _ -> false)
  | x :: a' ->
    (match b with
     | [] -> false
     | y :: b' -> (&&) (N.eqb x y) (list_eqb a' b'))

(** val sumN : n list -> n **)

let rec sumN = function
| [] -> N0
| x :: t -> N.add x (sumN t)

(** val vARINT_MAX : n **)

let vARINT_MAX =
  Npos (XI (XI (XI (XI (XI (XI (XI (XI (XI (XI (XI (XI (XI (XI (XI (XI (XI
    (XI (XI (XI (XI (XI (XI (XI (XI (XI (XI XH)))))))))))))))))))))))))))

(** val varint_len : n -> n **)

let varint_len v =
  if N.leb v (Npos (XI (XI (XI (XI (XI (XI XH)))))))
  then Npos XH
  else if N.leb v (Npos (XI (XI (XI (XI (XI (XI (XI (XI (XI (XI (XI (XI (XI
            XH))))))))))))))
       then Npos (XO XH)
       else if N.leb v (Npos (XI (XI (XI (XI (XI (XI (XI (XI (XI (XI (XI (XI
                 (XI (XI (XI (XI (XI (XI (XI (XI XH)))))))))))))))))))))
            then Npos (XI XH)
            else Npos (XO (XO XH))

(** val varint_write_fuel : nat -> n -> bytes **)

let rec varint_write_fuel fuel v =
  match fuel with
  | O -> []
  | S f ->
    let b = N.modulo v (Npos (XO (XO (XO (XO (XO (XO (XO XH)))))))) in
    let v' = N.div v (Npos (XO (XO (XO (XO (XO (XO (XO XH)))))))) in
    if N.eqb v' N0
    then b :: []
    else (N.add b (Npos (XO (XO (XO (XO (XO (XO (XO XH))))))))) :: (varint_write_fuel
                                                                    f v')

(** val varint_write : n -> bytes option **)

let varint_write v =
  if N.ltb vARINT_MAX v
  then None
  else Some (varint_write_fuel (S (S (S (S O)))) v)

type vres =
| VOk of n * bytes
| VErrShort
| VErrBad

(** val varint_read_go : n list -> n -> bytes -> vres **)

let rec varint_read_go shifts value l =
  match shifts with
  | [] -> VErrBad
  | shift :: more ->
    (match l with
     | [] -> VErrShort
     | b :: t ->
       let part = N.modulo b (Npos (XO (XO (XO (XO (XO (XO (XO XH)))))))) in
       let value' = N.add value (N.mul part (N.pow (Npos (XO XH)) shift)) in
       if N.ltb b (Npos (XO (XO (XO (XO (XO (XO (XO XH))))))))
       then if (&&) (negb (N.eqb shift N0)) (N.eqb part N0)
            then VErrBad
            else VOk (value', t)
       else varint_read_go more value' t)

(** val varint_read : bytes -> vres **)

let varint_read l =
  varint_read_go (N0 :: ((Npos (XI (XI XH))) :: ((Npos (XO (XI (XI
    XH)))) :: ((Npos (XI (XO (XI (XO XH))))) :: [])))) N0 l

(** val probe_go : n -> nat -> n -> bytes -> n option **)

let rec probe_go idx cnt acc l =
  match cnt with
  | O -> None
  | S c ->
    (match l with
     | [] -> None
     | b :: t ->
       let acc' =
         N.add acc
           (N.mul (N.modulo b (Npos (XO (XO (XO (XO (XO (XO (XO XH)))))))))
             (N.pow (Npos (XO XH)) (N.mul idx (Npos (XI (XI XH))))))
       in
       if N.ltb b (Npos (XO (XO (XO (XO (XO (XO (XO XH))))))))
       then Some (N.add (N.add (Npos XH) (N.add (Npos XH) idx)) acc')
       else probe_go (N.add idx (Npos XH)) c acc' t)

(** val probe_len : bytes -> n option **)

let probe_len after_first =
  probe_go N0 (S (S (S (S O)))) N0 after_first

(** val inr : n -> n -> n -> bool **)

let inr lo hi b =
  (&&) (N.leb lo b) (N.leb b hi)

(** val cont : n -> bool **)

let cont b =
  inr (Npos (XO (XO (XO (XO (XO (XO (XO XH)))))))) (Npos (XI (XI (XI (XI (XI
    (XI (XO XH)))))))) b

(** val utf8_valid_fuel : nat -> bytes -> bool **)

let rec utf8_valid_fuel fuel l =
  match fuel with
  | O -> false
  | S f ->
    (match l with
     | [] -> true
     | b0 :: t ->
       if N.ltb b0 (Npos (XO (XO (XO (XO (XO (XO (XO XH))))))))
       then utf8_valid_fuel f t
       else if inr (Npos (XO (XI (XO (XO (XO (XO (XI XH)))))))) (Npos (XI (XI
                 (XI (XI (XI (XO (XI XH)))))))) b0
            then (match t with
                  | [] -> false
                  | b1 :: t' -> (&&) (cont b1) (utf8_valid_fuel f t'))
            else if N.eqb b0 (Npos (XO (XO (XO (XO (XO (XI (XI XH))))))))
                 then (match t with
                       | [] -> false
                       | b1 :: l0 ->
                         (match l0 with
                          | [] -> false
                          | b2 :: t' ->
                            (&&)
                              ((&&)
                                (inr (Npos (XO (XO (XO (XO (XO (XI (XO
                                  XH)))))))) (Npos (XI (XI (XI (XI (XI (XI
                                  (XO XH)))))))) b1) (cont b2))
                              (utf8_valid_fuel f t')))
                 else if (||)
                           (inr (Npos (XI (XO (XO (XO (XO (XI (XI XH))))))))
                             (Npos (XO (XO (XI (XI (XO (XI (XI XH)))))))) b0)
                           (inr (Npos (XO (XI (XI (XI (XO (XI (XI XH))))))))
                             (Npos (XI (XI (XI (XI (XO (XI (XI XH)))))))) b0)
                      then (match t with
                            | [] -> false
                            | b1 :: l0 ->
                              (match l0 with
                               | [] -> false
                               | b2 :: t' ->
                                 (&&) ((&&) (cont b1) (cont b2))
                                   (utf8_valid_fuel f t')))
                      else if N.eqb b0 (Npos (XI (XO (XI (XI (XO (XI (XI
                                XH))))))))
                           then (match t with
                                 | [] -> false
                                 | b1 :: l0 ->
                                   (match l0 with
                                    | [] -> false
                                    | b2 :: t' ->
                                      (&&)
                                        ((&&)
                                          (inr (Npos (XO (XO (XO (XO (XO (XO
                                            (XO XH)))))))) (Npos (XI (XI (XI
                                            (XI (XI (XO (XO XH)))))))) b1)
                                          (cont b2)) (utf8_valid_fuel f t')))
                           else if N.eqb b0 (Npos (XO (XO (XO (XO (XI (XI (XI
                                     XH))))))))
                                then (match t with
                                      | [] -> false
                                      | b1 :: l0 ->
                                        (match l0 with
                                         | [] -> false
                                         | b2 :: l1 ->
                                           (match l1 with
                                            | [] -> false
                                            | b3 :: t' ->
                                              (&&)
                                                ((&&)
                                                  ((&&)
                                                    (inr (Npos (XO (XO (XO
                                                      (XO (XI (XO (XO
                                                      XH)))))))) (Npos (XI
                                                      (XI (XI (XI (XI (XI (XO
                                                      XH)))))))) b1)
                                                    (cont b2)) (cont b3))
                                                (utf8_valid_fuel f t'))))
                                else if inr (Npos (XI (XO (XO (XO (XI (XI (XI
                                          XH)))))))) (Npos (XI (XI (XO (XO
                                          (XI (XI (XI XH)))))))) b0
                                     then (match t with
                                           | [] -> false
                                           | b1 :: l0 ->
                                             (match l0 with
                                              | [] -> false
                                              | b2 :: l1 ->
                                                (match l1 with
                                                 | [] -> false
                                                 | b3 :: t' ->
                                                   (&&)
                                                     ((&&)
                                                       ((&&) (cont b1)
                                                         (cont b2)) (cont b3))
                                                     (utf8_valid_fuel f t'))))
                                     else if N.eqb b0 (Npos (XO (XO (XI (XO
                                               (XI (XI (XI XH))))))))
                                          then (match t with
                                                | [] -> false
                                                | b1 :: l0 ->
                                                  (match l0 with
                                                   | [] -> false
                                                   | b2 :: l1 ->
                                                     (match l1 with
                                                      | [] -> false
                                                      | b3 :: t' ->
                                                        (&&)
                                                          ((&&)
                                                            ((&&)
                                                              (inr (Npos (XO
                                                                (XO (XO (XO
                                                                (XO (XO (XO
                                                                XH))))))))
                                                                (Npos (XI (XI
                                                                (XI (XI (XO
                                                                (XO (XO
                                                                XH)))))))) b1)
                                                              (cont b2))
                                                            (cont b3))
                                                          (utf8_valid_fuel f
                                                            t'))))
                                          else false)

(** val utf8_valid : bytes -> bool **)

let utf8_valid l =
  utf8_valid_fuel (S (length l)) l

type pkind =
| KPayloadFormatIndicator
| KMessageExpiryInterval
| KContentType
| KResponseTopic
| KCorrelationData
| KSubscriptionIdentifier
| KSessionExpiryInterval
| KAssignedClientIdentifier
| KServerKeepAlive
| KAuthenticationMethod
| KAuthenticationData
| KRequestProblemInformation
| KWillDelayInterval
| KRequestResponseInformation
| KResponseInformation
| KServerReference
| KReasonString
| KReceiveMaximum
| KTopicAliasMaximum
| KTopicAlias
| KMaximumQoS
| KRetainAvailable
| KUserProperty
| KMaximumPacketSize
| KWildcardSubscriptionAvailable
| KSubscriptionIdentifierAvailable
| KSharedSubscriptionAvailable

(** val all_kinds : pkind list **)

let all_kinds =
  KPayloadFormatIndicator :: (KMessageExpiryInterval :: (KContentType :: (KResponseTopic :: (KCorrelationData :: (KSubscriptionIdentifier :: (KSessionExpiryInterval :: (KAssignedClientIdentifier :: (KServerKeepAlive :: (KAuthenticationMethod :: (KAuthenticationData :: (KRequestProblemInformation :: (KWillDelayInterval :: (KRequestResponseInformation :: (KResponseInformation :: (KServerReference :: (KReasonString :: (KReceiveMaximum :: (KTopicAliasMaximum :: (KTopicAlias :: (KMaximumQoS :: (KRetainAvailable :: (KUserProperty :: (KMaximumPacketSize :: (KWildcardSubscriptionAvailable :: (KSubscriptionIdentifierAvailable :: (KSharedSubscriptionAvailable :: []))))))))))))))))))))))))))

(** val kind_id : pkind -> n **)

let kind_id = function
| KPayloadFormatIndicator -> Npos XH
| KMessageExpiryInterval -> Npos (XO XH)
| KContentType -> Npos (XI XH)
| KResponseTopic -> Npos (XO (XO (XO XH)))
| KCorrelationData -> Npos (XI (XO (XO XH)))
| KSubscriptionIdentifier -> Npos (XI (XI (XO XH)))
| KSessionExpiryInterval -> Npos (XI (XO (XO (XO XH))))
| KAssignedClientIdentifier -> Npos (XO (XI (XO (XO XH))))
| KServerKeepAlive -> Npos (XI (XI (XO (XO XH))))
| KAuthenticationMethod -> Npos (XI (XO (XI (XO XH))))
| KAuthenticationData -> Npos (XO (XI (XI (XO XH))))
| KRequestProblemInformation -> Npos (XI (XI (XI (XO XH))))
| KWillDelayInterval -> Npos (XO (XO (XO (XI XH))))
| KRequestResponseInformation -> Npos (XI (XO (XO (XI XH))))
| KResponseInformation -> Npos (XO (XI (XO (XI XH))))
| KServerReference -> Npos (XO (XO (XI (XI XH))))
| KReasonString -> Npos (XI (XI (XI (XI XH))))
| KReceiveMaximum -> Npos (XI (XO (XO (XO (XO XH)))))
| KTopicAliasMaximum -> Npos (XO (XI (XO (XO (XO XH)))))
| KTopicAlias -> Npos (XI (XI (XO (XO (XO XH)))))
| KMaximumQoS -> Npos (XO (XO (XI (XO (XO XH)))))
| KRetainAvailable -> Npos (XI (XO (XI (XO (XO XH)))))
| KUserProperty -> Npos (XO (XI (XI (XO (XO XH)))))
| KMaximumPacketSize -> Npos (XI (XI (XI (XO (XO XH)))))
| KWildcardSubscriptionAvailable -> Npos (XO (XO (XO (XI (XO XH)))))
| KSubscriptionIdentifierAvailable -> Npos (XI (XO (XO (XI (XO XH)))))
| KSharedSubscriptionAvailable -> Npos (XO (XI (XO (XI (XO XH)))))

(** val kind_of_id : n -> pkind option **)

let kind_of_id i =
  find (fun k -> N.eqb (kind_id k) i) all_kinds

type vshape =
| ShU8
| ShU16
| ShU32
| ShVar
| ShStr
| ShBin
| ShPair

(** val kind_shape : pkind -> vshape **)

let kind_shape = function
| KMessageExpiryInterval -> ShU32
| KContentType -> ShStr
| KResponseTopic -> ShStr
| KCorrelationData -> ShBin
| KSubscriptionIdentifier -> ShVar
| KSessionExpiryInterval -> ShU32
| KAssignedClientIdentifier -> ShStr
| KServerKeepAlive -> ShU16
| KAuthenticationMethod -> ShStr
| KAuthenticationData -> ShBin
| KWillDelayInterval -> ShU32
| KResponseInformation -> ShStr
| KServerReference -> ShStr
| KReasonString -> ShStr
| KReceiveMaximum -> ShU16
| KTopicAliasMaximum -> ShU16
| KTopicAlias -> ShU16
| KUserProperty -> ShPair
| KMaximumPacketSize -> ShU32
| _ -> ShU8

type prop = { pk : pkind; pnum : n; pdata : bytes; pdata2 : bytes }

type pctx =
| CtxPublish
| CtxSubscribe
| CtxUnsubscribe
| CtxDisconnect
| CtxWill

(** val all_ctx : pctx list **)

let all_ctx =
  CtxPublish :: (CtxSubscribe :: (CtxUnsubscribe :: (CtxDisconnect :: (CtxWill :: []))))

(** val has_valid_value : prop -> bool **)

let has_valid_value p =
  match p.pk with
  | KPayloadFormatIndicator -> N.leb p.pnum (Npos XH)
  | KSubscriptionIdentifier ->
    (&&) (N.leb (Npos XH) p.pnum) (N.leb p.pnum vARINT_MAX)
  | KRequestProblemInformation -> N.leb p.pnum (Npos XH)
  | KRequestResponseInformation -> N.leb p.pnum (Npos XH)
  | KTopicAlias -> negb (N.eqb p.pnum N0)
  | KMaximumQoS -> N.leb p.pnum (Npos (XO XH))
  | KRetainAvailable -> N.leb p.pnum (Npos XH)
  | KWildcardSubscriptionAvailable -> N.leb p.pnum (Npos XH)
  | KSubscriptionIdentifierAvailable -> N.leb p.pnum (Npos XH)
  | KSharedSubscriptionAvailable -> N.leb p.pnum (Npos XH)
  | _ -> true

(** val kind_valid_for : pkind -> pctx -> bool **)

let kind_valid_for k = function
| CtxPublish ->
  (match k with
   | KPayloadFormatIndicator -> true
   | KMessageExpiryInterval -> true
   | KContentType -> true
   | KResponseTopic -> true
   | KCorrelationData -> true
   | KTopicAlias -> true
   | KUserProperty -> true
   | _ -> false)
| CtxSubscribe ->
  (match k with
   | KSubscriptionIdentifier -> true
   | KUserProperty -> true
   | _ -> false)
| CtxUnsubscribe -> (match k with
                     | KUserProperty -> true
                     | _ -> false)
| CtxDisconnect ->
  (match k with
   | KSessionExpiryInterval -> true
   | KServerReference -> true
   | KReasonString -> true
   | KUserProperty -> true
   | _ -> false)
| CtxWill ->
  (match k with
   | KPayloadFormatIndicator -> true
   | KMessageExpiryInterval -> true
   | KContentType -> true
   | KResponseTopic -> true
   | KCorrelationData -> true
   | KWillDelayInterval -> true
   | KUserProperty -> true
   | _ -> false)

(** val is_valid_for : prop -> pctx -> bool **)

let is_valid_for p c =
  (&&) (has_valid_value p) (kind_valid_for p.pk c)

(** val prop_size : prop -> n **)

let prop_size p =
  let idl = varint_len (kind_id p.pk) in
  (match kind_shape p.pk with
   | ShU8 -> N.add (Npos XH) idl
   | ShU16 -> N.add (Npos (XO XH)) idl
   | ShU32 -> N.add (Npos (XO (XO XH))) idl
   | ShVar -> N.add (varint_len p.pnum) idl
   | ShPair ->
     N.add
       (N.add (N.add (lenN p.pdata2) (Npos (XO XH)))
         (N.add (lenN p.pdata) (Npos (XO XH)))) idl
   | _ -> N.add (N.add (lenN p.pdata) (Npos (XO XH))) idl)

(** val len_prefixed : bytes -> bytes option **)

let len_prefixed d =
  if N.ltb (Npos (XI (XI (XI (XI (XI (XI (XI (XI (XI (XI (XI (XI (XI (XI (XI
       XH)))))))))))))))) (lenN d)
  then None
  else Some (app (u16_be (lenN d)) d)

(** val prop_encode : prop -> bytes option **)

let prop_encode p =
  match varint_write (kind_id p.pk) with
  | Some idb ->
    (match kind_shape p.pk with
     | ShU8 -> Some (app idb (p.pnum :: []))
     | ShU16 -> Some (app idb (u16_be p.pnum))
     | ShU32 -> Some (app idb (u32_be p.pnum))
     | ShVar ->
       (match varint_write p.pnum with
        | Some v -> Some (app idb v)
        | None -> None)
     | ShPair ->
       (match len_prefixed p.pdata with
        | Some a ->
          (match len_prefixed p.pdata2 with
           | Some b -> Some (app idb (app a b))
           | None -> None)
        | None -> None)
     | _ ->
       (match len_prefixed p.pdata with
        | Some d -> Some (app idb d)
        | None -> None))
  | None -> None

(** val prop_chunks : prop -> bytes option list **)

let prop_chunks p =
  match prop_encode p with
  | Some bs -> (Some bs) :: []
  | None ->
    (match varint_write (kind_id p.pk) with
     | Some idb ->
       (match kind_shape p.pk with
        | ShPair ->
          (match len_prefixed p.pdata with
           | Some a -> (Some idb) :: ((Some a) :: (None :: []))
           | None -> (Some idb) :: (None :: []))
        | _ -> (Some idb) :: (None :: []))
     | None -> None :: [])

type properties =
| PSlice of prop list
| PEncoded of bytes
| PWithCorr of prop * prop list

(** val props_size : properties -> n **)

let props_size = function
| PSlice l -> sumN (map prop_size l)
| PEncoded b -> lenN b
| PWithCorr (c, l) -> N.add (sumN (map prop_size l)) (prop_size c)

type pdec =
| PDOk of prop * n
| PDErr of n

(** val take_exact : n -> bytes -> (bytes * bytes) option **)

let take_exact n0 l =
  if N.ltb (lenN l) n0 then None else Some ((takeN n0 l), (dropN n0 l))

(** val read_u16 : bytes -> (n * bytes) option **)

let read_u16 = function
| [] -> None
| a :: l0 ->
  (match l0 with
   | [] -> None
   | b :: t ->
     Some
       ((N.add (N.mul a (Npos (XO (XO (XO (XO (XO (XO (XO (XO XH)))))))))) b),
       t))

type fres =
| FOk of bytes * bytes * n
| FErr of n

(** val read_field : bool -> bytes -> fres **)

let read_field is_str l =
  match read_u16 l with
  | Some p ->
    let (n0, t) = p in
    (match take_exact n0 t with
     | Some p0 ->
       let (d, rest) = p0 in
       if (&&) is_str (negb (utf8_valid d))
       then FErr (N.add (Npos (XO XH)) n0)
       else FOk (d, rest, (N.add (Npos (XO XH)) n0))
     | None -> FErr (Npos (XO XH)))
  | None -> FErr (lenN l)

(** val varint_consumed : bytes -> n **)

let varint_consumed l =
  match varint_read l with
  | VOk (_, rest) -> N.sub (lenN l) (lenN rest)
  | VErrShort -> lenN l
  | VErrBad ->
    let rec go cnt l0 acc =
      match cnt with
      | O -> acc
      | S c ->
        (match l0 with
         | [] -> acc
         | b :: t ->
           if N.ltb b (Npos (XO (XO (XO (XO (XO (XO (XO XH))))))))
           then N.add acc (Npos XH)
           else go c t (N.add acc (Npos XH)))
    in go (S (S (S (S O)))) l N0

(** val mkprop : pkind -> n -> bytes -> bytes -> prop **)

let mkprop k n0 d d2 =
  { pk = k; pnum = n0; pdata = d; pdata2 = d2 }

(** val prop_decode : bytes -> pdec **)

let prop_decode l =
  match varint_read l with
  | VOk (id, rest) ->
    let c0 = N.sub (lenN l) (lenN rest) in
    (match kind_of_id id with
     | Some k ->
       (match kind_shape k with
        | ShU8 ->
          (match rest with
           | [] -> PDErr c0
           | b :: _ -> PDOk ((mkprop k b [] []), (N.add c0 (Npos XH))))
        | ShU16 ->
          (match read_u16 rest with
           | Some p ->
             let (v, _) = p in
             PDOk ((mkprop k v [] []), (N.add c0 (Npos (XO XH))))
           | None -> PDErr (N.add c0 (lenN rest)))
        | ShU32 ->
          (match rest with
           | [] -> PDErr c0
           | a :: l0 ->
             (match l0 with
              | [] -> PDErr c0
              | b :: l1 ->
                (match l1 with
                 | [] -> PDErr c0
                 | c :: l2 ->
                   (match l2 with
                    | [] -> PDErr c0
                    | d :: _ ->
                      PDOk
                        ((mkprop k
                           (N.add
                             (N.mul
                               (N.add
                                 (N.mul
                                   (N.add
                                     (N.mul a (Npos (XO (XO (XO (XO (XO (XO
                                       (XO (XO XH)))))))))) b) (Npos (XO (XO
                                   (XO (XO (XO (XO (XO (XO XH)))))))))) c)
                               (Npos (XO (XO (XO (XO (XO (XO (XO (XO
                               XH)))))))))) d) [] []),
                        (N.add c0 (Npos (XO (XO XH)))))))))
        | ShVar ->
          (match varint_read rest with
           | VOk (v, r2) ->
             PDOk ((mkprop k v [] []),
               (N.add c0 (N.sub (lenN rest) (lenN r2))))
           | _ -> PDErr (N.add c0 (varint_consumed rest)))
        | ShStr ->
          (match read_field true rest with
           | FOk (d, _, u) -> PDOk ((mkprop k N0 d []), (N.add c0 u))
           | FErr u -> PDErr (N.add c0 u))
        | ShBin ->
          (match read_field false rest with
           | FOk (d, _, u) -> PDOk ((mkprop k N0 d []), (N.add c0 u))
           | FErr u -> PDErr (N.add c0 u))
        | ShPair ->
          (match read_field true rest with
           | FOk (d, r2, u) ->
             (match read_field true r2 with
              | FOk (d2, _, u2) ->
                PDOk ((mkprop k N0 d d2), (N.add (N.add c0 u) u2))
              | FErr u2 -> PDErr (N.add (N.add c0 u) u2))
           | FErr u -> PDErr (N.add c0 u)))
     | None -> PDErr c0)
  | _ -> PDErr (varint_consumed l)

(** val props_iter_fuel : nat -> bytes -> prop option list **)

let rec props_iter_fuel fuel l =
  match fuel with
  | O -> []
  | S f ->
    (match l with
     | [] -> []
     | _ :: _ ->
       (match prop_decode l with
        | PDOk (p, u) -> (Some p) :: (props_iter_fuel f (dropN u l))
        | PDErr u -> None :: (props_iter_fuel f (dropN u l))))

(** val props_iter_encoded : bytes -> prop option list **)

let props_iter_encoded l =
  props_iter_fuel (length l) l

(** val props_iter : properties -> prop option list **)

let props_iter = function
| PSlice l -> map (fun x -> Some x) l
| PEncoded b -> props_iter_encoded b
| PWithCorr (c, l) -> (Some c) :: (map (fun x -> Some x) l)

(** val props_valid_for : properties -> pctx -> bool **)

let props_valid_for ps c =
  forallb (fun it ->
    match it with
    | Some p -> is_valid_for p c
    | None -> false) (props_iter ps)

(** val first_data : pkind -> prop option list -> bytes option **)

let rec first_data k = function
| [] -> None
| o :: t ->
  (match o with
   | Some p ->
     if N.eqb (kind_id p.pk) (kind_id k) then Some p.pdata else first_data k t
   | None -> first_data k t)

(** val response_topic : properties -> bytes option **)

let response_topic ps =
  first_data KResponseTopic (props_iter ps)

(** val correlation_data : properties -> bytes option **)

let correlation_data ps =
  first_data KCorrelationData (props_iter ps)

(** val with_properties : properties -> prop list -> properties **)

let with_properties self l =
  match self with
  | PWithCorr (c, _) -> PWithCorr (c, l)
  | _ -> PSlice l

(** val with_correlation : properties -> bytes -> properties **)

let with_correlation self d =
  let c = mkprop KCorrelationData N0 d [] in
  (match self with
   | PSlice l -> PWithCorr (c, l)
   | PEncoded _ -> PWithCorr (c, [])
   | PWithCorr (_, l) -> PWithCorr (c, l))

type serr =
| EMem
| ECustom
| EPay

type sres =
| SOk of n * bytes
| SErr of serr

type chunk = bytes option

(** val sat_sub : n -> n -> n **)

let sat_sub =
  N.sub

(** val ser_push : n -> n -> chunk list -> bytes -> sres **)

let rec ser_push cap idx cs acc =
  match cs with
  | [] -> SOk (idx, acc)
  | c :: t ->
    (match c with
     | Some d ->
       if N.ltb (sat_sub cap idx) (lenN d)
       then SErr EMem
       else ser_push cap (N.add idx (lenN d)) t (app acc d)
     | None -> SErr ECustom)

(** val finalize : n -> n -> bytes -> n -> n -> sres **)

let finalize cap idx body typ flags =
  match varint_write (N.sub idx (Npos (XI (XO XH)))) with
  | Some rl ->
    if N.ltb cap (Npos (XI (XO XH)))
    then SErr EMem
    else SOk ((N.sub (N.sub (Npos (XI (XO XH))) (lenN rl)) (Npos XH)),
           ((N.add (N.mul typ (Npos (XO (XO (XO (XO XH))))))
              (N.modulo flags (Npos (XO (XO (XO (XO XH))))))) :: (app rl body)))
  | None -> SErr EMem

(** val encode_chunks : n -> n -> n -> chunk list -> sres **)

let encode_chunks cap typ flags cs =
  match ser_push cap (Npos (XI (XO XH))) cs [] with
  | SOk (idx, body) -> finalize cap idx body typ flags
  | SErr e -> SErr e

(** val encode_chunks_payload : n -> n -> n -> chunk list -> bytes -> sres **)

let encode_chunks_payload cap typ flags cs payload =
  match ser_push cap (Npos (XI (XO XH))) cs [] with
  | SOk (idx, body) ->
    let start = N.min idx cap in
    if N.ltb (N.sub cap start) (lenN payload)
    then SErr EPay
    else if N.ltb (sat_sub cap idx) (lenN payload)
         then SErr EMem
         else finalize cap (N.add idx (lenN payload)) (app body payload) typ
                flags
  | SErr e -> SErr e

(** val c_u8 : n -> chunk **)

let c_u8 v =
  Some (v :: [])

(** val c_u16 : n -> chunk **)

let c_u16 v =
  Some (u16_be v)

(** val c_str : bytes -> chunk **)

let c_str =
  len_prefixed

(** val c_varint : n -> chunk **)

let c_varint =
  varint_write

(** val c_properties : properties -> chunk list **)

let c_properties ps =
  (c_varint (props_size ps)) :: (match ps with
                                 | PSlice l -> flat_map prop_chunks l
                                 | PEncoded b -> (Some b) :: []
                                 | PWithCorr (c, l) ->
                                   app (prop_chunks c)
                                     (flat_map prop_chunks l))

(** val rc_known : n -> bool **)

let rc_known b =
  (||)
    ((||)
      ((||)
        ((||)
          ((||)
            ((||)
              ((||)
                ((||)
                  ((||) ((||) (N.eqb b N0) (N.eqb b (Npos XH)))
                    (N.eqb b (Npos (XO XH)))) (N.eqb b (Npos (XO (XO XH)))))
                (N.eqb b (Npos (XO (XO (XO (XO XH)))))))
              (N.eqb b (Npos (XI (XO (XO (XO XH)))))))
            (N.eqb b (Npos (XO (XO (XO (XI XH)))))))
          (N.eqb b (Npos (XI (XO (XO (XI XH)))))))
        (inr (Npos (XO (XO (XO (XO (XO (XO (XO XH)))))))) (Npos (XI (XO (XO
          (XI (XO (XO (XO XH)))))))) b))
      (inr (Npos (XO (XO (XI (XI (XO (XO (XO XH)))))))) (Npos (XO (XI (XO (XO
        (XO (XI (XO XH)))))))) b))
    (N.eqb b (Npos (XI (XI (XI (XI (XI (XI (XI XH)))))))))

(** val rc_norm : n -> n **)

let rc_norm b =
  if rc_known b then b else Npos (XI (XI (XI (XI (XI (XI (XI XH)))))))

(** val rc_success : n -> bool **)

let rc_success b =
  N.ltb b (Npos (XO (XO (XO (XO (XO (XO (XO XH))))))))

type qos =
| Q0
| Q1
| Q2

(** val qos_n : qos -> n **)

let qos_n = function
| Q0 -> N0
| Q1 -> Npos XH
| Q2 -> Npos (XO XH)

(** val qos_of_n : n -> qos option **)

let qos_of_n n0 =
  if N.eqb n0 N0
  then Some Q0
  else if N.eqb n0 (Npos XH)
       then Some Q1
       else if N.eqb n0 (Npos (XO XH)) then Some Q2 else None

(** val qos_ltb : qos -> qos -> bool **)

let qos_ltb a b =
  N.ltb (qos_n a) (qos_n b)

type will = { w_topic : bytes; w_data : bytes; w_qos : qos; w_retain : 
              bool; w_props : prop list }

type auth = { a_user : bytes; a_pass : bytes }

type connect_req = { cq_keepalive : n; cq_props : prop list;
                     cq_client_id : bytes; cq_auth : auth option;
                     cq_will : will option; cq_clean : bool }

(** val b2n : bool -> n **)

let b2n = function
| true -> Npos XH
| false -> N0

(** val connect_flags : connect_req -> n **)

let connect_flags r =
  N.add
    (N.add (if r.cq_clean then Npos (XO XH) else N0)
      (match r.cq_will with
       | Some w ->
         N.add
           (N.add (Npos (XO (XO XH)))
             (N.mul (qos_n w.w_qos) (Npos (XO (XO (XO XH))))))
           (if w.w_retain then Npos (XO (XO (XO (XO (XO XH))))) else N0)
       | None -> N0))
    (match r.cq_auth with
     | Some _ -> Npos (XO (XO (XO (XO (XO (XO (XI XH)))))))
     | None -> N0)

(** val mQTT_NAME : bytes **)

let mQTT_NAME =
  (Npos (XI (XO (XI (XI (XO (XO XH))))))) :: ((Npos (XI (XO (XO (XO (XI (XO
    XH))))))) :: ((Npos (XO (XO (XI (XO (XI (XO XH))))))) :: ((Npos (XO (XO
    (XI (XO (XI (XO XH))))))) :: [])))

(** val connect_chunks : connect_req -> chunk list **)

let connect_chunks r =
  app
    ((c_str mQTT_NAME) :: ((c_u8 (Npos (XI (XO XH)))) :: ((c_u8
                                                            (connect_flags r)) :: (
    (c_u16 r.cq_keepalive) :: []))))
    (app (c_properties (PSlice r.cq_props))
      (app ((c_str r.cq_client_id) :: [])
        (app
          (match r.cq_will with
           | Some w ->
             app (c_properties (PSlice w.w_props))
               ((c_str w.w_topic) :: ((c_str w.w_data) :: []))
           | None -> [])
          (match r.cq_auth with
           | Some a -> (c_str a.a_user) :: ((c_str a.a_pass) :: [])
           | None -> []))))

(** val enc_connect : n -> connect_req -> sres **)

let enc_connect cap r =
  encode_chunks cap (Npos XH) N0 (connect_chunks r)

type publish_req = { pq_topic : bytes; pq_pid : n option;
                     pq_props : properties; pq_retain : bool; pq_qos : 
                     qos; pq_dup : bool; pq_payload : bytes }

(** val publish_flags : publish_req -> n **)

let publish_flags r =
  N.add (N.add (N.mul (qos_n r.pq_qos) (Npos (XO XH))) (b2n r.pq_retain))
    (if r.pq_dup then Npos (XO (XO (XO XH))) else N0)

(** val publish_chunks : publish_req -> chunk list **)

let publish_chunks r =
  app ((c_str r.pq_topic) :: [])
    (app (match r.pq_pid with
          | Some id -> (c_u16 id) :: []
          | None -> []) (c_properties r.pq_props))

(** val enc_publish : n -> publish_req -> sres **)

let enc_publish cap r =
  encode_chunks_payload cap (Npos (XI XH)) (publish_flags r)
    (publish_chunks r) r.pq_payload

type sub_opts = { so_qos : qos; so_no_local : bool; so_rap : bool; so_rh : n }

(** val sub_opts_byte : sub_opts -> n **)

let sub_opts_byte o =
  N.add
    (N.add
      (N.add (qos_n o.so_qos)
        (if o.so_no_local then Npos (XO (XO XH)) else N0))
      (if o.so_rap then Npos (XO (XO (XO XH))) else N0))
    (N.mul o.so_rh (Npos (XO (XO (XO (XO XH))))))

type subscribe_req = { sq_pid : n; sq_props : prop list;
                       sq_topics : (bytes * sub_opts) list }

(** val subscribe_chunks : subscribe_req -> chunk list **)

let subscribe_chunks r =
  app ((c_u16 r.sq_pid) :: [])
    (app (c_properties (PSlice r.sq_props))
      (flat_map (fun t ->
        (c_str (fst t)) :: ((c_u8 (sub_opts_byte (snd t))) :: []))
        r.sq_topics))

(** val enc_subscribe : n -> subscribe_req -> sres **)

let enc_subscribe cap r =
  encode_chunks cap (Npos (XO (XO (XO XH)))) (Npos (XO XH))
    (subscribe_chunks r)

type unsubscribe_req = { uq_pid : n; uq_props : prop list;
                         uq_topics : bytes list }

(** val unsubscribe_chunks : unsubscribe_req -> chunk list **)

let unsubscribe_chunks r =
  app ((c_u16 r.uq_pid) :: [])
    (app (c_properties (PSlice r.uq_props)) (map c_str r.uq_topics))

(** val enc_unsubscribe : n -> unsubscribe_req -> sres **)

let enc_unsubscribe cap r =
  encode_chunks cap (Npos (XO (XI (XO XH)))) (Npos (XO XH))
    (unsubscribe_chunks r)

type disconnect_req = { dq_reason : n option; dq_props : prop list option }

(** val disconnect_chunks : disconnect_req -> chunk list **)

let disconnect_chunks r =
  app
    (match r.dq_reason with
     | Some c -> (c_u8 (rc_norm c)) :: []
     | None -> [])
    (match r.dq_props with
     | Some l -> c_properties (PSlice l)
     | None -> [])

(** val enc_disconnect : n -> disconnect_req -> sres **)

let enc_disconnect cap r =
  encode_chunks cap (Npos (XO (XI (XI XH)))) N0 (disconnect_chunks r)

(** val ack_chunks : n -> n -> chunk list **)

let ack_chunks pid reason =
  (c_u16 pid) :: ((c_u8 (rc_norm reason)) :: [])

(** val enc_ack : n -> n -> n -> n -> sres **)

let enc_ack cap typ pid reason =
  encode_chunks cap typ
    (if N.eqb typ (Npos (XO (XI XH))) then Npos (XO XH) else N0)
    (ack_chunks pid reason)

(** val enc_pingreq : n -> sres **)

let enc_pingreq cap =
  encode_chunks cap (Npos (XO (XO (XI XH)))) N0 []

type rpacket =
| RConnAck of bool * n * bytes
| RPublish of bytes * n option * qos * bool * bool * bytes * bytes
| RPubAck of n * n
| RPubRec of n * n
| RPubRel of n * n
| RPubComp of n * n
| RSubAck of n * bytes * bytes
| RUnsubAck of n * bytes * bytes
| RDisconnect of n * bytes option
| RPingResp

(** val de_props : bytes -> (bytes * bytes) option **)

let de_props l =
  match varint_read l with
  | VOk (n0, rest) -> take_exact n0 rest
  | _ -> None

(** val de_reason : bytes -> (n * bytes) option **)

let de_reason = function
| [] -> Some (N0, [])
| c :: t ->
  (match t with
   | [] -> Some ((rc_norm c), [])
   | _ :: _ ->
     (match de_props t with
      | Some p -> let (_, rest) = p in Some ((rc_norm c), rest)
      | None -> None))

(** val de_ack : (n -> n -> rpacket) -> bytes -> (rpacket * bytes) option **)

let de_ack mk l =
  match read_u16 l with
  | Some p ->
    let (pid, t) = p in
    (match de_reason t with
     | Some p0 -> let (rc, rest) = p0 in Some ((mk pid rc), rest)
     | None -> None)
  | None -> None

(** val de_suback :
    (n -> bytes -> bytes -> rpacket) -> bytes -> (rpacket * bytes) option **)

let de_suback mk l =
  match read_u16 l with
  | Some p ->
    let (pid, t) = p in
    (match de_props t with
     | Some p0 -> let (ps, rest) = p0 in Some ((mk pid ps []), rest)
     | None -> None)
  | None -> None

(** val de_body : n -> bytes -> (rpacket * bytes) option **)

let de_body hdr l =
  let typ = N.div hdr (Npos (XO (XO (XO (XO XH))))) in
  let flags = N.modulo hdr (Npos (XO (XO (XO (XO XH))))) in
  if N.eqb typ N0
  then None
  else let valid_flags =
         if N.eqb typ (Npos (XI XH))
         then true
         else if N.eqb typ (Npos (XO (XI XH)))
              then N.eqb flags (Npos (XO XH))
              else if (||)
                        ((||)
                          ((||)
                            ((||)
                              ((||)
                                ((||)
                                  ((||) (N.eqb typ (Npos (XO XH)))
                                    (N.eqb typ (Npos (XO (XO XH)))))
                                  (N.eqb typ (Npos (XI (XO XH)))))
                                (N.eqb typ (Npos (XI (XI XH)))))
                              (N.eqb typ (Npos (XI (XO (XO XH))))))
                            (N.eqb typ (Npos (XI (XI (XO XH))))))
                          (N.eqb typ (Npos (XI (XO (XI XH))))))
                        (N.eqb typ (Npos (XO (XI (XI XH)))))
                   then N.eqb flags N0
                   else true
       in
       if negb valid_flags
       then None
       else if N.eqb typ (Npos (XO XH))
            then (match l with
                  | [] -> None
                  | spb :: l0 ->
                    (match l0 with
                     | [] -> None
                     | rc :: t ->
                       if N.ltb (Npos XH) spb
                       then None
                       else (match de_props t with
                             | Some p ->
                               let (ps, rest) = p in
                               Some ((RConnAck ((N.eqb spb (Npos XH)),
                               (rc_norm rc), ps)), rest)
                             | None -> None)))
            else if N.eqb typ (Npos (XI XH))
                 then (match qos_of_n
                               (N.modulo (N.div hdr (Npos (XO XH))) (Npos (XO
                                 (XO XH)))) with
                       | Some q ->
                         (match read_field true l with
                          | FOk (topic, t, _) ->
                            let pidr =
                              match q with
                              | Q0 -> Some (None, t)
                              | _ ->
                                (match read_u16 t with
                                 | Some p ->
                                   let (id, t') = p in Some ((Some id), t')
                                 | None -> None)
                            in
                            (match pidr with
                             | Some p ->
                               let (pid, t2) = p in
                               (match de_props t2 with
                                | Some p0 ->
                                  let (ps, rest) = p0 in
                                  Some ((RPublish (topic, pid, q,
                                  (N.odd hdr),
                                  (N.odd (N.div hdr (Npos (XO (XO (XO XH)))))),
                                  ps, [])), rest)
                                | None -> None)
                             | None -> None)
                          | FErr _ -> None)
                       | None -> None)
                 else if N.eqb typ (Npos (XO (XO XH)))
                      then de_ack (fun x x0 -> RPubAck (x, x0)) l
                      else if N.eqb typ (Npos (XI (XO XH)))
                           then de_ack (fun x x0 -> RPubRec (x, x0)) l
                           else if N.eqb typ (Npos (XO (XI XH)))
                                then de_ack (fun x x0 -> RPubRel (x, x0)) l
                                else if N.eqb typ (Npos (XI (XI XH)))
                                     then de_ack (fun x x0 -> RPubComp (x,
                                            x0)) l
                                     else if N.eqb typ (Npos (XI (XO (XO
                                               XH))))
                                          then de_suback (fun x x0 x1 ->
                                                 RSubAck (x, x0, x1)) l
                                          else if N.eqb typ (Npos (XI (XI (XO
                                                    XH))))
                                               then de_suback (fun x x0 x1 ->
                                                      RUnsubAck (x, x0, x1)) l
                                               else if N.eqb typ (Npos (XI
                                                         (XO (XI XH))))
                                                    then Some (RPingResp, l)
                                                    else if N.eqb typ (Npos
                                                              (XO (XI (XI
                                                              XH))))
                                                         then (match l with
                                                               | [] ->
                                                                 Some
                                                                   ((RDisconnect
                                                                   (N0,
                                                                   None)), [])
                                                               | c :: t ->
                                                                 (match t with
                                                                  | [] ->
                                                                    Some
                                                                    ((RDisconnect
                                                                    ((rc_norm
                                                                    c),
                                                                    None)),
                                                                    [])
                                                                  | _ :: _ ->
                                                                    (match 
                                                                    de_props t with
                                                                    | Some p ->
                                                                    let (
                                                                    ps, rest) =
                                                                    p
                                                                    in
                                                                    Some
                                                                    ((RDisconnect
                                                                    (
                                                                    (rc_norm
                                                                    c), (Some
                                                                    ps))),
                                                                    rest)
                                                                    | None ->
                                                                    None)))
                                                         else None

(** val from_buffer : bytes -> rpacket option **)

let from_buffer = function
| [] -> None
| hdr :: t ->
  (match varint_read t with
   | VOk (_, body) ->
     (match de_body hdr body with
      | Some p0 ->
        let (p, rest) = p0 in
        (match rest with
         | [] -> Some p
         | _ :: _ ->
           (match p with
            | RPublish (topic, pid, q, r, d, ps, _) ->
              Some (RPublish (topic, pid, q, r, d, ps, rest))
            | RSubAck (pid, ps, _) -> Some (RSubAck (pid, ps, rest))
            | RUnsubAck (pid, ps, _) -> Some (RUnsubAck (pid, ps, rest))
            | _ -> None))
      | None -> None)
   | _ -> None)

type reader = { rcap : n; rdata : bytes; rplen : n option }

(** val reader_new : n -> reader **)

let reader_new cap =
  { rcap = cap; rdata = []; rplen = None }

(** val reader_reset : reader -> reader **)

let reader_reset r =
  { rcap = r.rcap; rdata = []; rplen = None }

(** val read_bytes : reader -> n **)

let read_bytes r =
  lenN r.rdata

(** val probe : reader -> reader option **)

let probe r =
  if N.leb (read_bytes r) (Npos XH)
  then Some r
  else let pl =
         probe_len (takeN (Npos (XO (XO XH))) (dropN (Npos XH) r.rdata))
       in
       if (&&) (N.leb (Npos (XI (XO XH))) (read_bytes r))
            (match pl with
             | Some _ -> false
             | None -> true)
       then None
       else Some { rcap = r.rcap; rdata = r.rdata; rplen = pl }

(** val receive_buffer : reader -> reader * n option **)

let receive_buffer r =
  let r1 = match r.rplen with
           | Some _ -> Some r
           | None -> probe r in
  (match r1 with
   | Some r' ->
     let e =
       match r'.rplen with
       | Some pl -> pl
       | None -> N.add (read_bytes r') (Npos XH)
     in
     if N.leb e r'.rcap
     then (r', (Some (N.sub e (read_bytes r'))))
     else (r', None)
   | None -> ({ rcap = r.rcap; rdata = r.rdata; rplen = None }, None))

(** val commit : reader -> bytes -> reader **)

let commit r d =
  { rcap = r.rcap; rdata = (app r.rdata d); rplen = r.rplen }

(** val packet_available : reader -> bool **)

let packet_available r =
  match r.rplen with
  | Some pl -> N.leb pl (read_bytes r)
  | None -> false

(** val take_packet : reader -> ((reader * n) * rpacket option) option **)

let take_packet r =
  match r.rplen with
  | Some pl -> Some (((reader_reset r), pl), (from_buffer (takeN pl r.rdata)))
  | None -> None

(** val mAX_RETAINED : n **)

let mAX_RETAINED =
  Npos (XO (XO (XO XH)))

(** val mAX_PENDING_CONTROL : n **)

let mAX_PENDING_CONTROL =
  Npos (XO (XO (XO XH)))

(** val mAX_PENDING_RELEASE : n **)

let mAX_PENDING_RELEASE =
  Npos (XO (XO (XO XH)))

(** val cONTROL_PACKET_LEN : n **)

let cONTROL_PACKET_LEN =
  Npos (XI (XO (XO XH)))

(** val mAX_FIXED_HEADER_SIZE : n **)

let mAX_FIXED_HEADER_SIZE =
  Npos (XI (XO XH))

type sstate =
| SWrite of n
| SFlush
| SSent

(** val sstate_eqb : sstate -> sstate -> bool **)

let sstate_eqb a b =
  match a with
  | SWrite x -> (match b with
                 | SWrite y -> N.eqb x y
                 | _ -> false)
  | SFlush -> (match b with
               | SFlush -> true
               | _ -> false)
  | SSent -> (match b with
              | SSent -> true
              | _ -> false)

(** val is_fresh : sstate -> bool **)

let is_fresh = function
| SWrite w -> N.eqb w N0
| _ -> false

(** val is_in_progress : sstate -> bool **)

let is_in_progress = function
| SWrite w -> negb (N.eqb w N0)
| SFlush -> true
| SSent -> false

(** val set_written_state : n -> n -> sstate **)

let set_written_state written len =
  if N.leb len written then SFlush else SWrite written

(** val matches_priority : sstate -> bool -> bool **)

let matches_priority s = function
| true -> is_in_progress s
| false -> is_fresh s

type caction =
| CPubAck of n * n
| CPubRec of n * n
| CPubComp of n * n
| CPing

(** val caction_eqb : caction -> caction -> bool **)

let caction_eqb a b =
  match a with
  | CPubAck (p, r) ->
    (match b with
     | CPubAck (p', r') -> (&&) (N.eqb p p') (N.eqb r r')
     | _ -> false)
  | CPubRec (p, r) ->
    (match b with
     | CPubRec (p', r') -> (&&) (N.eqb p p') (N.eqb r r')
     | _ -> false)
  | CPubComp (p, r) ->
    (match b with
     | CPubComp (p', r') -> (&&) (N.eqb p p') (N.eqb r r')
     | _ -> false)
  | CPing -> (match b with
              | CPing -> true
              | _ -> false)

type centry = { ce_act : caction; ce_st : sstate }

type lentry = { le_pid : n; le_rc : n; le_st : sstate }

type rentry = { re_pid : n; re_off : n; re_len : n; re_st : sstate }

type outbound = { ob_buf : bytes; ob_used : n; ob_ctl : centry list;
                  ob_ret : rentry list; ob_rel : lentry list }

(** val ob_cap : outbound -> n **)

let ob_cap o =
  lenN o.ob_buf

(** val ob_new : n -> outbound **)

let ob_new cap =
  { ob_buf = (zerosN cap); ob_used = N0; ob_ctl = []; ob_ret = []; ob_rel =
    [] }

(** val ob_clear : outbound -> outbound **)

let ob_clear o =
  { ob_buf = o.ob_buf; ob_used = N0; ob_ctl = []; ob_ret = []; ob_rel = [] }

(** val has_pending_state : outbound -> bool **)

let has_pending_state o =
  (||)
    ((||) (negb (match o.ob_ctl with
                 | [] -> true
                 | _ :: _ -> false))
      (negb (match o.ob_ret with
             | [] -> true
             | _ :: _ -> false)))
    (negb (match o.ob_rel with
           | [] -> true
           | _ :: _ -> false))

(** val is_quiescent : outbound -> bool **)

let is_quiescent o =
  negb (has_pending_state o)

(** val retained_full : outbound -> bool **)

let retained_full o =
  N.leb mAX_RETAINED (glen o.ob_ret)

(** val is_publish_entry : bytes -> rentry -> bool **)

let is_publish_entry buf e =
  match dropN e.re_off buf with
  | [] -> false
  | b :: _ -> N.eqb (N.div b (Npos (XO (XO (XO (XO XH)))))) (Npos (XI XH))

(** val unresolved_publishes : outbound -> n **)

let unresolved_publishes o =
  N.add (glen (filter (is_publish_entry o.ob_buf) o.ob_ret)) (glen o.ob_rel)

(** val used_after_compact : outbound -> n **)

let used_after_compact o =
  sumN (map (fun r -> r.re_len) o.ob_ret)

(** val scratch_len : outbound -> n **)

let scratch_len o =
  N.sub (ob_cap o) (used_after_compact o)

(** val can_retain : outbound -> bool **)

let can_retain o =
  (&&) (N.ltb (glen o.ob_ret) mAX_RETAINED)
    (N.leb mAX_FIXED_HEADER_SIZE (scratch_len o))

(** val compact_go :
    bytes -> n -> rentry list -> (bytes * rentry list) * n **)

let rec compact_go buf cursor = function
| [] -> ((buf, []), cursor)
| e :: t ->
  let buf' =
    if N.eqb e.re_off cursor
    then buf
    else overwrite buf cursor (sliceN e.re_off e.re_len buf)
  in
  let e' = { re_pid = e.re_pid; re_off = cursor; re_len = e.re_len; re_st =
    e.re_st }
  in
  let (p, c2) = compact_go buf' (N.add cursor e.re_len) t in
  let (b2, t') = p in ((b2, (e' :: t')), c2)

(** val compact : outbound -> outbound **)

let compact o =
  let (p, c) = compact_go o.ob_buf N0 o.ob_ret in
  let (b, es) = p in
  { ob_buf = b; ob_used = c; ob_ctl = o.ob_ctl; ob_ret = es; ob_rel =
  o.ob_rel }

(** val queue_control : outbound -> caction -> outbound option **)

let queue_control o a =
  if N.leb mAX_PENDING_CONTROL (glen o.ob_ctl)
  then None
  else Some { ob_buf = o.ob_buf; ob_used = o.ob_used; ob_ctl =
         (app o.ob_ctl ({ ce_act = a; ce_st = (SWrite N0) } :: [])); ob_ret =
         o.ob_ret; ob_rel = o.ob_rel }

(** val has_pending_pingreq : outbound -> bool **)

let has_pending_pingreq o =
  existsb (fun e ->
    match e.ce_act with
    | CPing -> negb (sstate_eqb e.ce_st SSent)
    | _ -> false) o.ob_ctl

(** val remove_first_ret : n -> rentry list -> rentry list option **)

let rec remove_first_ret pid = function
| [] -> None
| e :: t ->
  if N.eqb e.re_pid pid
  then Some t
  else (match remove_first_ret pid t with
        | Some t' -> Some (e :: t')
        | None -> None)

(** val ack_packet : outbound -> n -> outbound * bool **)

let ack_packet o pid =
  match remove_first_ret pid o.ob_ret with
  | Some es ->
    ((compact { ob_buf = o.ob_buf; ob_used = o.ob_used; ob_ctl = o.ob_ctl;
       ob_ret = es; ob_rel = o.ob_rel }), true)
  | None -> (o, false)

(** val has_retained : outbound -> n -> bool **)

let has_retained o pid =
  existsb (fun e -> N.eqb e.re_pid pid) o.ob_ret

(** val queue_release : outbound -> n -> n -> outbound option **)

let queue_release o pid rc =
  if N.leb mAX_PENDING_RELEASE (glen o.ob_rel)
  then None
  else Some { ob_buf = o.ob_buf; ob_used = o.ob_used; ob_ctl = o.ob_ctl;
         ob_ret = o.ob_ret; ob_rel =
         (app o.ob_rel ({ le_pid = pid; le_rc = rc; le_st = (SWrite
           N0) } :: [])) }

(** val remove_first_rel : n -> lentry list -> lentry list option **)

let rec remove_first_rel pid = function
| [] -> None
| e :: t ->
  if N.eqb e.le_pid pid
  then Some t
  else (match remove_first_rel pid t with
        | Some t' -> Some (e :: t')
        | None -> None)

(** val ack_release : outbound -> n -> outbound * bool **)

let ack_release o pid =
  match remove_first_rel pid o.ob_rel with
  | Some es ->
    ({ ob_buf = o.ob_buf; ob_used = o.ob_used; ob_ctl = o.ob_ctl; ob_ret =
      o.ob_ret; ob_rel = es }, true)
  | None -> (o, false)

(** val has_pending_release : outbound -> n -> bool **)

let has_pending_release o pid =
  existsb (fun e -> N.eqb e.le_pid pid) o.ob_rel

(** val set_bit3 : n -> n **)

let set_bit3 b =
  if N.testbit b (Npos (XI XH)) then b else N.add b (Npos (XO (XO (XO XH))))

(** val poke_dup : bytes -> n -> bytes **)

let poke_dup buf off =
  app (takeN off buf)
    (match dropN off buf with
     | [] -> []
     | b :: t -> (set_bit3 b) :: t)

(** val mark_retained_dup : outbound -> outbound **)

let mark_retained_dup o =
  { ob_buf = (fold_left (fun b e -> poke_dup b e.re_off) o.ob_ret o.ob_buf);
    ob_used = o.ob_used; ob_ctl = o.ob_ctl; ob_ret = o.ob_ret; ob_rel =
    o.ob_rel }

type eres =
| EOk of n * n
| EErr of serr

(** val encode_at : outbound -> (n -> sres) -> outbound * eres **)

let encode_at o enc =
  let o1 = compact o in
  let start = o1.ob_used in
  (match enc (N.sub (ob_cap o1) start) with
   | SOk (off, bs) ->
     ({ ob_buf = (overwrite o1.ob_buf (N.add start off) bs); ob_used =
       o1.ob_used; ob_ctl = o1.ob_ctl; ob_ret = o1.ob_ret; ob_rel =
       o1.ob_rel }, (EOk ((N.add start off), (lenN bs))))
   | SErr e -> (o1, (EErr e)))

(** val retained_packet : outbound -> n -> n -> bytes **)

let retained_packet o off len =
  sliceN off len o.ob_buf

(** val retain_packet : outbound -> n -> n -> n -> outbound option **)

let retain_packet o pid off len =
  if N.leb mAX_RETAINED (glen o.ob_ret)
  then None
  else Some { ob_buf = o.ob_buf; ob_used = (N.max o.ob_used (N.add off len));
         ob_ctl = o.ob_ctl; ob_ret =
         (app o.ob_ret ({ re_pid = pid; re_off = off; re_len = len; re_st =
           (SWrite N0) } :: [])); ob_rel = o.ob_rel }

type ostep =
| StCtl of caction * sstate
| StRel of n * n * sstate
| StRet of n * n * n * sstate

(** val find_ctl : bool -> centry list -> ostep option **)

let find_ctl p l =
  match find (fun e -> matches_priority e.ce_st p) l with
  | Some e -> Some (StCtl (e.ce_act, e.ce_st))
  | None -> None

(** val find_rel : bool -> lentry list -> ostep option **)

let find_rel p l =
  match find (fun e -> matches_priority e.le_st p) l with
  | Some e -> Some (StRel (e.le_pid, e.le_rc, e.le_st))
  | None -> None

(** val find_ret : bool -> rentry list -> ostep option **)

let find_ret p l =
  match find (fun e -> matches_priority e.re_st p) l with
  | Some e -> Some (StRet (e.re_pid, e.re_off, e.re_len, e.re_st))
  | None -> None

(** val orelse : 'a1 option -> 'a1 option -> 'a1 option **)

let orelse a b =
  match a with
  | Some _ -> a
  | None -> b

(** val next_step_pass : outbound -> bool -> ostep option **)

let next_step_pass o p =
  orelse (find_ctl p o.ob_ctl)
    (orelse (find_rel p o.ob_rel) (find_ret p o.ob_ret))

(** val next_step : outbound -> ostep option **)

let next_step o =
  orelse (next_step_pass o true) (next_step_pass o false)

(** val update_first :
    ('a1 -> bool) -> ('a1 -> 'a1) -> 'a1 list -> 'a1 list * bool **)

let rec update_first p f = function
| [] -> ([], false)
| x :: t ->
  if p x
  then (((f x) :: t), true)
  else let (t', b) = update_first p f t in ((x :: t'), b)

(** val with_ctl : outbound -> centry list -> outbound **)

let with_ctl o l =
  { ob_buf = o.ob_buf; ob_used = o.ob_used; ob_ctl = l; ob_ret = o.ob_ret;
    ob_rel = o.ob_rel }

(** val with_ret : outbound -> rentry list -> outbound **)

let with_ret o l =
  { ob_buf = o.ob_buf; ob_used = o.ob_used; ob_ctl = o.ob_ctl; ob_ret = l;
    ob_rel = o.ob_rel }

(** val with_rel : outbound -> lentry list -> outbound **)

let with_rel o l =
  { ob_buf = o.ob_buf; ob_used = o.ob_used; ob_ctl = o.ob_ctl; ob_ret =
    o.ob_ret; ob_rel = l }

(** val set_control_written :
    outbound -> caction -> n -> n -> outbound * bool **)

let set_control_written o a written len =
  let (l, b) =
    update_first (fun e -> caction_eqb e.ce_act a) (fun e -> { ce_act =
      e.ce_act; ce_st = (set_written_state written len) }) o.ob_ctl
  in
  ((with_ctl o l), b)

(** val flush_control : outbound -> caction -> outbound * bool **)

let flush_control o a =
  let (l, b) =
    update_first (fun e -> caction_eqb e.ce_act a) (fun e -> { ce_act =
      e.ce_act; ce_st = SSent }) o.ob_ctl
  in
  ((with_ctl o (filter (fun e -> negb (sstate_eqb e.ce_st SSent)) l)), b)

(** val set_retained_written : outbound -> n -> n -> n -> outbound * bool **)

let set_retained_written o pid written len =
  let (l, b) =
    update_first (fun e -> N.eqb e.re_pid pid) (fun e -> { re_pid = e.re_pid;
      re_off = e.re_off; re_len = e.re_len; re_st =
      (set_written_state written len) }) o.ob_ret
  in
  ((with_ret o l), b)

(** val flush_retained : outbound -> n -> outbound * bool **)

let flush_retained o pid =
  let (l, b) =
    update_first (fun e -> N.eqb e.re_pid pid) (fun e -> { re_pid = e.re_pid;
      re_off = e.re_off; re_len = e.re_len; re_st = SSent }) o.ob_ret
  in
  ((with_ret o l), b)

(** val set_release_written : outbound -> n -> n -> n -> outbound * bool **)

let set_release_written o pid written len =
  let (l, b) =
    update_first (fun e -> N.eqb e.le_pid pid) (fun e -> { le_pid = e.le_pid;
      le_rc = e.le_rc; le_st = (set_written_state written len) }) o.ob_rel
  in
  ((with_rel o l), b)

(** val flush_release : outbound -> n -> outbound * bool **)

let flush_release o pid =
  let (l, b) =
    update_first (fun e -> N.eqb e.le_pid pid) (fun e -> { le_pid = e.le_pid;
      le_rc = e.le_rc; le_st = SSent }) o.ob_rel
  in
  ((with_rel o l), b)

(** val arm_replay : outbound -> outbound **)

let arm_replay o =
  if negb (has_pending_state o)
  then o
  else let o1 = mark_retained_dup o in
       { ob_buf = o1.ob_buf; ob_used = o1.ob_used; ob_ctl =
       (map (fun e -> { ce_act = e.ce_act; ce_st = (SWrite N0) }) o1.ob_ctl);
       ob_ret =
       (map (fun e -> { re_pid = e.re_pid; re_off = e.re_off; re_len =
         e.re_len; re_st = (SWrite N0) }) o1.ob_ret); ob_rel =
       (map (fun e -> { le_pid = e.le_pid; le_rc = e.le_rc; le_st = (SWrite
         N0) }) o1.ob_rel) }

(** val encode_control_packet : caction -> sres **)

let encode_control_packet = function
| CPubAck (pid, rc) -> enc_ack cONTROL_PACKET_LEN (Npos (XO (XO XH))) pid rc
| CPubRec (pid, rc) -> enc_ack cONTROL_PACKET_LEN (Npos (XI (XO XH))) pid rc
| CPubComp (pid, rc) -> enc_ack cONTROL_PACKET_LEN (Npos (XI (XI XH))) pid rc
| CPing -> enc_pingreq cONTROL_PACKET_LEN

(** val encode_pubrel : n -> n -> sres **)

let encode_pubrel pid rc =
  enc_ack cONTROL_PACKET_LEN (Npos (XO (XI XH))) pid rc

(** val too_large : n option -> n -> bool **)

let too_large mps len =
  match mps with
  | Some m -> N.ltb m len
  | None -> false

(** val sstate_partial : sstate -> bool **)

let sstate_partial = function
| SWrite k -> negb (N.eqb k N0)
| _ -> false

(** val has_partial : outbound -> bool **)

let has_partial o =
  (||)
    ((||) (existsb (fun e -> sstate_partial e.ce_st) o.ob_ctl)
      (existsb (fun e -> sstate_partial e.le_st) o.ob_rel))
    (existsb (fun e -> sstate_partial e.re_st) o.ob_ret)

(** val rOUND_TRIP_TIMEOUT_MS : n **)

let rOUND_TRIP_TIMEOUT_MS =
  Npos (XO (XO (XO (XI (XO (XO (XO (XI (XI (XI (XO (XO XH))))))))))))

(** val mAX_INBOUND_QOS2 : n **)

let mAX_INBOUND_QOS2 =
  Npos (XO (XO (XO XH)))

type err =
| ENotReady
| EDisconnected
| EInvalidRequest
| ERejected of n
| EInvalidPacket
| EBufferTooSmall
| EPacketTooLarge
| EInflightExhausted
| ETransport
| EWriteZero
| EPayload

(** val err_of_serr : serr -> err **)

let err_of_serr = function
| EMem -> EBufferTooSmall
| ECustom -> EInvalidRequest
| EPay -> EPayload

type runtime = { rt_resumed : bool; rt_ka_ms : n; rt_quota : n;
                 rt_maxquota : n; rt_mps : n option; rt_maxqos : qos option;
                 rt_next_ping : n option; rt_ping_timeout : n option }

type config = { cf_rx : n; cf_tx : n; cf_client_id : bytes;
                cf_keepalive_s : n; cf_expiry : n; cf_downgrade : bool;
                cf_will : will option; cf_auth : auth option }

type session = { s_cfg : config; s_client_id : bytes; s_reader : reader;
                 s_ob : outbound; s_pid : n; s_gen : n; s_sp : bool;
                 s_srv : n list; s_rt : runtime }

(** val rt_new : n -> runtime **)

let rt_new ka_ms =
  { rt_resumed = false; rt_ka_ms = ka_ms; rt_quota = (Npos (XI (XI (XI (XI
    (XI (XI (XI (XI (XI (XI (XI (XI (XI (XI (XI XH))))))))))))))));
    rt_maxquota = (Npos (XI (XI (XI (XI (XI (XI (XI (XI (XI (XI (XI (XI (XI
    (XI (XI XH)))))))))))))))); rt_mps = None; rt_maxqos = None;
    rt_next_ping = None; rt_ping_timeout = None }

(** val session_new : config -> session **)

let session_new c =
  { s_cfg = c; s_client_id = c.cf_client_id; s_reader = (reader_new c.cf_rx);
    s_ob = (ob_new c.cf_tx); s_pid = (Npos XH); s_gen = N0; s_sp = false;
    s_srv = []; s_rt =
    (rt_new
      (N.mul
        (N.modulo c.cf_keepalive_s (Npos (XO (XO (XO (XO (XO (XO (XO (XO (XO
          (XO (XO (XO (XO (XO (XO (XO XH)))))))))))))))))) (Npos (XO (XO (XO
        (XI (XO (XI (XI (XI (XI XH)))))))))))) }

(** val set_rt : session -> runtime -> session **)

let set_rt s r =
  { s_cfg = s.s_cfg; s_client_id = s.s_client_id; s_reader = s.s_reader;
    s_ob = s.s_ob; s_pid = s.s_pid; s_gen = s.s_gen; s_sp = s.s_sp; s_srv =
    s.s_srv; s_rt = r }

(** val set_ob : session -> outbound -> session **)

let set_ob s o =
  { s_cfg = s.s_cfg; s_client_id = s.s_client_id; s_reader = s.s_reader;
    s_ob = o; s_pid = s.s_pid; s_gen = s.s_gen; s_sp = s.s_sp; s_srv =
    s.s_srv; s_rt = s.s_rt }

(** val set_reader : session -> reader -> session **)

let set_reader s r =
  { s_cfg = s.s_cfg; s_client_id = s.s_client_id; s_reader = r; s_ob =
    s.s_ob; s_pid = s.s_pid; s_gen = s.s_gen; s_sp = s.s_sp; s_srv = s.s_srv;
    s_rt = s.s_rt }

(** val set_srv : session -> n list -> session **)

let set_srv s l =
  { s_cfg = s.s_cfg; s_client_id = s.s_client_id; s_reader = s.s_reader;
    s_ob = s.s_ob; s_pid = s.s_pid; s_gen = s.s_gen; s_sp = s.s_sp; s_srv =
    l; s_rt = s.s_rt }

(** val rt_with_timers : runtime -> n option -> n option -> runtime **)

let rt_with_timers r np pt =
  { rt_resumed = r.rt_resumed; rt_ka_ms = r.rt_ka_ms; rt_quota = r.rt_quota;
    rt_maxquota = r.rt_maxquota; rt_mps = r.rt_mps; rt_maxqos = r.rt_maxqos;
    rt_next_ping = np; rt_ping_timeout = pt }

(** val rt_with_quota : runtime -> n -> runtime **)

let rt_with_quota r q =
  { rt_resumed = r.rt_resumed; rt_ka_ms = r.rt_ka_ms; rt_quota = q;
    rt_maxquota = r.rt_maxquota; rt_mps = r.rt_mps; rt_maxqos = r.rt_maxqos;
    rt_next_ping = r.rt_next_ping; rt_ping_timeout = r.rt_ping_timeout }

(** val reset_transport : runtime -> runtime **)

let reset_transport r =
  { rt_resumed = false; rt_ka_ms = r.rt_ka_ms; rt_quota = r.rt_quota;
    rt_maxquota = r.rt_maxquota; rt_mps = r.rt_mps; rt_maxqos = r.rt_maxqos;
    rt_next_ping = None; rt_ping_timeout = None }

(** val keepalive_send_interval : runtime -> n option **)

let keepalive_send_interval r =
  if N.eqb r.rt_ka_ms N0
  then None
  else Some
         (N.sub r.rt_ka_ms
           (N.min rOUND_TRIP_TIMEOUT_MS (N.div r.rt_ka_ms (Npos (XO XH)))))

(** val note_outbound_activity : runtime -> n -> runtime **)

let note_outbound_activity r now =
  rt_with_timers r
    (match keepalive_send_interval r with
     | Some i -> Some (N.add now i)
     | None -> None) r.rt_ping_timeout

(** val next_deadline : runtime -> n option **)

let next_deadline r =
  match r.rt_next_ping with
  | Some a ->
    (match r.rt_ping_timeout with
     | Some b -> Some (N.min a b)
     | None -> Some a)
  | None -> r.rt_ping_timeout

(** val quota_inc : runtime -> runtime **)

let quota_inc r =
  rt_with_quota r
    (N.min
      (N.min (N.add r.rt_quota (Npos XH)) (Npos (XI (XI (XI (XI (XI (XI (XI
        (XI (XI (XI (XI (XI (XI (XI (XI XH))))))))))))))))) r.rt_maxquota)

(** val data_reset : session -> session **)

let data_reset s =
  { s_cfg = s.s_cfg; s_client_id = s.s_client_id; s_reader = s.s_reader;
    s_ob = (ob_clear s.s_ob); s_pid = (Npos XH); s_gen =
    (N.modulo (N.add s.s_gen (Npos XH)) (Npos (XO (XO (XO (XO (XO (XO (XO (XO
      (XO (XO (XO (XO (XO (XO (XO (XO (XO (XO (XO (XO (XO (XO (XO (XO (XO (XO
      (XO (XO (XO (XO (XO (XO XH)))))))))))))))))))))))))))))))))); s_sp =
    false; s_srv = []; s_rt = s.s_rt }

(** val pid_succ : n -> n **)

let pid_succ id =
  if N.eqb id (Npos (XI (XI (XI (XI (XI (XI (XI (XI (XI (XI (XI (XI (XI (XI
       (XI XH))))))))))))))))
  then Npos XH
  else N.add id (Npos XH)

(** val set_pid : session -> n -> session **)

let set_pid s p =
  { s_cfg = s.s_cfg; s_client_id = s.s_client_id; s_reader = s.s_reader;
    s_ob = s.s_ob; s_pid = p; s_gen = s.s_gen; s_sp = s.s_sp; s_srv =
    s.s_srv; s_rt = s.s_rt }

(** val pid_in_use : outbound -> n -> bool **)

let pid_in_use o id =
  (||) (has_retained o id) (has_pending_release o id)

(** val next_packet_id_go : nat -> outbound -> n -> n * n **)

let rec next_packet_id_go fuel o cur =
  match fuel with
  | O -> (cur, N0)
  | S f ->
    if pid_in_use o cur
    then next_packet_id_go f o (pid_succ cur)
    else ((pid_succ cur), cur)

(** val next_packet_id : session -> session * n **)

let next_packet_id s =
  let (nxt, id) =
    next_packet_id_go (S (S (S (S (S (S (S (S (S (S (S (S (S (S (S (S (S
      O))))))))))))))))) s.s_ob s.s_pid
  in
  ((set_pid s nxt), id)

(** val sess_handle_disconnect : session -> session **)

let sess_handle_disconnect s =
  set_reader (set_rt (set_ob s (arm_replay s.s_ob)) (reset_transport s.s_rt))
    (reader_reset s.s_reader)

(** val sess_can_publish : session -> qos -> bool **)

let sess_can_publish s = function
| Q0 -> N.leb mAX_FIXED_HEADER_SIZE (scratch_len s.s_ob)
| _ -> (&&) (negb (N.eqb s.s_rt.rt_quota N0)) (can_retain s.s_ob)

type op = { op_kind : n; op_pid : n; op_gen : n }

type opstatus =
| StPending
| StComplete
| StInvalidated

(** val status : session -> op -> opstatus **)

let status s o =
  if negb (N.eqb o.op_gen s.s_gen)
  then StInvalidated
  else let pending =
         if N.eqb o.op_kind (Npos XH)
         then (||) (has_retained s.s_ob o.op_pid)
                (has_pending_release s.s_ob o.op_pid)
         else has_retained s.s_ob o.op_pid
       in
       if pending then StPending else StComplete

type hres =
| HOk of bool
| HErr of err

(** val all_success : bytes -> n option **)

let all_success codes =
  match find (fun c -> negb (rc_success (rc_norm c))) codes with
  | Some c -> Some (rc_norm c)
  | None -> None

(** val check_control_size : n option -> caction -> err option **)

let check_control_size mps a =
  match encode_control_packet a with
  | SOk (_, b) ->
    if too_large mps (lenN b) then Some EPacketTooLarge else None
  | SErr e -> Some (err_of_serr e)

(** val check_pubrel_size : n option -> n -> n -> err option **)

let check_pubrel_size mps pid rc =
  match encode_pubrel pid rc with
  | SOk (_, b) ->
    if too_large mps (lenN b) then Some EPacketTooLarge else None
  | SErr e -> Some (err_of_serr e)

(** val queue_ctl_checked : session -> caction -> bool -> session * hres **)

let queue_ctl_checked s a deliver0 =
  match check_control_size s.s_rt.rt_mps a with
  | Some e -> (s, (HErr e))
  | None ->
    (match queue_control s.s_ob a with
     | Some o -> ((set_ob s o), (HOk deliver0))
     | None -> (s, (HErr EInflightExhausted)))

(** val swap_remove_id : n -> n list -> n list option **)

let rec swap_remove_id id = function
| [] -> None
| x :: t ->
  if N.eqb x id
  then (match rev t with
        | [] -> Some []
        | lst :: rinit -> Some (lst :: (rev rinit)))
  else (match swap_remove_id id t with
        | Some t' -> Some (x :: t')
        | None -> None)

(** val mem_id : n -> n list -> bool **)

let mem_id id l =
  existsb (N.eqb id) l

(** val handle_packet : session -> rpacket -> session * hres **)

let handle_packet s = function
| RConnAck (_, _, _) -> (s, (HErr EInvalidPacket))
| RPublish (_, pid, q, _, _, _, _) ->
  (match q with
   | Q0 -> (s, (HOk true))
   | Q1 ->
     (match pid with
      | Some id ->
        let reason =
          if mem_id id s.s_srv
          then Npos (XI (XO (XO (XO (XI (XO (XO XH)))))))
          else N0
        in
        queue_ctl_checked s (CPubAck (id, reason)) true
      | None -> (s, (HErr EInvalidPacket)))
   | Q2 ->
     (match pid with
      | Some id ->
        let duplicate = mem_id id s.s_srv in
        let full = N.leb mAX_INBOUND_QOS2 (glen s.s_srv) in
        let reason =
          if duplicate
          then N0
          else if full then Npos (XI (XI (XO (XO (XI (XO (XO XH))))))) else N0
        in
        let (s1, hr) =
          queue_ctl_checked s (CPubRec (id, reason))
            (negb ((||) duplicate (negb (rc_success reason))))
        in
        ((match hr with
          | HOk _ ->
            if (||) duplicate full
            then s1
            else set_srv s1 (app s.s_srv (id :: []))
          | HErr _ -> s1), hr)
      | None -> (s, (HErr EInvalidPacket))))
| RPubAck (pid, rc) ->
  let (o, found) = ack_packet s.s_ob pid in
  if negb found
  then (s, (HOk false))
  else let s1 = set_rt (set_ob s o) (quota_inc s.s_rt) in
       if rc_success rc
       then (s1, (HOk false))
       else (s1, (HErr (ERejected rc)))
| RPubRec (pid, rc) ->
  let (o, found) = ack_packet s.s_ob pid in
  if found
  then if negb (rc_success rc)
       then ((set_rt (set_ob s o) (quota_inc s.s_rt)), (HErr (ERejected rc)))
       else let s1 = set_ob s o in
            (match check_pubrel_size s1.s_rt.rt_mps pid N0 with
             | Some e -> (s1, (HErr e))
             | None ->
               (match queue_release s1.s_ob pid N0 with
                | Some o2 -> ((set_ob s1 o2), (HOk false))
                | None -> (s1, (HErr EInflightExhausted))))
  else if has_pending_release s.s_ob pid
       then if rc_success rc
            then (s, (HOk false))
            else (s, (HErr (ERejected rc)))
       else (s, (HOk false))
| RPubRel (pid, _) ->
  (match swap_remove_id pid s.s_srv with
   | Some l ->
     let s1 = set_srv s l in
     let reason = N0 in queue_ctl_checked s1 (CPubComp (pid, reason)) false
   | None ->
     let reason = Npos (XO (XI (XO (XO (XI (XO (XO XH))))))) in
     queue_ctl_checked s (CPubComp (pid, reason)) false)
| RPubComp (pid, rc) ->
  let (o, found) = ack_release s.s_ob pid in
  if negb found
  then (s, (HOk false))
  else let s1 = set_rt (set_ob s o) (quota_inc s.s_rt) in
       if rc_success rc
       then (s1, (HOk false))
       else (s1, (HErr (ERejected rc)))
| RSubAck (pid, _, codes) ->
  let (o, found) = ack_packet s.s_ob pid in
  if negb found
  then (s, (HOk false))
  else (match all_success codes with
        | Some c -> ((set_ob s o), (HErr (ERejected c)))
        | None -> ((set_ob s o), (HOk false)))
| RUnsubAck (pid, _, codes) ->
  let (o, found) = ack_packet s.s_ob pid in
  if negb found
  then (s, (HOk false))
  else (match all_success codes with
        | Some c -> ((set_ob s o), (HErr (ERejected c)))
        | None -> ((set_ob s o), (HOk false)))
| RDisconnect (_, _) -> (s, (HErr EDisconnected))
| RPingResp ->
  ((set_rt s (rt_with_timers s.s_rt s.s_rt.rt_next_ping None)), (HOk false))

(** val ack_type_ok : session -> rpacket -> bool **)

let ack_type_ok s = function
| RPubAck (pid, _) ->
  (match find (fun e -> N.eqb e.re_pid pid) s.s_ob.ob_ret with
   | Some e -> is_publish_entry s.s_ob.ob_buf e
   | None -> true)
| RPubRec (pid, _) ->
  (match find (fun e -> N.eqb e.re_pid pid) s.s_ob.ob_ret with
   | Some e -> is_publish_entry s.s_ob.ob_buf e
   | None -> true)
| _ -> true

(** val connect_request : session -> connect_req **)

let connect_request s =
  { cq_keepalive =
    (N.modulo s.s_cfg.cf_keepalive_s (Npos (XO (XO (XO (XO (XO (XO (XO (XO
      (XO (XO (XO (XO (XO (XO (XO (XO XH)))))))))))))))))); cq_props =
    ((mkprop KMaximumPacketSize
       (N.modulo s.s_reader.rcap (Npos (XO (XO (XO (XO (XO (XO (XO (XO (XO
         (XO (XO (XO (XO (XO (XO (XO (XO (XO (XO (XO (XO (XO (XO (XO (XO (XO
         (XO (XO (XO (XO (XO (XO XH)))))))))))))))))))))))))))))))))) [] []) :: (
    (mkprop KSessionExpiryInterval s.s_cfg.cf_expiry [] []) :: ((mkprop
                                                                  KReceiveMaximum
                                                                  mAX_INBOUND_QOS2
                                                                  [] []) :: [])));
    cq_client_id = s.s_client_id; cq_auth = s.s_cfg.cf_auth; cq_will =
    s.s_cfg.cf_will; cq_clean = (negb s.s_sp) }

type connack_acc = { ca_quota : n; ca_maxquota : n; ca_maxqos : qos option;
                     ca_mps : n option; ca_ka_ms : n; ca_cid : bytes option }

(** val connack_props :
    prop option list -> n -> connack_acc -> connack_acc option **)

let rec connack_props its local_quota a =
  match its with
  | [] -> Some a
  | o :: t ->
    (match o with
     | Some p ->
       let upd = fun a' -> connack_props t local_quota a' in
       (match p.pk with
        | KAssignedClientIdentifier ->
          if N.ltb (Npos (XO (XO (XO (XO (XO (XO XH))))))) (lenN p.pdata)
          then None
          else upd { ca_quota = a.ca_quota; ca_maxquota = a.ca_maxquota;
                 ca_maxqos = a.ca_maxqos; ca_mps = a.ca_mps; ca_ka_ms =
                 a.ca_ka_ms; ca_cid = (Some p.pdata) }
        | KServerKeepAlive ->
          upd { ca_quota = a.ca_quota; ca_maxquota = a.ca_maxquota;
            ca_maxqos = a.ca_maxqos; ca_mps = a.ca_mps; ca_ka_ms =
            (N.mul p.pnum (Npos (XO (XO (XO (XI (XO (XI (XI (XI (XI
              XH))))))))))); ca_cid = a.ca_cid }
        | KReceiveMaximum ->
          if N.eqb p.pnum N0
          then None
          else upd { ca_quota = (N.min p.pnum local_quota); ca_maxquota =
                 (N.min p.pnum local_quota); ca_maxqos = a.ca_maxqos;
                 ca_mps = a.ca_mps; ca_ka_ms = a.ca_ka_ms; ca_cid = a.ca_cid }
        | KMaximumQoS ->
          (match qos_of_n p.pnum with
           | Some q ->
             upd { ca_quota = a.ca_quota; ca_maxquota = a.ca_maxquota;
               ca_maxqos = (Some q); ca_mps = a.ca_mps; ca_ka_ms =
               a.ca_ka_ms; ca_cid = a.ca_cid }
           | None -> None)
        | KMaximumPacketSize ->
          upd { ca_quota = a.ca_quota; ca_maxquota = a.ca_maxquota;
            ca_maxqos = a.ca_maxqos; ca_mps = (Some p.pnum); ca_ka_ms =
            a.ca_ka_ms; ca_cid = a.ca_cid }
        | _ -> upd a)
     | None -> None)

type connack_res =
| CAOk of bool
| CAErr of err * bool

(** val connack_process :
    session -> rpacket option -> n -> session * connack_res **)

let connack_process s p now =
  match p with
  | Some r ->
    (match r with
     | RConnAck (sp, rc, props) ->
       if negb (rc_success rc)
       then (s, (CAErr ((ERejected rc), false)))
       else let local_quota = N.min mAX_RETAINED mAX_PENDING_RELEASE in
            let a0 = { ca_quota = local_quota; ca_maxquota = local_quota;
              ca_maxqos = None; ca_mps = None; ca_ka_ms =
              (N.mul
                (N.modulo s.s_cfg.cf_keepalive_s (Npos (XO (XO (XO (XO (XO
                  (XO (XO (XO (XO (XO (XO (XO (XO (XO (XO (XO
                  XH)))))))))))))))))) (Npos (XO (XO (XO (XI (XO (XI (XI (XI
                (XI XH))))))))))); ca_cid = None }
            in
            (match connack_props (props_iter_encoded props) local_quota a0 with
             | Some a ->
               let s1 = if sp then s else data_reset s in
               let r0 = { rt_resumed = sp; rt_ka_ms = a.ca_ka_ms; rt_quota =
                 (N.sub a.ca_quota (unresolved_publishes s1.s_ob));
                 rt_maxquota = a.ca_maxquota; rt_mps = a.ca_mps; rt_maxqos =
                 a.ca_maxqos; rt_next_ping = s1.s_rt.rt_next_ping;
                 rt_ping_timeout = s1.s_rt.rt_ping_timeout }
               in
               let r2 =
                 rt_with_timers (note_outbound_activity r0 now)
                   (note_outbound_activity r0 now).rt_next_ping None
               in
               let s2 = { s_cfg = s1.s_cfg; s_client_id =
                 (match a.ca_cid with
                  | Some c -> c
                  | None -> s1.s_client_id); s_reader = s1.s_reader; s_ob =
                 s1.s_ob; s_pid = s1.s_pid; s_gen = s1.s_gen; s_sp = true;
                 s_srv = s1.s_srv; s_rt = r2 }
               in
               (s2, (CAOk sp))
             | None -> (s, (CAErr (EInvalidPacket, true))))
     | RDisconnect (_, _) -> (s, (CAErr (EDisconnected, true)))
     | _ -> (s, (CAErr (EInvalidPacket, true))))
  | None -> (s, (CAErr (EInvalidPacket, true)))

type pub_req = { pr_topic : bytes; pr_props : properties; pr_qos : qos;
                 pr_payload : bytes; pr_retain : bool }

type midres =
| MErr of err
| MRetained of op
| MDirect of bytes

(** val effective_qos : session -> qos -> qos **)

let effective_qos s q =
  match s.s_rt.rt_maxqos with
  | Some m -> if (&&) s.s_cfg.cf_downgrade (qos_ltb m q) then m else q
  | None -> q

(** val publish_middle : session -> bool -> pub_req -> session * midres **)

let publish_middle s live r =
  if negb (props_valid_for r.pr_props CtxPublish)
  then (s, (MErr EInvalidRequest))
  else let q = effective_qos s r.pr_qos in
       (match q with
        | Q0 ->
          if negb ((&&) live (sess_can_publish s Q0))
          then (s, (MErr ENotReady))
          else let o1 = compact s.s_ob in
               let s1 = set_ob s o1 in
               let req = { pq_topic = r.pr_topic; pq_pid = None; pq_props =
                 r.pr_props; pq_retain = r.pr_retain; pq_qos = Q0; pq_dup =
                 false; pq_payload = r.pr_payload }
               in
               (match enc_publish (N.sub (ob_cap o1) o1.ob_used) req with
                | SOk (_, bs) ->
                  if too_large s1.s_rt.rt_mps (lenN bs)
                  then (s1, (MErr EPacketTooLarge))
                  else if negb live
                       then (s1, (MErr EDisconnected))
                       else (s1, (MDirect bs))
                | SErr e -> (s1, (MErr (err_of_serr e))))
        | _ ->
          let (s1, id) = next_packet_id s in
          if retained_full s1.s_ob
          then (s1, (MErr EInflightExhausted))
          else if negb ((&&) live (sess_can_publish s1 q))
               then (s1, (MErr ENotReady))
               else let req = { pq_topic = r.pr_topic; pq_pid = (Some id);
                      pq_props = r.pr_props; pq_retain = r.pr_retain;
                      pq_qos = q; pq_dup = false; pq_payload = r.pr_payload }
                    in
                    let (o1, er) =
                      encode_at s1.s_ob (fun cap -> enc_publish cap req)
                    in
                    let s2 = set_ob s1 o1 in
                    (match er with
                     | EOk (off, len) ->
                       if too_large s2.s_rt.rt_mps len
                       then (s2, (MErr EPacketTooLarge))
                       else (match retain_packet o1 id off len with
                             | Some o2 ->
                               let s3 =
                                 set_rt (set_ob s2 o2)
                                   (rt_with_quota s2.s_rt
                                     (N.sub s2.s_rt.rt_quota (Npos XH)))
                               in
                               (s3, (MRetained { op_kind =
                               (match q with
                                | Q2 -> Npos XH
                                | _ -> N0); op_pid = id; op_gen = s3.s_gen }))
                             | None -> (s2, (MErr EInflightExhausted)))
                     | EErr e -> (s2, (MErr (err_of_serr e)))))

(** val enqueue_middle :
    session -> n -> (n -> n -> sres) -> session * midres **)

let enqueue_middle s kind enc =
  if retained_full s.s_ob
  then (s, (MErr EInflightExhausted))
  else let (s1, id) = next_packet_id s in
       let (o1, er) = encode_at s1.s_ob (fun cap -> enc cap id) in
       let s2 = set_ob s1 o1 in
       (match er with
        | EOk (off, len) ->
          if too_large s2.s_rt.rt_mps len
          then (s2, (MErr EPacketTooLarge))
          else (match retain_packet o1 id off len with
                | Some o2 ->
                  ((set_ob s2 o2), (MRetained { op_kind = kind; op_pid = id;
                    op_gen = s2.s_gen }))
                | None -> (s2, (MErr EInflightExhausted)))
        | EErr e -> (s2, (MErr (err_of_serr e))))

(** val subscribe_middle :
    session -> (bytes * sub_opts) list -> prop list -> session * midres **)

let subscribe_middle s topics ps =
  enqueue_middle s (Npos (XO XH)) (fun cap id ->
    enc_subscribe cap { sq_pid = id; sq_props = ps; sq_topics = topics })

(** val unsubscribe_middle :
    session -> bytes list -> prop list -> session * midres **)

let unsubscribe_middle s topics ps =
  enqueue_middle s (Npos (XI XH)) (fun cap id ->
    enc_unsubscribe cap { uq_pid = id; uq_props = ps; uq_topics = topics })

type dprep =
| DPErr of err
| DPOk of bytes

(** val disconnect_prepare : session -> disconnect_req -> dprep **)

let disconnect_prepare s d =
  let bad =
    match d.dq_props with
    | Some l -> negb (props_valid_for (PSlice l) CtxDisconnect)
    | None -> false
  in
  if bad
  then DPErr EInvalidRequest
  else (match enc_disconnect cONTROL_PACKET_LEN d with
        | SOk (_, bs) ->
          if too_large s.s_rt.rt_mps (lenN bs)
          then DPErr EPacketTooLarge
          else DPOk bs
        | SErr e -> DPErr (err_of_serr e))

type fpkt =
| FCtl of caction
| FRel of n
| FRet of n

type prepared =
| PWrite of fpkt * bytes * n * n
| PFlush of fpkt
| PDone
| PErr of err

(** val prepare_step : session -> ostep -> prepared **)

let prepare_step s = function
| StCtl (a, st0) ->
  (match st0 with
   | SWrite w ->
     (match encode_control_packet a with
      | SOk (_, bs) ->
        if too_large s.s_rt.rt_mps (lenN bs)
        then PErr EPacketTooLarge
        else PWrite ((FCtl a), bs, w, (lenN bs))
      | SErr e -> PErr (err_of_serr e))
   | SFlush -> PFlush (FCtl a)
   | SSent -> PDone)
| StRel (pid, rc, st0) ->
  (match st0 with
   | SWrite w ->
     (match encode_pubrel pid rc with
      | SOk (_, bs) ->
        if too_large s.s_rt.rt_mps (lenN bs)
        then PErr EPacketTooLarge
        else PWrite ((FRel pid), bs, w, (lenN bs))
      | SErr e -> PErr (err_of_serr e))
   | SFlush -> PFlush (FRel pid)
   | SSent -> PDone)
| StRet (pid, off, len, st0) ->
  (match st0 with
   | SWrite w ->
     if too_large s.s_rt.rt_mps len
     then PErr EPacketTooLarge
     else PWrite ((FRet pid), (retained_packet s.s_ob off len), w, len)
   | SFlush -> PFlush (FRet pid)
   | SSent -> PDone)

(** val set_written : session -> fpkt -> n -> n -> session * bool **)

let set_written s p written len =
  let (o, b) =
    match p with
    | FCtl a -> set_control_written s.s_ob a written len
    | FRel pid -> set_release_written s.s_ob pid written len
    | FRet pid -> set_retained_written s.s_ob pid written len
  in
  ((set_ob s o), b)

(** val complete_flush : session -> fpkt -> n -> session * bool **)

let complete_flush s p now =
  let r0 = s.s_rt in
  let r1 =
    match p with
    | FCtl a ->
      (match a with
       | CPing ->
         rt_with_timers r0 r0.rt_next_ping (Some
           (N.add now rOUND_TRIP_TIMEOUT_MS))
       | _ -> r0)
    | _ -> r0
  in
  let r2 = note_outbound_activity r1 now in
  let (o, b) =
    match p with
    | FCtl a -> flush_control s.s_ob a
    | FRel pid -> flush_release s.s_ob pid
    | FRet pid -> flush_retained s.s_ob pid
  in
  ((set_rt (set_ob s o) r2), b)

(** val should_queue_pingreq : session -> n -> bool **)

let should_queue_pingreq s now =
  (&&)
    ((&&) (match s.s_rt.rt_ping_timeout with
           | Some _ -> false
           | None -> true)
      (match s.s_rt.rt_next_ping with
       | Some d -> N.leb d now
       | None -> false)) (negb (has_pending_pingreq s.s_ob))

(** val maybe_queue_pingreq : session -> n -> session * err option **)

let maybe_queue_pingreq s now =
  if should_queue_pingreq s now
  then (match check_control_size s.s_rt.rt_mps CPing with
        | Some e -> (s, (Some e))
        | None ->
          (match queue_control s.s_ob CPing with
           | Some o -> ((set_ob s o), None)
           | None -> (s, (Some EInflightExhausted))))
  else (s, None)

(** val ping_timed_out : session -> n -> bool **)

let ping_timed_out s now =
  match s.s_rt.rt_ping_timeout with
  | Some d -> N.leb d now
  | None -> false

type text = n list

(** val s2t : string -> text **)

let rec s2t = function
| EmptyString -> []
| String (c, r) -> (n_of_ascii c) :: (s2t r)

(** val digit : n -> n **)

let digit d =
  N.add (Npos (XO (XO (XO (XO (XI XH)))))) d

(** val show_N_fuel : nat -> n -> text -> text **)

let rec show_N_fuel fuel n0 acc =
  match fuel with
  | O -> acc
  | S f ->
    let acc' = (digit (N.modulo n0 (Npos (XO (XI (XO XH)))))) :: acc in
    if N.ltb n0 (Npos (XO (XI (XO XH))))
    then acc'
    else show_N_fuel f (N.div n0 (Npos (XO (XI (XO XH))))) acc'

(** val show_N : n -> text **)

let show_N n0 =
  show_N_fuel (S (N.size_nat n0)) n0 []

(** val hexdig : n -> n **)

let hexdig d =
  if N.ltb d (Npos (XO (XI (XO XH))))
  then N.add (Npos (XO (XO (XO (XO (XI XH)))))) d
  else N.add (Npos (XI (XI (XI (XO (XI (XO XH))))))) d

(** val hex : bytes -> text **)

let rec hex = function
| [] -> []
| b :: t ->
  (hexdig (N.div b (Npos (XO (XO (XO (XO XH))))))) :: ((hexdig
                                                         (N.modulo b (Npos
                                                           (XO (XO (XO (XO
                                                           XH))))))) :: 
    (hex t))

(** val show_bool : bool -> text **)

let show_bool = function
| true ->
  s2t (String ((Ascii (true, false, false, false, true, true, false, false)),
    EmptyString))
| false ->
  s2t (String ((Ascii (false, false, false, false, true, true, false,
    false)), EmptyString))

(** val show_optN : n option -> text **)

let show_optN = function
| Some n0 -> show_N n0
| None ->
  s2t (String ((Ascii (true, false, true, true, false, true, false, false)),
    EmptyString))

(** val join : text -> text list -> text **)

let rec join sep = function
| [] -> []
| x :: t -> (match t with
             | [] -> x
             | _ :: _ -> app x (app sep (join sep t)))

(** val show_prop : prop -> text **)

let show_prop p =
  app (show_N (kind_id p.pk))
    (app
      (s2t (String ((Ascii (false, true, false, true, true, true, false,
        false)), EmptyString)))
      (match kind_shape p.pk with
       | ShStr ->
         app
           (s2t (String ((Ascii (false, false, false, true, true, true, true,
             false)), EmptyString))) (hex p.pdata)
       | ShBin ->
         app
           (s2t (String ((Ascii (false, false, false, true, true, true, true,
             false)), EmptyString))) (hex p.pdata)
       | ShPair ->
         app
           (s2t (String ((Ascii (false, false, false, true, true, true, true,
             false)), EmptyString)))
           (app (hex p.pdata)
             (app
               (s2t (String ((Ascii (false, true, true, true, true, true,
                 true, false)), EmptyString))) (hex p.pdata2)))
       | _ -> show_N p.pnum))

(** val show_item : prop option -> text **)

let show_item = function
| Some p -> show_prop p
| None ->
  s2t (String ((Ascii (true, false, true, false, false, false, true, false)),
    EmptyString))

(** val show_props_block : bytes -> text **)

let show_props_block b =
  app
    (s2t (String ((Ascii (false, false, false, true, true, true, true,
      false)), EmptyString)))
    (app (hex b)
      (app
        (s2t (String ((Ascii (false, false, false, false, false, true, false,
          false)), (String ((Ascii (true, false, false, true, false, true,
          true, false)), (String ((Ascii (false, false, true, false, true,
          true, true, false)), (String ((Ascii (true, false, true, false,
          false, true, true, false)), (String ((Ascii (false, true, false,
          false, true, true, true, false)), (String ((Ascii (true, false,
          true, true, true, true, false, false)), (String ((Ascii (true,
          true, false, true, true, false, true, false)),
          EmptyString)))))))))))))))
        (app
          (join
            (s2t (String ((Ascii (false, false, true, true, false, true,
              false, false)), EmptyString)))
            (map show_item (props_iter_encoded b)))
          (s2t (String ((Ascii (true, false, true, true, true, false, true,
            false)), EmptyString))))))

(** val show_packet : rpacket -> text **)

let show_packet = function
| RConnAck (sp, rc, ps) ->
  app
    (s2t (String ((Ascii (true, true, false, false, false, false, true,
      false)), (String ((Ascii (true, true, true, true, false, false, true,
      false)), (String ((Ascii (false, true, true, true, false, false, true,
      false)), (String ((Ascii (false, true, true, true, false, false, true,
      false)), (String ((Ascii (true, false, false, false, false, false,
      true, false)), (String ((Ascii (true, true, false, false, false, false,
      true, false)), (String ((Ascii (true, true, false, true, false, false,
      true, false)), (String ((Ascii (false, false, false, false, false,
      true, false, false)), (String ((Ascii (true, true, false, false, true,
      true, true, false)), (String ((Ascii (false, false, false, false, true,
      true, true, false)), (String ((Ascii (true, false, true, true, true,
      true, false, false)), EmptyString)))))))))))))))))))))))
    (app (show_bool sp)
      (app
        (s2t (String ((Ascii (false, false, false, false, false, true, false,
          false)), (String ((Ascii (false, true, false, false, true, true,
          true, false)), (String ((Ascii (true, true, false, false, false,
          true, true, false)), (String ((Ascii (true, false, true, true,
          true, true, false, false)), EmptyString)))))))))
        (app (show_N rc)
          (app
            (s2t (String ((Ascii (false, false, false, false, false, true,
              false, false)), (String ((Ascii (false, false, false, false,
              true, true, true, false)), (String ((Ascii (false, true, false,
              false, true, true, true, false)), (String ((Ascii (true, true,
              true, true, false, true, true, false)), (String ((Ascii (false,
              false, false, false, true, true, true, false)), (String ((Ascii
              (true, true, false, false, true, true, true, false)), (String
              ((Ascii (true, false, true, true, true, true, false, false)),
              EmptyString))))))))))))))) (show_props_block ps)))))
| RPublish (topic, pid, q, r, d, ps, payload) ->
  app
    (s2t (String ((Ascii (false, false, false, false, true, false, true,
      false)), (String ((Ascii (true, false, true, false, true, false, true,
      false)), (String ((Ascii (false, true, false, false, false, false,
      true, false)), (String ((Ascii (false, false, true, true, false, false,
      true, false)), (String ((Ascii (true, false, false, true, false, false,
      true, false)), (String ((Ascii (true, true, false, false, true, false,
      true, false)), (String ((Ascii (false, false, false, true, false,
      false, true, false)), (String ((Ascii (false, false, false, false,
      false, true, false, false)), (String ((Ascii (false, false, true,
      false, true, true, true, false)), (String ((Ascii (true, true, true,
      true, false, true, true, false)), (String ((Ascii (false, false, false,
      false, true, true, true, false)), (String ((Ascii (true, false, false,
      true, false, true, true, false)), (String ((Ascii (true, true, false,
      false, false, true, true, false)), (String ((Ascii (true, false, true,
      true, true, true, false, false)), (String ((Ascii (false, false, false,
      true, true, true, true, false)),
      EmptyString)))))))))))))))))))))))))))))))
    (app (hex topic)
      (app
        (s2t (String ((Ascii (false, false, false, false, false, true, false,
          false)), (String ((Ascii (false, false, false, false, true, true,
          true, false)), (String ((Ascii (true, false, false, true, false,
          true, true, false)), (String ((Ascii (false, false, true, false,
          false, true, true, false)), (String ((Ascii (true, false, true,
          true, true, true, false, false)), EmptyString)))))))))))
        (app (show_optN pid)
          (app
            (s2t (String ((Ascii (false, false, false, false, false, true,
              false, false)), (String ((Ascii (true, false, false, false,
              true, true, true, false)), (String ((Ascii (true, true, true,
              true, false, true, true, false)), (String ((Ascii (true, true,
              false, false, true, true, true, false)), (String ((Ascii (true,
              false, true, true, true, true, false, false)),
              EmptyString)))))))))))
            (app (show_N (qos_n q))
              (app
                (s2t (String ((Ascii (false, false, false, false, false,
                  true, false, false)), (String ((Ascii (false, true, false,
                  false, true, true, true, false)), (String ((Ascii (true,
                  false, true, false, false, true, true, false)), (String
                  ((Ascii (false, false, true, false, true, true, true,
                  false)), (String ((Ascii (true, false, false, false, false,
                  true, true, false)), (String ((Ascii (true, false, false,
                  true, false, true, true, false)), (String ((Ascii (false,
                  true, true, true, false, true, true, false)), (String
                  ((Ascii (true, false, true, true, true, true, false,
                  false)), EmptyString)))))))))))))))))
                (app (show_bool r)
                  (app
                    (s2t (String ((Ascii (false, false, false, false, false,
                      true, false, false)), (String ((Ascii (false, false,
                      true, false, false, true, true, false)), (String
                      ((Ascii (true, false, true, false, true, true, true,
                      false)), (String ((Ascii (false, false, false, false,
                      true, true, true, false)), (String ((Ascii (true,
                      false, true, true, true, true, false, false)),
                      EmptyString)))))))))))
                    (app (show_bool d)
                      (app
                        (s2t (String ((Ascii (false, false, false, false,
                          false, true, false, false)), (String ((Ascii
                          (false, false, false, false, true, true, true,
                          false)), (String ((Ascii (true, false, false,
                          false, false, true, true, false)), (String ((Ascii
                          (true, false, false, true, true, true, true,
                          false)), (String ((Ascii (false, false, true, true,
                          false, true, true, false)), (String ((Ascii (true,
                          true, true, true, false, true, true, false)),
                          (String ((Ascii (true, false, false, false, false,
                          true, true, false)), (String ((Ascii (false, false,
                          true, false, false, true, true, false)), (String
                          ((Ascii (true, false, true, true, true, true,
                          false, false)), (String ((Ascii (false, false,
                          false, true, true, true, true, false)),
                          EmptyString)))))))))))))))))))))
                        (app (hex payload)
                          (app
                            (s2t (String ((Ascii (false, false, false, false,
                              false, true, false, false)), (String ((Ascii
                              (false, false, false, false, true, true, true,
                              false)), (String ((Ascii (false, true, false,
                              false, true, true, true, false)), (String
                              ((Ascii (true, true, true, true, false, true,
                              true, false)), (String ((Ascii (false, false,
                              false, false, true, true, true, false)),
                              (String ((Ascii (true, true, false, false,
                              true, true, true, false)), (String ((Ascii
                              (true, false, true, true, true, true, false,
                              false)), EmptyString)))))))))))))))
                            (show_props_block ps)))))))))))))
| RPubAck (pid, rc) ->
  app
    (s2t (String ((Ascii (false, false, false, false, true, false, true,
      false)), (String ((Ascii (true, false, true, false, true, false, true,
      false)), (String ((Ascii (false, true, false, false, false, false,
      true, false)), (String ((Ascii (true, false, false, false, false,
      false, true, false)), (String ((Ascii (true, true, false, false, false,
      false, true, false)), (String ((Ascii (true, true, false, true, false,
      false, true, false)), (String ((Ascii (false, false, false, false,
      false, true, false, false)), (String ((Ascii (false, false, false,
      false, true, true, true, false)), (String ((Ascii (true, false, false,
      true, false, true, true, false)), (String ((Ascii (false, false, true,
      false, false, true, true, false)), (String ((Ascii (true, false, true,
      true, true, true, false, false)), EmptyString)))))))))))))))))))))))
    (app (show_N pid)
      (app
        (s2t (String ((Ascii (false, false, false, false, false, true, false,
          false)), (String ((Ascii (false, true, false, false, true, true,
          true, false)), (String ((Ascii (true, true, false, false, false,
          true, true, false)), (String ((Ascii (true, false, true, true,
          true, true, false, false)), EmptyString))))))))) (show_N rc)))
| RPubRec (pid, rc) ->
  app
    (s2t (String ((Ascii (false, false, false, false, true, false, true,
      false)), (String ((Ascii (true, false, true, false, true, false, true,
      false)), (String ((Ascii (false, true, false, false, false, false,
      true, false)), (String ((Ascii (false, true, false, false, true, false,
      true, false)), (String ((Ascii (true, false, true, false, false, false,
      true, false)), (String ((Ascii (true, true, false, false, false, false,
      true, false)), (String ((Ascii (false, false, false, false, false,
      true, false, false)), (String ((Ascii (false, false, false, false,
      true, true, true, false)), (String ((Ascii (true, false, false, true,
      false, true, true, false)), (String ((Ascii (false, false, true, false,
      false, true, true, false)), (String ((Ascii (true, false, true, true,
      true, true, false, false)), EmptyString)))))))))))))))))))))))
    (app (show_N pid)
      (app
        (s2t (String ((Ascii (false, false, false, false, false, true, false,
          false)), (String ((Ascii (false, true, false, false, true, true,
          true, false)), (String ((Ascii (true, true, false, false, false,
          true, true, false)), (String ((Ascii (true, false, true, true,
          true, true, false, false)), EmptyString))))))))) (show_N rc)))
| RPubRel (pid, rc) ->
  app
    (s2t (String ((Ascii (false, false, false, false, true, false, true,
      false)), (String ((Ascii (true, false, true, false, true, false, true,
      false)), (String ((Ascii (false, true, false, false, false, false,
      true, false)), (String ((Ascii (false, true, false, false, true, false,
      true, false)), (String ((Ascii (true, false, true, false, false, false,
      true, false)), (String ((Ascii (false, false, true, true, false, false,
      true, false)), (String ((Ascii (false, false, false, false, false,
      true, false, false)), (String ((Ascii (false, false, false, false,
      true, true, true, false)), (String ((Ascii (true, false, false, true,
      false, true, true, false)), (String ((Ascii (false, false, true, false,
      false, true, true, false)), (String ((Ascii (true, false, true, true,
      true, true, false, false)), EmptyString)))))))))))))))))))))))
    (app (show_N pid)
      (app
        (s2t (String ((Ascii (false, false, false, false, false, true, false,
          false)), (String ((Ascii (false, true, false, false, true, true,
          true, false)), (String ((Ascii (true, true, false, false, false,
          true, true, false)), (String ((Ascii (true, false, true, true,
          true, true, false, false)), EmptyString))))))))) (show_N rc)))
| RPubComp (pid, rc) ->
  app
    (s2t (String ((Ascii (false, false, false, false, true, false, true,
      false)), (String ((Ascii (true, false, true, false, true, false, true,
      false)), (String ((Ascii (false, true, false, false, false, false,
      true, false)), (String ((Ascii (true, true, false, false, false, false,
      true, false)), (String ((Ascii (true, true, true, true, false, false,
      true, false)), (String ((Ascii (true, false, true, true, false, false,
      true, false)), (String ((Ascii (false, false, false, false, true,
      false, true, false)), (String ((Ascii (false, false, false, false,
      false, true, false, false)), (String ((Ascii (false, false, false,
      false, true, true, true, false)), (String ((Ascii (true, false, false,
      true, false, true, true, false)), (String ((Ascii (false, false, true,
      false, false, true, true, false)), (String ((Ascii (true, false, true,
      true, true, true, false, false)), EmptyString)))))))))))))))))))))))))
    (app (show_N pid)
      (app
        (s2t (String ((Ascii (false, false, false, false, false, true, false,
          false)), (String ((Ascii (false, true, false, false, true, true,
          true, false)), (String ((Ascii (true, true, false, false, false,
          true, true, false)), (String ((Ascii (true, false, true, true,
          true, true, false, false)), EmptyString))))))))) (show_N rc)))
| RSubAck (pid, ps, codes) ->
  app
    (s2t (String ((Ascii (true, true, false, false, true, false, true,
      false)), (String ((Ascii (true, false, true, false, true, false, true,
      false)), (String ((Ascii (false, true, false, false, false, false,
      true, false)), (String ((Ascii (true, false, false, false, false,
      false, true, false)), (String ((Ascii (true, true, false, false, false,
      false, true, false)), (String ((Ascii (true, true, false, true, false,
      false, true, false)), (String ((Ascii (false, false, false, false,
      false, true, false, false)), (String ((Ascii (false, false, false,
      false, true, true, true, false)), (String ((Ascii (true, false, false,
      true, false, true, true, false)), (String ((Ascii (false, false, true,
      false, false, true, true, false)), (String ((Ascii (true, false, true,
      true, true, true, false, false)), EmptyString)))))))))))))))))))))))
    (app (show_N pid)
      (app
        (s2t (String ((Ascii (false, false, false, false, false, true, false,
          false)), (String ((Ascii (true, true, false, false, false, true,
          true, false)), (String ((Ascii (true, true, true, true, false,
          true, true, false)), (String ((Ascii (false, false, true, false,
          false, true, true, false)), (String ((Ascii (true, false, true,
          false, false, true, true, false)), (String ((Ascii (true, true,
          false, false, true, true, true, false)), (String ((Ascii (true,
          false, true, true, true, true, false, false)), (String ((Ascii
          (false, false, false, true, true, true, true, false)),
          EmptyString)))))))))))))))))
        (app (hex codes)
          (app
            (s2t (String ((Ascii (false, false, false, false, false, true,
              false, false)), (String ((Ascii (false, false, false, false,
              true, true, true, false)), (String ((Ascii (false, true, false,
              false, true, true, true, false)), (String ((Ascii (true, true,
              true, true, false, true, true, false)), (String ((Ascii (false,
              false, false, false, true, true, true, false)), (String ((Ascii
              (true, true, false, false, true, true, true, false)), (String
              ((Ascii (true, false, true, true, true, true, false, false)),
              EmptyString))))))))))))))) (show_props_block ps)))))
| RUnsubAck (pid, ps, codes) ->
  app
    (s2t (String ((Ascii (true, false, true, false, true, false, true,
      false)), (String ((Ascii (false, true, true, true, false, false, true,
      false)), (String ((Ascii (true, true, false, false, true, false, true,
      false)), (String ((Ascii (true, false, true, false, true, false, true,
      false)), (String ((Ascii (false, true, false, false, false, false,
      true, false)), (String ((Ascii (true, false, false, false, false,
      false, true, false)), (String ((Ascii (true, true, false, false, false,
      false, true, false)), (String ((Ascii (true, true, false, true, false,
      false, true, false)), (String ((Ascii (false, false, false, false,
      false, true, false, false)), (String ((Ascii (false, false, false,
      false, true, true, true, false)), (String ((Ascii (true, false, false,
      true, false, true, true, false)), (String ((Ascii (false, false, true,
      false, false, true, true, false)), (String ((Ascii (true, false, true,
      true, true, true, false, false)), EmptyString)))))))))))))))))))))))))))
    (app (show_N pid)
      (app
        (s2t (String ((Ascii (false, false, false, false, false, true, false,
          false)), (String ((Ascii (true, true, false, false, false, true,
          true, false)), (String ((Ascii (true, true, true, true, false,
          true, true, false)), (String ((Ascii (false, false, true, false,
          false, true, true, false)), (String ((Ascii (true, false, true,
          false, false, true, true, false)), (String ((Ascii (true, true,
          false, false, true, true, true, false)), (String ((Ascii (true,
          false, true, true, true, true, false, false)), (String ((Ascii
          (false, false, false, true, true, true, true, false)),
          EmptyString)))))))))))))))))
        (app (hex codes)
          (app
            (s2t (String ((Ascii (false, false, false, false, false, true,
              false, false)), (String ((Ascii (false, false, false, false,
              true, true, true, false)), (String ((Ascii (false, true, false,
              false, true, true, true, false)), (String ((Ascii (true, true,
              true, true, false, true, true, false)), (String ((Ascii (false,
              false, false, false, true, true, true, false)), (String ((Ascii
              (true, true, false, false, true, true, true, false)), (String
              ((Ascii (true, false, true, true, true, true, false, false)),
              EmptyString))))))))))))))) (show_props_block ps)))))
| RDisconnect (rc, ps) ->
  app
    (s2t (String ((Ascii (false, false, true, false, false, false, true,
      false)), (String ((Ascii (true, false, false, true, false, false, true,
      false)), (String ((Ascii (true, true, false, false, true, false, true,
      false)), (String ((Ascii (true, true, false, false, false, false, true,
      false)), (String ((Ascii (true, true, true, true, false, false, true,
      false)), (String ((Ascii (false, true, true, true, false, false, true,
      false)), (String ((Ascii (false, true, true, true, false, false, true,
      false)), (String ((Ascii (true, false, true, false, false, false, true,
      false)), (String ((Ascii (true, true, false, false, false, false, true,
      false)), (String ((Ascii (false, false, true, false, true, false, true,
      false)), (String ((Ascii (false, false, false, false, false, true,
      false, false)), (String ((Ascii (false, true, false, false, true, true,
      true, false)), (String ((Ascii (true, true, false, false, false, true,
      true, false)), (String ((Ascii (true, false, true, true, true, true,
      false, false)), EmptyString)))))))))))))))))))))))))))))
    (app (show_N rc)
      (app
        (s2t (String ((Ascii (false, false, false, false, false, true, false,
          false)), (String ((Ascii (false, false, false, false, true, true,
          true, false)), (String ((Ascii (false, true, false, false, true,
          true, true, false)), (String ((Ascii (true, true, true, true,
          false, true, true, false)), (String ((Ascii (false, false, false,
          false, true, true, true, false)), (String ((Ascii (true, true,
          false, false, true, true, true, false)), (String ((Ascii (true,
          false, true, true, true, true, false, false)),
          EmptyString)))))))))))))))
        (match ps with
         | Some b -> show_props_block b
         | None ->
           s2t (String ((Ascii (false, true, true, true, false, true, true,
             false)), (String ((Ascii (true, true, true, true, false, true,
             true, false)), (String ((Ascii (false, true, true, true, false,
             true, true, false)), (String ((Ascii (true, false, true, false,
             false, true, true, false)), EmptyString)))))))))))
| RPingResp ->
  s2t (String ((Ascii (false, false, false, false, true, false, true,
    false)), (String ((Ascii (true, false, false, true, false, false, true,
    false)), (String ((Ascii (false, true, true, true, false, false, true,
    false)), (String ((Ascii (true, true, true, false, false, false, true,
    false)), (String ((Ascii (false, true, false, false, true, false, true,
    false)), (String ((Ascii (true, false, true, false, false, false, true,
    false)), (String ((Ascii (true, true, false, false, true, false, true,
    false)), (String ((Ascii (false, false, false, false, true, false, true,
    false)), EmptyString))))))))))))))))

(** val show_decode : bytes -> text **)

let show_decode buf =
  match from_buffer buf with
  | Some p -> show_packet p
  | None ->
    s2t (String ((Ascii (true, false, true, false, false, false, true,
      false)), (String ((Ascii (false, true, false, false, true, false, true,
      false)), (String ((Ascii (false, true, false, false, true, false, true,
      false)), EmptyString))))))

(** val show_sres : sres -> text **)

let show_sres = function
| SOk (off, b) ->
  app
    (s2t (String ((Ascii (true, true, true, true, false, false, true,
      false)), (String ((Ascii (true, true, false, true, false, false, true,
      false)), (String ((Ascii (false, false, false, false, false, true,
      false, false)), (String ((Ascii (true, true, true, true, false, true,
      true, false)), (String ((Ascii (false, true, true, false, false, true,
      true, false)), (String ((Ascii (false, true, true, false, false, true,
      true, false)), (String ((Ascii (true, false, true, true, true, true,
      false, false)), EmptyString)))))))))))))))
    (app (show_N off)
      (app
        (s2t (String ((Ascii (false, false, false, false, false, true, false,
          false)), (String ((Ascii (false, false, false, true, true, true,
          true, false)), EmptyString))))) (hex b)))
| SErr e ->
  (match e with
   | EMem ->
     s2t (String ((Ascii (true, false, true, false, false, false, true,
       false)), (String ((Ascii (false, true, false, false, true, false,
       true, false)), (String ((Ascii (false, true, false, false, true,
       false, true, false)), (String ((Ascii (false, false, false, false,
       false, true, false, false)), (String ((Ascii (true, false, true, true,
       false, true, true, false)), (String ((Ascii (true, false, true, false,
       false, true, true, false)), (String ((Ascii (true, false, true, true,
       false, true, true, false)), EmptyString))))))))))))))
   | ECustom ->
     s2t (String ((Ascii (true, false, true, false, false, false, true,
       false)), (String ((Ascii (false, true, false, false, true, false,
       true, false)), (String ((Ascii (false, true, false, false, true,
       false, true, false)), (String ((Ascii (false, false, false, false,
       false, true, false, false)), (String ((Ascii (true, true, false,
       false, false, true, true, false)), (String ((Ascii (true, false, true,
       false, true, true, true, false)), (String ((Ascii (true, true, false,
       false, true, true, true, false)), (String ((Ascii (false, false, true,
       false, true, true, true, false)), (String ((Ascii (true, true, true,
       true, false, true, true, false)), (String ((Ascii (true, false, true,
       true, false, true, true, false)), EmptyString))))))))))))))))))))
   | EPay ->
     s2t (String ((Ascii (true, false, true, false, false, false, true,
       false)), (String ((Ascii (false, true, false, false, true, false,
       true, false)), (String ((Ascii (false, true, false, false, true,
       false, true, false)), (String ((Ascii (false, false, false, false,
       false, true, false, false)), (String ((Ascii (false, false, false,
       false, true, true, true, false)), (String ((Ascii (true, false, false,
       false, false, true, true, false)), (String ((Ascii (true, false,
       false, true, true, true, true, false)), (String ((Ascii (false, false,
       true, true, false, true, true, false)), (String ((Ascii (true, true,
       true, true, false, true, true, false)), (String ((Ascii (true, false,
       false, false, false, true, true, false)), (String ((Ascii (false,
       false, true, false, false, true, true, false)),
       EmptyString)))))))))))))))))))))))

(** val show_reader_end : reader -> text **)

let show_reader_end r =
  app
    (s2t (String ((Ascii (true, false, true, false, false, true, true,
      false)), (String ((Ascii (false, true, true, true, false, true, true,
      false)), (String ((Ascii (false, false, true, false, false, true, true,
      false)), (String ((Ascii (false, false, false, false, false, true,
      false, false)), (String ((Ascii (false, true, false, false, true, true,
      true, false)), (String ((Ascii (false, true, false, false, false, true,
      true, false)), (String ((Ascii (true, false, true, true, true, true,
      false, false)), EmptyString)))))))))))))))
    (app (show_N (read_bytes r))
      (app
        (s2t (String ((Ascii (false, false, false, false, false, true, false,
          false)), (String ((Ascii (false, false, false, false, true, true,
          true, false)), (String ((Ascii (false, false, true, true, false,
          true, true, false)), (String ((Ascii (true, false, true, true,
          true, true, false, false)), EmptyString)))))))))
        (show_optN r.rplen)))

(** val reader_run_fuel : nat -> reader -> bytes -> n list -> text -> text **)

let rec reader_run_fuel fuel r input frags acc =
  match fuel with
  | O ->
    app acc
      (s2t (String ((Ascii (false, true, true, false, false, false, true,
        false)), (String ((Ascii (true, false, true, false, true, false,
        true, false)), (String ((Ascii (true, false, true, false, false,
        false, true, false)), (String ((Ascii (false, false, true, true,
        false, false, true, false)), EmptyString)))))))))
  | S f ->
    if packet_available r
    then (match take_packet r with
          | Some p0 ->
            let (p1, o) = p0 in
            let (r', pl) = p1 in
            (match o with
             | Some p ->
               reader_run_fuel f r' input frags
                 (app acc
                   (app
                     (s2t (String ((Ascii (false, false, false, false, true,
                       true, true, false)), (String ((Ascii (true, true,
                       false, true, false, true, true, false)), (String
                       ((Ascii (false, false, true, false, true, true, true,
                       false)), (String ((Ascii (false, false, false, false,
                       false, true, false, false)), EmptyString)))))))))
                     (app (show_N pl)
                       (app
                         (s2t (String ((Ascii (false, false, false, false,
                           false, true, false, false)), EmptyString)))
                         (app (show_packet p)
                           (s2t (String ((Ascii (true, true, false, true,
                             true, true, false, false)), EmptyString))))))))
             | None ->
               reader_run_fuel f r' input frags
                 (app acc
                   (s2t (String ((Ascii (false, false, false, false, true,
                     true, true, false)), (String ((Ascii (true, true, false,
                     true, false, true, true, false)), (String ((Ascii
                     (false, false, true, false, true, true, true, false)),
                     (String ((Ascii (false, false, false, false, false,
                     true, false, false)), (String ((Ascii (true, false,
                     true, false, false, false, true, false)), (String
                     ((Ascii (false, true, false, false, true, false, true,
                     false)), (String ((Ascii (false, true, false, false,
                     true, false, true, false)), (String ((Ascii (true, true,
                     false, true, true, true, false, false)),
                     EmptyString)))))))))))))))))))
          | None ->
            app acc
              (s2t (String ((Ascii (false, false, false, false, true, true,
                true, false)), (String ((Ascii (true, true, false, true,
                false, true, true, false)), (String ((Ascii (false, false,
                true, false, true, true, true, false)), (String ((Ascii
                (false, false, false, false, false, true, false, false)),
                (String ((Ascii (false, true, true, true, false, false, true,
                false)), (String ((Ascii (true, true, true, true, false,
                false, true, false)), (String ((Ascii (false, true, true,
                true, false, false, true, false)), (String ((Ascii (true,
                false, true, false, false, false, true, false)), (String
                ((Ascii (true, true, false, true, true, true, false, false)),
                EmptyString))))))))))))))))))))
    else let (r', o) = receive_buffer r in
         (match o with
          | Some w ->
            let acc' =
              app acc
                (app
                  (s2t (String ((Ascii (true, true, true, false, true, true,
                    true, false)), (String ((Ascii (true, false, false, true,
                    false, true, true, false)), (String ((Ascii (false, true,
                    true, true, false, true, true, false)), (String ((Ascii
                    (false, false, false, false, false, true, false, false)),
                    EmptyString)))))))))
                  (app (show_N w)
                    (s2t (String ((Ascii (true, true, false, true, true,
                      true, false, false)), EmptyString)))))
            in
            if (||) (N.eqb w N0) (N.eqb (lenN input) N0)
            then app acc' (show_reader_end r')
            else let req = match frags with
                           | [] -> Npos XH
                           | x :: _ -> x in
                 let cnt = N.min (N.min (N.max req (Npos XH)) w) (lenN input)
                 in
                 reader_run_fuel f (commit r' (takeN cnt input))
                   (dropN cnt input) (tl frags) acc'
          | None ->
            app acc
              (app
                (s2t (String ((Ascii (true, true, true, false, true, true,
                  true, false)), (String ((Ascii (true, false, false, true,
                  false, true, true, false)), (String ((Ascii (false, true,
                  true, true, false, true, true, false)), (String ((Ascii
                  (false, false, false, false, false, true, false, false)),
                  (String ((Ascii (true, false, true, false, false, false,
                  true, false)), (String ((Ascii (false, true, false, false,
                  true, false, true, false)), (String ((Ascii (false, true,
                  false, false, true, false, true, false)), (String ((Ascii
                  (true, true, false, true, true, true, false, false)),
                  EmptyString))))))))))))))))) (show_reader_end r')))

(** val show_reader_run : n -> bytes -> n list -> text **)

let show_reader_run rx input frags =
  reader_run_fuel (add (mul (S (S O)) (length input)) (S (S (S (S O)))))
    (reader_new rx) input frags []

type 'a parser0 = n list -> ('a * n list) option

(** val p_ret : 'a1 -> 'a1 parser0 **)

let p_ret a l =
  Some (a, l)

(** val p_bind : 'a1 parser0 -> ('a1 -> 'a2 parser0) -> 'a2 parser0 **)

let p_bind p f l =
  match p l with
  | Some p0 -> let (a, r) = p0 in f a r
  | None -> None

(** val p_N : n parser0 **)

let p_N = function
| [] -> None
| x :: t -> Some (x, t)

(** val p_bool : bool parser0 **)

let p_bool =
  p_bind p_N (fun x -> p_ret (negb (N.eqb x N0)))

(** val p_count : nat -> 'a1 parser0 -> n -> 'a1 list parser0 **)

let rec p_count fuel p n0 =
  match fuel with
  | O -> (fun _ -> None)
  | S f ->
    if N.eqb n0 N0
    then p_ret []
    else p_bind p (fun x ->
           p_bind (p_count f p (N.pred n0)) (fun r -> p_ret (x :: r)))

(** val p_list : 'a1 parser0 -> 'a1 list parser0 **)

let p_list p = function
| [] -> None
| n0 :: t -> p_count (S (length t)) p n0 t

(** val p_bytes : bytes parser0 **)

let p_bytes =
  p_list p_N

(** val p_opt : 'a1 parser0 -> 'a1 option parser0 **)

let p_opt p =
  p_bind p_N (fun t ->
    if N.eqb t N0 then p_ret None else p_bind p (fun x -> p_ret (Some x)))

(** val p_kind : pkind parser0 **)

let p_kind =
  p_bind p_N (fun i l ->
    match nth_error all_kinds (N.to_nat i) with
    | Some k -> Some (k, l)
    | None -> None)

(** val p_prop : prop parser0 **)

let p_prop =
  p_bind p_kind (fun k ->
    p_bind p_N (fun n0 ->
      p_bind p_bytes (fun d ->
        p_bind p_bytes (fun d2 -> p_ret (mkprop k n0 d d2)))))

(** val p_ctx : pctx parser0 **)

let p_ctx =
  p_bind p_N (fun i l ->
    match nth_error all_ctx (N.to_nat i) with
    | Some c -> Some (c, l)
    | None -> None)

(** val p_qos : qos parser0 **)

let p_qos =
  p_bind p_N (fun i l ->
    match qos_of_n i with
    | Some q -> Some (q, l)
    | None -> None)

(** val p_properties : properties parser0 **)

let p_properties =
  p_bind p_N (fun t ->
    if N.eqb t N0
    then p_bind (p_list p_prop) (fun l -> p_ret (PSlice l))
    else p_bind p_bytes (fun c ->
           p_bind (p_list p_prop) (fun l ->
             p_ret (PWithCorr ((mkprop KCorrelationData N0 c []), l)))))

(** val p_will : will parser0 **)

let p_will =
  p_bind p_bytes (fun t ->
    p_bind p_bytes (fun d ->
      p_bind p_qos (fun q ->
        p_bind p_bool (fun r ->
          p_bind (p_list p_prop) (fun ps ->
            p_ret { w_topic = t; w_data = d; w_qos = q; w_retain = r;
              w_props = ps })))))

(** val p_auth : auth parser0 **)

let p_auth =
  p_bind p_bytes (fun u ->
    p_bind p_bytes (fun p -> p_ret { a_user = u; a_pass = p }))

(** val p_connect_req : connect_req parser0 **)

let p_connect_req =
  p_bind p_N (fun ka ->
    p_bind (p_list p_prop) (fun ps ->
      p_bind p_bytes (fun cid ->
        p_bind (p_opt p_auth) (fun a ->
          p_bind (p_opt p_will) (fun w ->
            p_bind p_bool (fun c ->
              p_ret { cq_keepalive = ka; cq_props = ps; cq_client_id = cid;
                cq_auth = a; cq_will = w; cq_clean = c }))))))

(** val p_publish_req : publish_req parser0 **)

let p_publish_req =
  p_bind p_bytes (fun t ->
    p_bind (p_opt p_N) (fun pid ->
      p_bind p_properties (fun ps ->
        p_bind p_bool (fun r ->
          p_bind p_qos (fun q ->
            p_bind p_bool (fun d ->
              p_bind p_bytes (fun pl ->
                p_ret { pq_topic = t; pq_pid = pid; pq_props = ps;
                  pq_retain = r; pq_qos = q; pq_dup = d; pq_payload = pl })))))))

(** val p_sub_topic : (bytes * sub_opts) parser0 **)

let p_sub_topic =
  p_bind p_bytes (fun t ->
    p_bind p_qos (fun q ->
      p_bind p_bool (fun nl ->
        p_bind p_bool (fun rap ->
          p_bind p_N (fun rh ->
            p_ret (t, { so_qos = q; so_no_local = nl; so_rap = rap; so_rh =
              rh }))))))

(** val p_subscribe_req : subscribe_req parser0 **)

let p_subscribe_req =
  p_bind p_N (fun pid ->
    p_bind (p_list p_prop) (fun ps ->
      p_bind (p_list p_sub_topic) (fun ts ->
        p_ret { sq_pid = pid; sq_props = ps; sq_topics = ts })))

(** val p_unsubscribe_req : unsubscribe_req parser0 **)

let p_unsubscribe_req =
  p_bind p_N (fun pid ->
    p_bind (p_list p_prop) (fun ps ->
      p_bind (p_list p_bytes) (fun ts ->
        p_ret { uq_pid = pid; uq_props = ps; uq_topics = ts })))

(** val p_disconnect_req : disconnect_req parser0 **)

let p_disconnect_req =
  p_bind (p_opt p_N) (fun r ->
    p_bind (p_opt (p_list p_prop)) (fun ps ->
      p_ret { dq_reason =
        (match r with
         | Some _ -> r
         | None -> (match ps with
                    | Some _ -> Some N0
                    | None -> r)); dq_props = ps }))

type world = { w_sess : session; w_conn : bool; w_live : bool; w_event : 
               n; w_now : n; w_inq : (n * bytes) list; w_last_arrival : 
               n; w_txbuf : bytes; w_script : (n * n) list; w_broker : 
               n; w_log : text list; w_handles : op list; w_waits : n;
               w_envok : bool; w_wire : bytes; w_poison : bool;
               w_drained : bool }

(** val upd_sess : world -> session -> world **)

let upd_sess w s =
  { w_sess = s; w_conn = w.w_conn; w_live = w.w_live; w_event = w.w_event;
    w_now = w.w_now; w_inq = w.w_inq; w_last_arrival = w.w_last_arrival;
    w_txbuf = w.w_txbuf; w_script = w.w_script; w_broker = w.w_broker;
    w_log = w.w_log; w_handles = w.w_handles; w_waits = w.w_waits; w_envok =
    w.w_envok; w_wire = w.w_wire; w_poison = w.w_poison; w_drained =
    w.w_drained }

(** val upd_live : world -> bool -> bool -> n -> world **)

let upd_live w conn live ev =
  { w_sess = w.w_sess; w_conn = conn; w_live = live; w_event = ev; w_now =
    w.w_now; w_inq = w.w_inq; w_last_arrival = w.w_last_arrival; w_txbuf =
    w.w_txbuf; w_script = w.w_script; w_broker = w.w_broker; w_log = w.w_log;
    w_handles = w.w_handles; w_waits = w.w_waits; w_envok = w.w_envok;
    w_wire = w.w_wire; w_poison = w.w_poison; w_drained = w.w_drained }

(** val upd_log : world -> text -> world **)

let upd_log w l =
  { w_sess = w.w_sess; w_conn = w.w_conn; w_live = w.w_live; w_event =
    w.w_event; w_now = w.w_now; w_inq = w.w_inq; w_last_arrival =
    w.w_last_arrival; w_txbuf = w.w_txbuf; w_script = w.w_script; w_broker =
    w.w_broker; w_log = (l :: w.w_log); w_handles = w.w_handles; w_waits =
    w.w_waits; w_envok = w.w_envok; w_wire = w.w_wire; w_poison = w.w_poison;
    w_drained = w.w_drained }

(** val upd_script : world -> (n * n) list -> world **)

let upd_script w sc =
  { w_sess = w.w_sess; w_conn = w.w_conn; w_live = w.w_live; w_event =
    w.w_event; w_now = w.w_now; w_inq = w.w_inq; w_last_arrival =
    w.w_last_arrival; w_txbuf = w.w_txbuf; w_script = sc; w_broker =
    w.w_broker; w_log = w.w_log; w_handles = w.w_handles; w_waits =
    w.w_waits; w_envok = w.w_envok; w_wire = w.w_wire; w_poison = w.w_poison;
    w_drained = w.w_drained }

(** val upd_now : world -> n -> world **)

let upd_now w t =
  { w_sess = w.w_sess; w_conn = w.w_conn; w_live = w.w_live; w_event =
    w.w_event; w_now = t; w_inq = w.w_inq; w_last_arrival = w.w_last_arrival;
    w_txbuf = w.w_txbuf; w_script = w.w_script; w_broker = w.w_broker;
    w_log = w.w_log; w_handles = w.w_handles; w_waits = w.w_waits; w_envok =
    w.w_envok; w_wire = w.w_wire; w_poison = w.w_poison; w_drained =
    w.w_drained }

(** val upd_inq : world -> (n * bytes) list -> n -> world **)

let upd_inq w q last =
  { w_sess = w.w_sess; w_conn = w.w_conn; w_live = w.w_live; w_event =
    w.w_event; w_now = w.w_now; w_inq = q; w_last_arrival = last; w_txbuf =
    w.w_txbuf; w_script = w.w_script; w_broker = w.w_broker; w_log = w.w_log;
    w_handles = w.w_handles; w_waits = w.w_waits; w_envok = w.w_envok;
    w_wire = w.w_wire; w_poison = w.w_poison; w_drained = w.w_drained }

(** val upd_txbuf : world -> bytes -> world **)

let upd_txbuf w b =
  { w_sess = w.w_sess; w_conn = w.w_conn; w_live = w.w_live; w_event =
    w.w_event; w_now = w.w_now; w_inq = w.w_inq; w_last_arrival =
    w.w_last_arrival; w_txbuf = b; w_script = w.w_script; w_broker =
    w.w_broker; w_log = w.w_log; w_handles = w.w_handles; w_waits =
    w.w_waits; w_envok = w.w_envok; w_wire = w.w_wire; w_poison = w.w_poison;
    w_drained = w.w_drained }

(** val upd_broker : world -> n -> world **)

let upd_broker w m =
  { w_sess = w.w_sess; w_conn = w.w_conn; w_live = w.w_live; w_event =
    w.w_event; w_now = w.w_now; w_inq = w.w_inq; w_last_arrival =
    w.w_last_arrival; w_txbuf = w.w_txbuf; w_script = w.w_script; w_broker =
    m; w_log = w.w_log; w_handles = w.w_handles; w_waits = w.w_waits;
    w_envok = w.w_envok; w_wire = w.w_wire; w_poison = w.w_poison;
    w_drained = w.w_drained }

(** val upd_handles : world -> op list -> world **)

let upd_handles w h =
  { w_sess = w.w_sess; w_conn = w.w_conn; w_live = w.w_live; w_event =
    w.w_event; w_now = w.w_now; w_inq = w.w_inq; w_last_arrival =
    w.w_last_arrival; w_txbuf = w.w_txbuf; w_script = w.w_script; w_broker =
    w.w_broker; w_log = w.w_log; w_handles = h; w_waits = w.w_waits;
    w_envok = w.w_envok; w_wire = w.w_wire; w_poison = w.w_poison;
    w_drained = w.w_drained }

(** val upd_waits : world -> n -> world **)

let upd_waits w n0 =
  { w_sess = w.w_sess; w_conn = w.w_conn; w_live = w.w_live; w_event =
    w.w_event; w_now = w.w_now; w_inq = w.w_inq; w_last_arrival =
    w.w_last_arrival; w_txbuf = w.w_txbuf; w_script = w.w_script; w_broker =
    w.w_broker; w_log = w.w_log; w_handles = w.w_handles; w_waits = n0;
    w_envok = w.w_envok; w_wire = w.w_wire; w_poison = w.w_poison;
    w_drained = w.w_drained }

(** val upd_envok : world -> bool -> world **)

let upd_envok w b =
  { w_sess = w.w_sess; w_conn = w.w_conn; w_live = w.w_live; w_event =
    w.w_event; w_now = w.w_now; w_inq = w.w_inq; w_last_arrival =
    w.w_last_arrival; w_txbuf = w.w_txbuf; w_script = w.w_script; w_broker =
    w.w_broker; w_log = w.w_log; w_handles = w.w_handles; w_waits =
    w.w_waits; w_envok = b; w_wire = w.w_wire; w_poison = w.w_poison;
    w_drained = w.w_drained }

(** val upd_wire : world -> bytes -> world **)

let upd_wire w b =
  { w_sess = w.w_sess; w_conn = w.w_conn; w_live = w.w_live; w_event =
    w.w_event; w_now = w.w_now; w_inq = w.w_inq; w_last_arrival =
    w.w_last_arrival; w_txbuf = w.w_txbuf; w_script = w.w_script; w_broker =
    w.w_broker; w_log = w.w_log; w_handles = w.w_handles; w_waits =
    w.w_waits; w_envok = w.w_envok; w_wire = b; w_poison = w.w_poison;
    w_drained = w.w_drained }

(** val upd_poison : world -> bool -> world **)

let upd_poison w b =
  { w_sess = w.w_sess; w_conn = w.w_conn; w_live = w.w_live; w_event =
    w.w_event; w_now = w.w_now; w_inq = w.w_inq; w_last_arrival =
    w.w_last_arrival; w_txbuf = w.w_txbuf; w_script = w.w_script; w_broker =
    w.w_broker; w_log = w.w_log; w_handles = w.w_handles; w_waits =
    w.w_waits; w_envok = w.w_envok; w_wire = w.w_wire; w_poison = b;
    w_drained = w.w_drained }

(** val upd_drained : world -> bool -> world **)

let upd_drained w b =
  { w_sess = w.w_sess; w_conn = w.w_conn; w_live = w.w_live; w_event =
    w.w_event; w_now = w.w_now; w_inq = w.w_inq; w_last_arrival =
    w.w_last_arrival; w_txbuf = w.w_txbuf; w_script = w.w_script; w_broker =
    w.w_broker; w_log = w.w_log; w_handles = w.w_handles; w_waits =
    w.w_waits; w_envok = w.w_envok; w_wire = w.w_wire; w_poison = w.w_poison;
    w_drained = b }

(** val mAX_WAITS : n **)

let mAX_WAITS =
  Npos (XO (XO (XO (XO (XO (XO XH))))))

(** val sTUTTER_MS : n **)

let sTUTTER_MS =
  Npos (XO (XO (XI (XO (XO (XI XH))))))

(** val w_hd : world -> world **)

let w_hd w =
  upd_live (upd_sess w (sess_handle_disconnect w.w_sess)) w.w_conn false
    w.w_event

(** val broker_reply : n -> bytes -> bytes **)

let broker_reply mode = function
| [] -> []
| h :: t ->
  let typ = N.div h (Npos (XO (XO (XO (XO XH))))) in
  (match varint_read t with
   | VOk (_, body) ->
     if N.eqb typ (Npos (XI XH))
     then let q = N.modulo (N.div h (Npos (XO XH))) (Npos (XO (XO XH))) in
          (match read_u16 body with
           | Some p ->
             let (tl0, r) = p in
             (match dropN tl0 r with
              | [] -> []
              | a :: l ->
                (match l with
                 | [] -> []
                 | b :: _ ->
                   if N.eqb q (Npos XH)
                   then (Npos (XO (XO (XO (XO (XO (XO XH))))))) :: ((Npos (XO
                          XH)) :: (a :: (b :: [])))
                   else if N.eqb q (Npos (XO XH))
                        then (Npos (XO (XO (XO (XO (XI (XO
                               XH))))))) :: ((Npos (XO
                               XH)) :: (a :: (b :: [])))
                        else []))
           | None -> [])
     else if N.eqb typ (Npos (XO (XI XH)))
          then (match body with
                | [] -> []
                | a :: l ->
                  (match l with
                   | [] -> []
                   | b :: _ ->
                     (Npos (XO (XO (XO (XO (XI (XI XH))))))) :: ((Npos (XO
                       XH)) :: (a :: (b :: [])))))
          else if N.eqb typ (Npos (XO (XO (XO XH))))
               then (match body with
                     | [] -> []
                     | a :: l ->
                       (match l with
                        | [] -> []
                        | b :: _ ->
                          (Npos (XO (XO (XO (XO (XI (XO (XO
                            XH)))))))) :: ((Npos (XO (XO
                            XH))) :: (a :: (b :: (N0 :: (N0 :: [])))))))
               else if N.eqb typ (Npos (XO (XI (XO XH))))
                    then (match body with
                          | [] -> []
                          | a :: l ->
                            (match l with
                             | [] -> []
                             | b :: _ ->
                               (Npos (XO (XO (XO (XO (XI (XI (XO
                                 XH)))))))) :: ((Npos (XO (XO
                                 XH))) :: (a :: (b :: (N0 :: (N0 :: [])))))))
                    else if N.eqb typ (Npos (XO (XO (XI XH))))
                         then (Npos (XO (XO (XO (XO (XI (XO (XI
                                XH)))))))) :: (N0 :: [])
                         else if (&&) (N.eqb typ (Npos XH))
                                   (N.eqb mode (Npos (XO XH)))
                              then (match dropN (Npos (XI (XI XH))) body with
                                    | [] -> []
                                    | fl :: _ ->
                                      (Npos (XO (XO (XO (XO (XO
                                        XH)))))) :: ((Npos (XI
                                        XH)) :: ((if N.testbit fl (Npos XH)
                                                  then N0
                                                  else Npos XH) :: (N0 :: (N0 :: [])))))
                              else []
   | _ -> [])

(** val broker_split : n -> nat -> bytes -> bytes -> bytes * bytes **)

let rec broker_split mode fuel buf acc =
  match fuel with
  | O -> (acc, buf)
  | S f ->
    (match buf with
     | [] -> (acc, buf)
     | _ :: t ->
       (match varint_read t with
        | VOk (n0, body) ->
          if N.ltb (lenN body) n0
          then (acc, buf)
          else let total =
                 N.add (N.add (Npos XH) (N.sub (lenN t) (lenN body))) n0
               in
               broker_split mode f (dropN total buf)
                 (app acc (broker_reply mode (takeN total buf)))
        | VErrShort -> (acc, buf)
        | VErrBad -> (acc, [])))

(** val broker_feed : world -> bytes -> world **)

let broker_feed w accepted =
  if N.eqb w.w_broker N0
  then w
  else let buf = app w.w_txbuf accepted in
       let (replies, rest) = broker_split w.w_broker (S (length buf)) buf []
       in
       let w1 = upd_txbuf w rest in
       (match replies with
        | [] -> w1
        | _ :: _ ->
          let t = N.max w1.w_now w1.w_last_arrival in
          upd_inq w1 (app w1.w_inq ((t, replies) :: [])) t)

(** val next_ev : world -> (n * n) * (n * n) list **)

let next_ev w =
  match w.w_script with
  | [] ->
    ((N0, (Npos (XO (XO (XO (XO (XO (XO (XO (XO (XO (XI (XO (XI (XO (XO (XI
      (XI (XO (XI (XO (XI (XI (XO (XO (XI (XI (XI (XO (XI (XI
      XH))))))))))))))))))))))))))))))), [])
  | e :: t -> (e, t)

type wres =
| WOk of n
| WFail
| WCancel

(** val slow_write : world -> text -> bytes -> n -> n -> world * wres **)

let slow_write w1 pre bs amt n0 =
  let t = N.add w1.w_now amt in
  let w2 =
    upd_log (upd_now w1 t)
      (app
        (s2t (String ((Ascii (false, false, true, false, true, true, true,
          false)), (String ((Ascii (false, false, false, false, false, true,
          false, false)), EmptyString))))) (show_N t))
  in
  let acc = takeN n0 bs in
  ((broker_feed
     (upd_wire
       (upd_log w2
         (app pre
           (app (show_N n0)
             (app
               (s2t (String ((Ascii (false, false, false, false, false, true,
                 false, false)), EmptyString))) (hex acc)))))
       (app w2.w_wire acc)) acc), (WOk n0))

(** val io_write : bytes -> world -> world * wres **)

let io_write bs w =
  let len = lenN bs in
  if N.eqb len N0
  then ((upd_log w
          (s2t (String ((Ascii (true, true, true, false, true, true, true,
            false)), (String ((Ascii (false, false, false, false, false,
            true, false, false)), (String ((Ascii (false, false, false,
            false, true, true, false, false)), (String ((Ascii (false, false,
            false, false, false, true, false, false)), (String ((Ascii
            (false, false, false, false, true, true, false, false)), (String
            ((Ascii (false, false, false, false, false, true, false, false)),
            EmptyString)))))))))))))), (WOk N0))
  else let (p, rest) = next_ev w in
       let (k, amt) = p in
       let w1 = upd_script w rest in
       let pre =
         app
           (s2t (String ((Ascii (true, true, true, false, true, true, true,
             false)), (String ((Ascii (false, false, false, false, false,
             true, false, false)), EmptyString)))))
           (app (show_N len)
             (s2t (String ((Ascii (false, false, false, false, false, true,
               false, false)), EmptyString))))
       in
       if N.eqb k (Npos XH)
       then ((upd_log w1
               (app pre
                 (s2t (String ((Ascii (false, true, true, false, false, true,
                   true, false)), (String ((Ascii (true, false, false, false,
                   false, true, true, false)), (String ((Ascii (true, false,
                   false, true, false, true, true, false)), (String ((Ascii
                   (false, false, true, true, false, true, true, false)),
                   EmptyString))))))))))), WFail)
       else if N.eqb k (Npos (XO XH))
            then ((upd_log w1
                    (app pre
                      (s2t (String ((Ascii (false, true, false, true, true,
                        true, true, false)), (String ((Ascii (true, false,
                        true, false, false, true, true, false)), (String
                        ((Ascii (false, true, false, false, true, true, true,
                        false)), (String ((Ascii (true, true, true, true,
                        false, true, true, false)), EmptyString))))))))))),
                   (WOk N0))
            else if N.eqb k (Npos (XI XH))
                 then ((upd_log w1
                         (app pre
                           (s2t (String ((Ascii (false, false, true, false,
                             false, true, true, false)), (String ((Ascii
                             (false, true, false, false, true, true, true,
                             false)), (String ((Ascii (true, true, true,
                             true, false, true, true, false)), (String
                             ((Ascii (false, false, false, false, true, true,
                             true, false)), EmptyString))))))))))), WCancel)
                 else if N.eqb k (Npos (XO (XO XH)))
                      then slow_write w1 pre bs amt (Npos XH)
                      else if N.eqb k (Npos (XI (XO XH)))
                           then slow_write w1 pre bs amt len
                           else let n0 = N.min (N.max amt (Npos XH)) len in
                                let acc = takeN n0 bs in
                                ((broker_feed
                                   (upd_wire
                                     (upd_log w1
                                       (app pre
                                         (app (show_N n0)
                                           (app
                                             (s2t (String ((Ascii (false,
                                               false, false, false, false,
                                               true, false, false)),
                                               EmptyString))) (hex acc)))))
                                     (app w1.w_wire acc)) acc), (WOk n0))

type flres =
| FlOk
| FlFail
| FlCancel

(** val io_flush : world -> world * flres **)

let io_flush w =
  let (p, rest) = next_ev w in
  let (k, _) = p in
  let w1 = upd_script w rest in
  if N.eqb k (Npos XH)
  then ((upd_log w1
          (s2t (String ((Ascii (false, true, true, false, false, true, true,
            false)), (String ((Ascii (false, false, false, false, false,
            true, false, false)), (String ((Ascii (false, true, true, false,
            false, true, true, false)), (String ((Ascii (true, false, false,
            false, false, true, true, false)), (String ((Ascii (true, false,
            false, true, false, true, true, false)), (String ((Ascii (false,
            false, true, true, false, true, true, false)),
            EmptyString)))))))))))))), FlFail)
  else if N.eqb k (Npos (XI XH))
       then ((upd_log w1
               (s2t (String ((Ascii (false, true, true, false, false, true,
                 true, false)), (String ((Ascii (false, false, false, false,
                 false, true, false, false)), (String ((Ascii (false, false,
                 true, false, false, true, true, false)), (String ((Ascii
                 (false, true, false, false, true, true, true, false)),
                 (String ((Ascii (true, true, true, true, false, true, true,
                 false)), (String ((Ascii (false, false, false, false, true,
                 true, true, false)), EmptyString)))))))))))))), FlCancel)
       else ((upd_log w1
               (s2t (String ((Ascii (false, true, true, false, false, true,
                 true, false)), (String ((Ascii (false, false, false, false,
                 false, true, false, false)), (String ((Ascii (true, true,
                 true, true, false, true, true, false)), (String ((Ascii
                 (true, true, false, true, false, true, true, false)),
                 EmptyString)))))))))), FlOk)

(** val avail_split : n -> (n * bytes) list -> bytes * (n * bytes) list **)

let rec avail_split now q = match q with
| [] -> ([], [])
| p :: r ->
  let (t, b) = p in
  if N.leb t now
  then let (a, r') = avail_split now r in ((app b a), r')
  else ([], q)

(** val next_arrival : (n * bytes) list -> n option **)

let next_arrival = function
| [] -> None
| p :: _ -> let (t, _) = p in Some t

type rres =
| RData of bytes
| RFail
| RTimeout
| RCancel

(** val deliver : n -> n -> world -> world * rres **)

let deliver window amt w =
  let (av, later) = avail_split w.w_now w.w_inq in
  let n0 = N.min (N.max amt (Npos XH)) (N.min window (lenN av)) in
  let d = takeN n0 av in
  let rest = dropN n0 av in
  let q = match rest with
          | [] -> later
          | _ :: _ -> (w.w_now, rest) :: later in
  ((upd_log (upd_inq w q w.w_last_arrival)
     (app
       (s2t (String ((Ascii (false, true, false, false, true, true, true,
         false)), (String ((Ascii (false, false, false, false, false, true,
         false, false)), EmptyString)))))
       (app (show_N window)
         (app
           (s2t (String ((Ascii (false, false, false, false, false, true,
             false, false)), EmptyString)))
           (app (show_N n0)
             (app
               (s2t (String ((Ascii (false, false, false, false, false, true,
                 false, false)), EmptyString))) (hex d))))))), (RData d))

(** val io_read : n -> n option -> world -> world * rres **)

let io_read window deadline w =
  let pre =
    app
      (s2t (String ((Ascii (false, true, false, false, true, true, true,
        false)), (String ((Ascii (false, false, false, false, false, true,
        false, false)), EmptyString)))))
      (app (show_N window)
        (s2t (String ((Ascii (false, false, false, false, false, true, false,
          false)), EmptyString))))
  in
  if N.eqb window N0
  then ((upd_log w
          (app pre
            (s2t (String ((Ascii (false, false, false, false, true, true,
              false, false)), (String ((Ascii (false, false, false, false,
              false, true, false, false)), EmptyString))))))), (RData []))
  else let (p, rest) = next_ev w in
       let (k, amt) = p in
       if N.eqb k (Npos XH)
       then ((upd_log (upd_script w rest)
               (app pre
                 (s2t (String ((Ascii (false, true, true, false, false, true,
                   true, false)), (String ((Ascii (true, false, false, false,
                   false, true, true, false)), (String ((Ascii (true, false,
                   false, true, false, true, true, false)), (String ((Ascii
                   (false, false, true, true, false, true, true, false)),
                   EmptyString))))))))))), RFail)
       else if N.eqb k (Npos (XO XH))
            then ((upd_log (upd_script w rest)
                    (app pre
                      (s2t (String ((Ascii (true, false, true, false, false,
                        true, true, false)), (String ((Ascii (true, true,
                        true, true, false, true, true, false)), (String
                        ((Ascii (false, true, true, false, false, true, true,
                        false)), EmptyString))))))))), (RData []))
            else if N.eqb k (Npos (XI XH))
                 then ((upd_log (upd_script w rest)
                         (app pre
                           (s2t (String ((Ascii (false, false, true, false,
                             false, true, true, false)), (String ((Ascii
                             (false, true, false, false, true, true, true,
                             false)), (String ((Ascii (true, true, true,
                             true, false, true, true, false)), (String
                             ((Ascii (false, false, false, false, true, true,
                             true, false)), EmptyString))))))))))), RCancel)
                 else let (av, _) = avail_split w.w_now w.w_inq in
                      (match av with
                       | [] ->
                         let t1 = next_arrival w.w_inq in
                         let target =
                           match deadline with
                           | Some d ->
                             if N.leb d w.w_now
                             then Some (N.add w.w_now sTUTTER_MS)
                             else (match t1 with
                                   | Some t -> Some (N.min t d)
                                   | None -> Some d)
                           | None -> t1
                         in
                         let target0 =
                           if N.leb mAX_WAITS w.w_waits then None else target
                         in
                         (match target0 with
                          | Some t ->
                            let w1 =
                              upd_log
                                (upd_waits (upd_now w t)
                                  (N.add w.w_waits (Npos XH)))
                                (app
                                  (s2t (String ((Ascii (false, false, true,
                                    false, true, true, true, false)), (String
                                    ((Ascii (false, false, false, false,
                                    false, true, false, false)),
                                    EmptyString))))) (show_N t))
                            in
                            let (av1, _) = avail_split t w1.w_inq in
                            (match av1 with
                             | [] ->
                               ((upd_log w1
                                  (app pre
                                    (s2t (String ((Ascii (false, false, true,
                                      false, false, true, true, false)),
                                      (String ((Ascii (false, true, false,
                                      false, true, true, true, false)),
                                      (String ((Ascii (true, true, true,
                                      true, false, true, true, false)),
                                      (String ((Ascii (false, false, false,
                                      false, true, true, true, false)),
                                      EmptyString))))))))))), RTimeout)
                             | _ :: _ ->
                               deliver window amt (upd_script w1 rest))
                          | None ->
                            ((upd_log w
                               (app pre
                                 (s2t (String ((Ascii (false, false, true,
                                   false, false, true, true, false)), (String
                                   ((Ascii (false, true, false, false, true,
                                   true, true, false)), (String ((Ascii
                                   (true, true, true, true, false, true,
                                   true, false)), (String ((Ascii (false,
                                   false, false, false, true, true, true,
                                   false)), EmptyString))))))))))), RCancel))
                       | _ :: _ -> deliver window amt (upd_script w rest))

type 'a outcome =
| ODone of 'a
| OFail of err
| OCancel
| OFuel
| OPanic

(** val mark_partial : world -> world -> n -> world **)

let mark_partial before after len =
  let k = N.sub (lenN after.w_wire) (lenN before.w_wire) in
  if (&&) (N.ltb N0 k) (N.ltb k len) then upd_poison after true else after

(** val write_all : nat -> bytes -> world -> world * unit outcome **)

let rec write_all fuel bs w =
  match fuel with
  | O -> (w, OFuel)
  | S f ->
    (match bs with
     | [] -> (w, (ODone ()))
     | _ :: _ ->
       let (w1, r) = io_write bs w in
       (match r with
        | WOk n0 ->
          if N.eqb n0 N0
          then (w1, (OFail EWriteZero))
          else write_all f (dropN n0 bs) w1
        | WFail -> (w1, (OFail ETransport))
        | WCancel -> (w1, OCancel)))

(** val flush_current : fpkt -> n -> world -> world * bool outcome **)

let flush_current p now w =
  if negb w.w_live
  then (w, (OFail EDisconnected))
  else let (w1, r) = io_flush w in
       (match r with
        | FlOk ->
          let (s, found) = complete_flush w1.w_sess p now in
          if found
          then ((upd_sess w1 s), (ODone true))
          else ((upd_sess w1 s), OPanic)
        | FlFail -> ((w_hd w1), (OFail ETransport))
        | FlCancel -> (w1, OCancel))

(** val perform_outbound_step :
    ostep -> n -> world -> world * bool outcome **)

let perform_outbound_step st now w =
  match prepare_step w.w_sess st with
  | PWrite (p, bs, written, len) ->
    if negb w.w_live
    then (w, (OFail EDisconnected))
    else let (w1, r) = io_write (dropN written bs) w in
         (match r with
          | WOk n0 ->
            if N.eqb n0 N0
            then (w1, (OFail EWriteZero))
            else let written' = N.add written n0 in
                 let (s, found) = set_written w1.w_sess p written' len in
                 let w2 = upd_sess w1 s in
                 if negb found
                 then (w2, OPanic)
                 else if N.ltb written' len
                      then (w2, (ODone true))
                      else flush_current p now w2
          | WFail -> ((w_hd w1), (OFail ETransport))
          | WCancel -> (w1, OCancel))
  | PFlush p -> flush_current p now w
  | PDone -> (w, (ODone false))
  | PErr e -> (w, (OFail e))

(** val flush_outbound : nat -> world -> world * unit outcome **)

let rec flush_outbound fuel w =
  match fuel with
  | O -> (w, OFuel)
  | S f ->
    let now = w.w_now in
    let (s1, e) = maybe_queue_pingreq w.w_sess now in
    let w1 = upd_sess w s1 in
    (match e with
     | Some e0 -> (w1, (OFail e0))
     | None ->
       (match next_step w1.w_sess.s_ob with
        | Some st ->
          let (w2, r) = perform_outbound_step st now w1 in
          (match r with
           | ODone _ -> flush_outbound f w2
           | OFail e0 -> (w2, (OFail e0))
           | OCancel -> (w2, OCancel)
           | OFuel -> (w2, OFuel)
           | OPanic -> (w2, OPanic))
        | None -> (w1, (ODone ()))))

(** val process_received : world -> world * rpacket option outcome **)

let process_received w =
  let s = w.w_sess in
  if negb (packet_available s.s_reader)
  then (w, (ODone None))
  else (match take_packet s.s_reader with
        | Some p0 ->
          let (p1, o) = p0 in
          let (r', _) = p1 in
          (match o with
           | Some p ->
             let (s2, hr) = handle_packet (set_reader s r') p in
             let w2 =
               upd_drained
                 (upd_envok (upd_sess w s2)
                   ((&&) w.w_envok (ack_type_ok (set_reader s r') p)))
                 ((&&) w.w_drained
                   (match next_step s.s_ob with
                    | Some _ -> false
                    | None -> true))
             in
             (match hr with
              | HOk deliver0 ->
                if deliver0
                then (w2, (ODone (Some p)))
                else (w2, (ODone None))
              | HErr e ->
                (match e with
                 | EDisconnected -> ((w_hd w2), (OFail EDisconnected))
                 | EInvalidPacket -> ((w_hd w2), (OFail EInvalidPacket))
                 | EPacketTooLarge -> ((w_hd w2), (OFail EPacketTooLarge))
                 | _ -> (w2, (OFail e))))
           | None ->
             ((w_hd (upd_sess w (set_reader s r'))), (OFail EInvalidPacket)))
        | None -> (w, (ODone None)))

type progress =
| PrIdle
| PrAdvanced
| PrInbound of rpacket

(** val service : n -> world -> world * bool outcome **)

let service now w =
  if ping_timed_out w.w_sess now
  then ((w_hd w), (OFail EDisconnected))
  else let (s1, e) = maybe_queue_pingreq w.w_sess now in
       let w1 = upd_sess w s1 in
       (match e with
        | Some e0 -> (w1, (OFail e0))
        | None ->
          (match next_step w1.w_sess.s_ob with
           | Some st -> perform_outbound_step st now w1
           | None -> (w1, (ODone false))))

(** val drive_loop : nat -> bool -> world -> world * progress outcome **)

let rec drive_loop fuel advanced w =
  match fuel with
  | O -> (w, OFuel)
  | S f ->
    let (w1, r1) = process_received w in
    (match r1 with
     | ODone a ->
       (match a with
        | Some p -> (w1, (ODone (PrInbound p)))
        | None ->
          if packet_available w.w_sess.s_reader
          then drive_loop f true w1
          else let (w2, r2) = service w1.w_now w1 in
               (match r2 with
                | ODone adv ->
                  let advanced' = (||) advanced adv in
                  (match next_step w2.w_sess.s_ob with
                   | Some _ -> drive_loop f advanced' w2
                   | None ->
                     (w2, (ODone (if advanced' then PrAdvanced else PrIdle))))
                | OFail e -> (w2, (OFail e))
                | OCancel -> (w2, OCancel)
                | OFuel -> (w2, OFuel)
                | OPanic -> (w2, OPanic)))
     | OFail e -> (w1, (OFail e))
     | OCancel -> (w1, OCancel)
     | OFuel -> (w1, OFuel)
     | OPanic -> (w1, OPanic))

(** val drive_packet : nat -> world -> world * progress outcome **)

let drive_packet fuel w =
  if negb w.w_live
  then (w, (OFail EDisconnected))
  else drive_loop fuel false w

type fillres =
| FillOk
| FillErr of err
| FillTimeout
| FillCancel
| FillFuel

(** val timer_fired : bool -> n option -> world -> bool **)

let timer_fired y deadline w =
  (&&) y
    (match deadline with
     | Some d ->
       (&&) (N.leb d w.w_now)
         (let k = fst (fst (next_ev w)) in
          (&&)
            ((&&) (negb (N.eqb k (Npos XH))) (negb (N.eqb k (Npos (XO XH)))))
            ((||) (N.eqb k (Npos (XI XH)))
              (match fst (avail_split w.w_now w.w_inq) with
               | [] -> true
               | _ :: _ -> false)))
     | None -> false)

(** val fill_go : nat -> bool -> n option -> world -> world * fillres **)

let rec fill_go fuel y deadline w =
  match fuel with
  | O -> (w, FillFuel)
  | S f ->
    let s = w.w_sess in
    if packet_available s.s_reader
    then (w, FillOk)
    else let (r', o) = receive_buffer s.s_reader in
         (match o with
          | Some win ->
            let w0 = upd_sess w (set_reader s r') in
            if N.eqb win N0
            then (w0, FillOk)
            else if timer_fired y deadline w0
                 then ((upd_log w0
                         (app
                           (s2t (String ((Ascii (false, true, false, false,
                             true, true, true, false)), (String ((Ascii
                             (false, false, false, false, false, true, false,
                             false)), EmptyString)))))
                           (app (show_N win)
                             (s2t (String ((Ascii (false, false, false,
                               false, false, true, false, false)), (String
                               ((Ascii (false, false, true, false, false,
                               true, true, false)), (String ((Ascii (false,
                               true, false, false, true, true, true, false)),
                               (String ((Ascii (true, true, true, true,
                               false, true, true, false)), (String ((Ascii
                               (false, false, false, false, true, true, true,
                               false)), EmptyString)))))))))))))),
                        FillTimeout)
                 else let (w1, r) = io_read win deadline w0 in
                      (match r with
                       | RData d ->
                         (match d with
                          | [] -> (w1, (FillErr EDisconnected))
                          | _ :: _ ->
                            fill_go f
                              ((||) y (negb (N.eqb w1.w_waits w0.w_waits)))
                              deadline
                              (upd_sess w1
                                (set_reader w1.w_sess
                                  (commit w1.w_sess.s_reader d))))
                       | RFail -> (w1, (FillErr ETransport))
                       | RTimeout -> (w1, FillTimeout)
                       | RCancel -> (w1, FillCancel))
          | None -> ((upd_sess w (set_reader s r')), (FillErr EInvalidPacket)))

(** val fill_packet_reader : nat -> n option -> world -> world * fillres **)

let fill_packet_reader fuel deadline w =
  fill_go fuel false deadline w

(** val wait_for_progress : nat -> world -> world * progress outcome **)

let rec wait_for_progress fuel w =
  match fuel with
  | O -> (w, OFuel)
  | S f ->
    let (w1, r) = drive_packet fuel w in
    (match r with
     | ODone a ->
       (match a with
        | PrIdle ->
          let deadline = next_deadline w1.w_sess.s_rt in
          if negb w1.w_live
          then (w1, (OFail EDisconnected))
          else let (w2, fr) = fill_packet_reader fuel deadline w1 in
               (match fr with
                | FillErr e -> ((w_hd w2), (OFail e))
                | FillCancel -> (w2, OCancel)
                | FillFuel -> (w2, OFuel)
                | _ -> wait_for_progress f w2)
        | _ -> (w1, r))
     | _ -> (w1, r))

(** val op_poll : nat -> world -> world * rpacket option outcome **)

let op_poll fuel w =
  let (w1, r) = wait_for_progress fuel w in
  (match r with
   | ODone a ->
     (match a with
      | PrIdle -> (w1, OPanic)
      | PrAdvanced -> (w1, (ODone None))
      | PrInbound p -> (w1, (ODone (Some p))))
   | OFail e -> (w1, (OFail e))
   | OCancel -> (w1, OCancel)
   | OFuel -> (w1, OFuel)
   | OPanic -> (w1, OPanic))

(** val op_recv : nat -> world -> world * rpacket option outcome **)

let rec op_recv fuel w =
  match fuel with
  | O -> (w, OFuel)
  | S f ->
    let (w1, r) = wait_for_progress fuel w in
    (match r with
     | ODone a ->
       (match a with
        | PrIdle -> (w1, OPanic)
        | PrAdvanced -> op_recv f w1
        | PrInbound p -> (w1, (ODone (Some p))))
     | OFail e -> (w1, (OFail e))
     | OCancel -> (w1, OCancel)
     | OFuel -> (w1, OFuel)
     | OPanic -> (w1, OPanic))

(** val op_drive : nat -> world -> world * rpacket option outcome **)

let op_drive fuel w =
  let (w1, r) = drive_packet fuel w in
  (match r with
   | ODone a ->
     (match a with
      | PrInbound p -> (w1, (ODone (Some p)))
      | _ -> (w1, (ODone None)))
   | OFail e -> (w1, (OFail e))
   | OCancel -> (w1, OCancel)
   | OFuel -> (w1, OFuel)
   | OPanic -> (w1, OPanic))

(** val bindu :
    (world * unit outcome) -> (world -> world * 'a1 outcome) -> world * 'a1
    outcome **)

let bindu r k =
  let (w, o) = r in
  (match o with
   | ODone _ -> k w
   | OFail e -> (w, (OFail e))
   | OCancel -> (w, OCancel)
   | OFuel -> (w, OFuel)
   | OPanic -> (w, OPanic))

(** val direct_send : nat -> bytes -> world -> world * unit outcome **)

let direct_send fuel bs w =
  bindu (write_all fuel bs w) (fun w1 ->
    let (w2, r) = io_flush w1 in
    (match r with
     | FlOk -> (w2, (ODone ()))
     | FlFail -> (w2, (OFail ETransport))
     | FlCancel -> (w2, OCancel)))

(** val finish_mid : nat -> world -> midres -> world * op option outcome **)

let finish_mid fuel w = function
| MErr e -> (w, (OFail e))
| MRetained o ->
  bindu (flush_outbound fuel w) (fun w1 -> (w1, (ODone (Some o))))
| MDirect bs ->
  let (w1, r) = write_all fuel bs w in
  (match r with
   | ODone _ ->
     let (w2, fr) = io_flush w1 in
     (match fr with
      | FlOk ->
        ((upd_sess w2
           (set_rt w2.w_sess (note_outbound_activity w2.w_sess.s_rt w2.w_now))),
          (ODone None))
      | FlFail -> ((w_hd w2), (OFail ETransport))
      | FlCancel -> (w2, OCancel))
   | OFail e ->
     (match e with
      | EWriteZero -> ((mark_partial w w1 (lenN bs)), (OFail EWriteZero))
      | _ -> ((w_hd w1), (OFail e)))
   | OCancel -> ((mark_partial w w1 (lenN bs)), OCancel)
   | OFuel -> ((mark_partial w w1 (lenN bs)), OFuel)
   | OPanic -> ((mark_partial w w1 (lenN bs)), OPanic))

(** val op_publish : nat -> pub_req -> world -> world * op option outcome **)

let op_publish fuel r w =
  if negb w.w_live
  then (w, (OFail EDisconnected))
  else bindu (flush_outbound fuel w) (fun w1 ->
         let (s2, m) = publish_middle w1.w_sess w1.w_live r in
         finish_mid fuel (upd_sess w1 s2) m)

(** val op_subscribe :
    nat -> (bytes * sub_opts) list -> prop list -> world -> world * op option
    outcome **)

let op_subscribe fuel topics ps w =
  if negb w.w_live
  then (w, (OFail EDisconnected))
  else (match topics with
        | [] -> (w, (OFail EInvalidRequest))
        | _ :: _ ->
          if negb (props_valid_for (PSlice ps) CtxSubscribe)
          then (w, (OFail EInvalidRequest))
          else bindu (flush_outbound fuel w) (fun w1 ->
                 let (s2, m) = subscribe_middle w1.w_sess topics ps in
                 finish_mid fuel (upd_sess w1 s2) m))

(** val op_unsubscribe :
    nat -> bytes list -> prop list -> world -> world * op option outcome **)

let op_unsubscribe fuel topics ps w =
  if negb w.w_live
  then (w, (OFail EDisconnected))
  else (match topics with
        | [] -> (w, (OFail EInvalidRequest))
        | _ :: _ ->
          if negb (props_valid_for (PSlice ps) CtxUnsubscribe)
          then (w, (OFail EInvalidRequest))
          else bindu (flush_outbound fuel w) (fun w1 ->
                 let (s2, m) = unsubscribe_middle w1.w_sess topics ps in
                 finish_mid fuel (upd_sess w1 s2) m))

(** val op_disconnect :
    nat -> disconnect_req -> world -> world * unit outcome **)

let op_disconnect fuel d w =
  if negb w.w_live
  then (w, (ODone ()))
  else (match disconnect_prepare w.w_sess d with
        | DPErr e -> (w, (OFail e))
        | DPOk bs ->
          let w0 = if has_partial w.w_sess.s_ob then upd_poison w true else w
          in
          let (w1, r) = write_all fuel bs w0 in
          (match r with
           | ODone _ ->
             let (w2, fr) = io_flush w1 in
             (match fr with
              | FlOk -> ((w_hd w2), (ODone ()))
              | FlFail -> ((w_hd w2), (OFail ETransport))
              | FlCancel -> (w2, OCancel))
           | OFail e -> ((w_hd w1), (OFail e))
           | x -> ((mark_partial w0 w1 (lenN bs)), x)))

(** val sess_hd : world -> world **)

let sess_hd w =
  upd_sess w (sess_handle_disconnect w.w_sess)

(** val op_connect : nat -> world -> world * n outcome **)

let op_connect fuel w =
  let s0 = w.w_sess in
  let s1 =
    set_ob
      (set_rt (set_reader s0 (reader_reset s0.s_reader))
        (reset_transport s0.s_rt)) (arm_replay s0.s_ob)
  in
  let o1 = compact s1.s_ob in
  let s2 = set_ob s1 o1 in
  let w2 = upd_sess w s2 in
  (match enc_connect (N.sub (ob_cap o1) o1.ob_used) (connect_request s2) with
   | SOk (_, bs) ->
     bindu (direct_send fuel bs w2) (fun w3 ->
       let w4 =
         upd_sess w3
           (set_rt w3.w_sess (rt_with_timers w3.w_sess.s_rt None None))
       in
       let (w5, fr) = fill_packet_reader fuel None w4 in
       (match fr with
        | FillOk ->
          let s5 = w5.w_sess in
          (match take_packet s5.s_reader with
           | Some p0 ->
             let (p1, p) = p0 in
             let (r', _) = p1 in
             let (s6, cr) = connack_process (set_reader s5 r') p w5.w_now in
             (match cr with
              | CAOk resumed ->
                let ok =
                  if resumed
                  then N.leb (unresolved_publishes s6.s_ob)
                         s6.s_rt.rt_maxquota
                  else true
                in
                ((upd_envok (upd_sess w5 s6) ((&&) w5.w_envok ok)), (ODone
                (if resumed then Npos XH else N0)))
              | CAErr (e, disconnect) ->
                if disconnect
                then ((sess_hd (upd_sess w5 s6)), (OFail e))
                else ((upd_sess w5 s6), (OFail e)))
           | None -> ((sess_hd w5), (OFail EInvalidPacket)))
        | FillErr e -> ((sess_hd w5), (OFail e))
        | FillTimeout -> (w5, OPanic)
        | FillCancel -> (w5, OCancel)
        | FillFuel -> (w5, OFuel)))
   | SErr e -> (w2, (OFail (err_of_serr e))))

type action =
| AConnect of (n * bytes) list
| APublish of pub_req
| ASubscribe of (bytes * sub_opts) list * prop list
| AUnsubscribe of bytes list * prop list
| ADisconnect of disconnect_req
| ADrive
| APoll
| ARecv
| AFeed of n * bytes
| AAdvance of n
| ADropConn
| AHandleDisconnect
| ASetBroker of n
| ASetPid of n
| AHeal

type case = { c_cfg : config; c_prog : action list; c_script : (n * n) list }

(** val fUEL : nat **)

let fUEL =
  mul
    (mul (S (S (S (S (S (S (S (S (S (S (S (S (S (S (S (S (S (S (S (S (S (S (S
      (S (S (S (S (S (S (S (S (S (S (S (S (S (S (S (S (S (S (S (S (S (S (S (S
      (S (S (S (S (S (S (S (S (S (S (S (S (S (S (S (S (S (S (S (S (S (S (S (S
      (S (S (S (S (S (S (S (S (S (S (S (S (S (S (S (S (S (S (S (S (S (S (S (S
      (S (S (S (S (S
      O))))))))))))))))))))))))))))))))))))))))))))))))))))))))))))))))))))))))))))))))))))))))))))))))))))
      (S (S (S (S (S (S (S (S (S (S (S (S (S (S (S (S (S (S (S (S (S (S (S (S
      (S (S (S (S (S (S (S (S (S (S (S (S (S (S (S (S (S (S (S (S (S (S (S (S
      (S (S (S (S (S (S (S (S (S (S (S (S (S (S (S (S (S (S (S (S (S (S (S (S
      (S (S (S (S (S (S (S (S (S (S (S (S (S (S (S (S (S (S (S (S (S (S (S (S
      (S (S (S (S
      O)))))))))))))))))))))))))))))))))))))))))))))))))))))))))))))))))))))))))))))))))))))))))))))))))))))
    (S (S (S O)))

(** val show_err : err -> text **)

let show_err = function
| ENotReady ->
  s2t (String ((Ascii (false, true, true, true, false, false, true, false)),
    (String ((Ascii (true, true, true, true, false, true, true, false)),
    (String ((Ascii (false, false, true, false, true, true, true, false)),
    (String ((Ascii (false, true, false, false, true, false, true, false)),
    (String ((Ascii (true, false, true, false, false, true, true, false)),
    (String ((Ascii (true, false, false, false, false, true, true, false)),
    (String ((Ascii (false, false, true, false, false, true, true, false)),
    (String ((Ascii (true, false, false, true, true, true, true, false)),
    EmptyString))))))))))))))))
| EDisconnected ->
  s2t (String ((Ascii (false, false, true, false, false, false, true,
    false)), (String ((Ascii (true, false, false, true, false, true, true,
    false)), (String ((Ascii (true, true, false, false, true, true, true,
    false)), (String ((Ascii (true, true, false, false, false, true, true,
    false)), (String ((Ascii (true, true, true, true, false, true, true,
    false)), (String ((Ascii (false, true, true, true, false, true, true,
    false)), (String ((Ascii (false, true, true, true, false, true, true,
    false)), (String ((Ascii (true, false, true, false, false, true, true,
    false)), (String ((Ascii (true, true, false, false, false, true, true,
    false)), (String ((Ascii (false, false, true, false, true, true, true,
    false)), (String ((Ascii (true, false, true, false, false, true, true,
    false)), (String ((Ascii (false, false, true, false, false, true, true,
    false)), EmptyString))))))))))))))))))))))))
| EInvalidRequest ->
  s2t (String ((Ascii (true, false, false, true, false, false, true, false)),
    (String ((Ascii (false, true, true, true, false, true, true, false)),
    (String ((Ascii (false, true, true, false, true, true, true, false)),
    (String ((Ascii (true, false, false, false, false, true, true, false)),
    (String ((Ascii (false, false, true, true, false, true, true, false)),
    (String ((Ascii (true, false, false, true, false, true, true, false)),
    (String ((Ascii (false, false, true, false, false, true, true, false)),
    (String ((Ascii (false, true, false, false, true, false, true, false)),
    (String ((Ascii (true, false, true, false, false, true, true, false)),
    (String ((Ascii (true, false, false, false, true, true, true, false)),
    (String ((Ascii (true, false, true, false, true, true, true, false)),
    (String ((Ascii (true, false, true, false, false, true, true, false)),
    (String ((Ascii (true, true, false, false, true, true, true, false)),
    (String ((Ascii (false, false, true, false, true, true, true, false)),
    EmptyString))))))))))))))))))))))))))))
| ERejected rc ->
  app
    (s2t (String ((Ascii (false, true, false, false, true, false, true,
      false)), (String ((Ascii (true, false, true, false, false, true, true,
      false)), (String ((Ascii (false, true, false, true, false, true, true,
      false)), (String ((Ascii (true, false, true, false, false, true, true,
      false)), (String ((Ascii (true, true, false, false, false, true, true,
      false)), (String ((Ascii (false, false, true, false, true, true, true,
      false)), (String ((Ascii (true, false, true, false, false, true, true,
      false)), (String ((Ascii (false, false, true, false, false, true, true,
      false)), (String ((Ascii (false, false, false, true, false, true,
      false, false)), EmptyString)))))))))))))))))))
    (app (show_N rc)
      (s2t (String ((Ascii (true, false, false, true, false, true, false,
        false)), EmptyString))))
| EInvalidPacket ->
  s2t (String ((Ascii (true, false, false, true, false, false, true, false)),
    (String ((Ascii (false, true, true, true, false, true, true, false)),
    (String ((Ascii (false, true, true, false, true, true, true, false)),
    (String ((Ascii (true, false, false, false, false, true, true, false)),
    (String ((Ascii (false, false, true, true, false, true, true, false)),
    (String ((Ascii (true, false, false, true, false, true, true, false)),
    (String ((Ascii (false, false, true, false, false, true, true, false)),
    (String ((Ascii (false, false, false, false, true, false, true, false)),
    (String ((Ascii (true, false, false, false, false, true, true, false)),
    (String ((Ascii (true, true, false, false, false, true, true, false)),
    (String ((Ascii (true, true, false, true, false, true, true, false)),
    (String ((Ascii (true, false, true, false, false, true, true, false)),
    (String ((Ascii (false, false, true, false, true, true, true, false)),
    EmptyString))))))))))))))))))))))))))
| EBufferTooSmall ->
  s2t (String ((Ascii (false, true, false, false, false, false, true,
    false)), (String ((Ascii (true, false, true, false, true, true, true,
    false)), (String ((Ascii (false, true, true, false, false, true, true,
    false)), (String ((Ascii (false, true, true, false, false, true, true,
    false)), (String ((Ascii (true, false, true, false, false, true, true,
    false)), (String ((Ascii (false, true, false, false, true, true, true,
    false)), (String ((Ascii (false, false, true, false, true, false, true,
    false)), (String ((Ascii (true, true, true, true, false, true, true,
    false)), (String ((Ascii (true, true, true, true, false, true, true,
    false)), (String ((Ascii (true, true, false, false, true, false, true,
    false)), (String ((Ascii (true, false, true, true, false, true, true,
    false)), (String ((Ascii (true, false, false, false, false, true, true,
    false)), (String ((Ascii (false, false, true, true, false, true, true,
    false)), (String ((Ascii (false, false, true, true, false, true, true,
    false)), EmptyString))))))))))))))))))))))))))))
| EPacketTooLarge ->
  s2t (String ((Ascii (false, false, false, false, true, false, true,
    false)), (String ((Ascii (true, false, false, false, false, true, true,
    false)), (String ((Ascii (true, true, false, false, false, true, true,
    false)), (String ((Ascii (true, true, false, true, false, true, true,
    false)), (String ((Ascii (true, false, true, false, false, true, true,
    false)), (String ((Ascii (false, false, true, false, true, true, true,
    false)), (String ((Ascii (false, false, true, false, true, false, true,
    false)), (String ((Ascii (true, true, true, true, false, true, true,
    false)), (String ((Ascii (true, true, true, true, false, true, true,
    false)), (String ((Ascii (false, false, true, true, false, false, true,
    false)), (String ((Ascii (true, false, false, false, false, true, true,
    false)), (String ((Ascii (false, true, false, false, true, true, true,
    false)), (String ((Ascii (true, true, true, false, false, true, true,
    false)), (String ((Ascii (true, false, true, false, false, true, true,
    false)), EmptyString))))))))))))))))))))))))))))
| EInflightExhausted ->
  s2t (String ((Ascii (true, false, false, true, false, false, true, false)),
    (String ((Ascii (false, true, true, true, false, true, true, false)),
    (String ((Ascii (false, true, true, false, false, true, true, false)),
    (String ((Ascii (false, false, true, true, false, true, true, false)),
    (String ((Ascii (true, false, false, true, false, true, true, false)),
    (String ((Ascii (true, true, true, false, false, true, true, false)),
    (String ((Ascii (false, false, false, true, false, true, true, false)),
    (String ((Ascii (false, false, true, false, true, true, true, false)),
    (String ((Ascii (true, false, true, false, false, false, true, false)),
    (String ((Ascii (false, false, false, true, true, true, true, false)),
    (String ((Ascii (false, false, false, true, false, true, true, false)),
    (String ((Ascii (true, false, false, false, false, true, true, false)),
    (String ((Ascii (true, false, true, false, true, true, true, false)),
    (String ((Ascii (true, true, false, false, true, true, true, false)),
    (String ((Ascii (false, false, true, false, true, true, true, false)),
    (String ((Ascii (true, false, true, false, false, true, true, false)),
    (String ((Ascii (false, false, true, false, false, true, true, false)),
    EmptyString))))))))))))))))))))))))))))))))))
| ETransport ->
  s2t (String ((Ascii (false, false, true, false, true, false, true, false)),
    (String ((Ascii (false, true, false, false, true, true, true, false)),
    (String ((Ascii (true, false, false, false, false, true, true, false)),
    (String ((Ascii (false, true, true, true, false, true, true, false)),
    (String ((Ascii (true, true, false, false, true, true, true, false)),
    (String ((Ascii (false, false, false, false, true, true, true, false)),
    (String ((Ascii (true, true, true, true, false, true, true, false)),
    (String ((Ascii (false, true, false, false, true, true, true, false)),
    (String ((Ascii (false, false, true, false, true, true, true, false)),
    EmptyString))))))))))))))))))
| EWriteZero ->
  s2t (String ((Ascii (true, true, true, false, true, false, true, false)),
    (String ((Ascii (false, true, false, false, true, true, true, false)),
    (String ((Ascii (true, false, false, true, false, true, true, false)),
    (String ((Ascii (false, false, true, false, true, true, true, false)),
    (String ((Ascii (true, false, true, false, false, true, true, false)),
    (String ((Ascii (false, true, false, true, true, false, true, false)),
    (String ((Ascii (true, false, true, false, false, true, true, false)),
    (String ((Ascii (false, true, false, false, true, true, true, false)),
    (String ((Ascii (true, true, true, true, false, true, true, false)),
    EmptyString))))))))))))))))))
| EPayload ->
  s2t (String ((Ascii (false, false, false, false, true, false, true,
    false)), (String ((Ascii (true, false, false, false, false, true, true,
    false)), (String ((Ascii (true, false, false, true, true, true, true,
    false)), (String ((Ascii (false, false, true, true, false, true, true,
    false)), (String ((Ascii (true, true, true, true, false, true, true,
    false)), (String ((Ascii (true, false, false, false, false, true, true,
    false)), (String ((Ascii (false, false, true, false, false, true, true,
    false)), EmptyString))))))))))))))

(** val show_sstate : sstate -> text **)

let show_sstate = function
| SWrite w ->
  app
    (s2t (String ((Ascii (true, true, true, false, true, false, true,
      false)), EmptyString))) (show_N w)
| SFlush ->
  s2t (String ((Ascii (false, true, true, false, false, false, true, false)),
    EmptyString))
| SSent ->
  s2t (String ((Ascii (true, true, false, false, true, false, true, false)),
    EmptyString))

(** val show_caction : caction -> text **)

let show_caction = function
| CPubAck (p, r) ->
  app
    (s2t (String ((Ascii (true, false, false, false, false, false, true,
      false)), EmptyString)))
    (app (show_N p)
      (app
        (s2t (String ((Ascii (false, true, false, true, true, true, false,
          false)), EmptyString)))
        (app (show_N r)
          (s2t (String ((Ascii (false, true, false, true, true, true, false,
            false)), EmptyString))))))
| CPubRec (p, r) ->
  app
    (s2t (String ((Ascii (false, true, false, false, true, false, true,
      false)), EmptyString)))
    (app (show_N p)
      (app
        (s2t (String ((Ascii (false, true, false, true, true, true, false,
          false)), EmptyString)))
        (app (show_N r)
          (s2t (String ((Ascii (false, true, false, true, true, true, false,
            false)), EmptyString))))))
| CPubComp (p, r) ->
  app
    (s2t (String ((Ascii (true, true, false, false, false, false, true,
      false)), EmptyString)))
    (app (show_N p)
      (app
        (s2t (String ((Ascii (false, true, false, true, true, true, false,
          false)), EmptyString)))
        (app (show_N r)
          (s2t (String ((Ascii (false, true, false, true, true, true, false,
            false)), EmptyString))))))
| CPing ->
  s2t (String ((Ascii (false, false, false, false, true, false, true,
    false)), (String ((Ascii (false, true, false, true, true, true, false,
    false)), EmptyString))))

(** val show_rentry : outbound -> rentry -> text **)

let show_rentry o e =
  app (show_N e.re_pid)
    (app
      (s2t (String ((Ascii (false, true, false, true, true, true, false,
        false)), EmptyString)))
      (app (show_N e.re_off)
        (app
          (s2t (String ((Ascii (false, true, false, true, true, true, false,
            false)), EmptyString)))
          (app (show_N e.re_len)
            (app
              (s2t (String ((Ascii (false, true, false, true, true, true,
                false, false)), EmptyString)))
              (app (show_sstate e.re_st)
                (app
                  (s2t (String ((Ascii (false, true, false, true, true, true,
                    false, false)), EmptyString)))
                  (if N.leb (N.add e.re_off e.re_len) (ob_cap o)
                   then hex (retained_packet o e.re_off e.re_len)
                   else s2t (String ((Ascii (true, false, false, false,
                          false, true, false, false)), EmptyString))))))))))

(** val show_snapshot : session -> text **)

let show_snapshot s =
  let o = s.s_ob in
  let r = s.s_rt in
  app
    (s2t (String ((Ascii (true, true, false, false, false, true, true,
      false)), (String ((Ascii (true, false, false, false, false, true, true,
      false)), (String ((Ascii (false, false, false, false, true, true, true,
      false)), (String ((Ascii (true, false, true, true, true, true, false,
      false)), EmptyString)))))))))
    (app (show_N (ob_cap o))
      (app
        (s2t (String ((Ascii (false, false, false, false, false, true, false,
          false)), (String ((Ascii (true, false, true, false, true, true,
          true, false)), (String ((Ascii (true, true, false, false, true,
          true, true, false)), (String ((Ascii (true, false, true, false,
          false, true, true, false)), (String ((Ascii (false, false, true,
          false, false, true, true, false)), (String ((Ascii (true, false,
          true, true, true, true, false, false)), EmptyString)))))))))))))
        (app (show_N o.ob_used)
          (app
            (s2t (String ((Ascii (false, false, false, false, false, true,
              false, false)), (String ((Ascii (false, true, false, false,
              true, true, true, false)), (String ((Ascii (true, false, true,
              false, false, true, true, false)), (String ((Ascii (false,
              false, true, false, true, true, true, false)), (String ((Ascii
              (true, false, true, true, true, true, false, false)), (String
              ((Ascii (true, true, false, true, true, false, true, false)),
              EmptyString)))))))))))))
            (app
              (join
                (s2t (String ((Ascii (false, false, true, true, false, true,
                  false, false)), EmptyString)))
                (map (show_rentry o) o.ob_ret))
              (app
                (s2t (String ((Ascii (true, false, true, true, true, false,
                  true, false)), (String ((Ascii (false, false, false, false,
                  false, true, false, false)), (String ((Ascii (true, true,
                  false, false, false, true, true, false)), (String ((Ascii
                  (false, false, true, false, true, true, true, false)),
                  (String ((Ascii (false, false, true, true, false, true,
                  true, false)), (String ((Ascii (true, false, true, true,
                  true, true, false, false)), (String ((Ascii (true, true,
                  false, true, true, false, true, false)),
                  EmptyString)))))))))))))))
                (app
                  (join
                    (s2t (String ((Ascii (false, false, true, true, false,
                      true, false, false)), EmptyString)))
                    (map (fun e ->
                      app (show_caction e.ce_act) (show_sstate e.ce_st))
                      o.ob_ctl))
                  (app
                    (s2t (String ((Ascii (true, false, true, true, true,
                      false, true, false)), (String ((Ascii (false, false,
                      false, false, false, true, false, false)), (String
                      ((Ascii (false, true, false, false, true, true, true,
                      false)), (String ((Ascii (true, false, true, false,
                      false, true, true, false)), (String ((Ascii (false,
                      false, true, true, false, true, true, false)), (String
                      ((Ascii (true, false, true, true, true, true, false,
                      false)), (String ((Ascii (true, true, false, true,
                      true, false, true, false)), EmptyString)))))))))))))))
                    (app
                      (join
                        (s2t (String ((Ascii (false, false, true, true,
                          false, true, false, false)), EmptyString)))
                        (map (fun e ->
                          app (show_N e.le_pid)
                            (app
                              (s2t (String ((Ascii (false, true, false, true,
                                true, true, false, false)), EmptyString)))
                              (app (show_N e.le_rc)
                                (app
                                  (s2t (String ((Ascii (false, true, false,
                                    true, true, true, false, false)),
                                    EmptyString))) (show_sstate e.le_st)))))
                          o.ob_rel))
                      (app
                        (s2t (String ((Ascii (true, false, true, true, true,
                          false, true, false)), (String ((Ascii (false,
                          false, false, false, false, true, false, false)),
                          (String ((Ascii (false, false, false, false, true,
                          true, true, false)), (String ((Ascii (true, false,
                          false, true, false, true, true, false)), (String
                          ((Ascii (false, false, true, false, false, true,
                          true, false)), (String ((Ascii (true, false, true,
                          true, true, true, false, false)),
                          EmptyString)))))))))))))
                        (app (show_N s.s_pid)
                          (app
                            (s2t (String ((Ascii (false, false, false, false,
                              false, true, false, false)), (String ((Ascii
                              (true, true, true, false, false, true, true,
                              false)), (String ((Ascii (true, false, true,
                              false, false, true, true, false)), (String
                              ((Ascii (false, true, true, true, false, true,
                              true, false)), (String ((Ascii (true, false,
                              true, true, true, true, false, false)),
                              EmptyString)))))))))))
                            (app (show_N s.s_gen)
                              (app
                                (s2t (String ((Ascii (false, false, false,
                                  false, false, true, false, false)), (String
                                  ((Ascii (true, true, false, false, true,
                                  true, true, false)), (String ((Ascii
                                  (false, false, false, false, true, true,
                                  true, false)), (String ((Ascii (true,
                                  false, true, true, true, true, false,
                                  false)), EmptyString)))))))))
                                (app (show_bool s.s_sp)
                                  (app
                                    (s2t (String ((Ascii (false, false,
                                      false, false, false, true, false,
                                      false)), (String ((Ascii (true, true,
                                      false, false, true, true, true,
                                      false)), (String ((Ascii (false, true,
                                      false, false, true, true, true,
                                      false)), (String ((Ascii (false, true,
                                      true, false, true, true, true, false)),
                                      (String ((Ascii (true, false, true,
                                      true, true, true, false, false)),
                                      (String ((Ascii (true, true, false,
                                      true, true, false, true, false)),
                                      EmptyString)))))))))))))
                                    (app
                                      (join
                                        (s2t (String ((Ascii (false, false,
                                          true, true, false, true, false,
                                          false)), EmptyString)))
                                        (map show_N s.s_srv))
                                      (app
                                        (s2t (String ((Ascii (true, false,
                                          true, true, true, false, true,
                                          false)), (String ((Ascii (false,
                                          false, false, false, false, true,
                                          false, false)), (String ((Ascii
                                          (true, false, false, false, true,
                                          true, true, false)), (String
                                          ((Ascii (true, false, true, false,
                                          true, true, true, false)), (String
                                          ((Ascii (true, true, true, true,
                                          false, true, true, false)), (String
                                          ((Ascii (false, false, true, false,
                                          true, true, true, false)), (String
                                          ((Ascii (true, false, false, false,
                                          false, true, true, false)), (String
                                          ((Ascii (true, false, true, true,
                                          true, true, false, false)),
                                          EmptyString)))))))))))))))))
                                        (app (show_N r.rt_quota)
                                          (app
                                            (s2t (String ((Ascii (false,
                                              false, false, false, false,
                                              true, false, false)), (String
                                              ((Ascii (true, false, true,
                                              true, false, true, true,
                                              false)), (String ((Ascii (true,
                                              false, false, false, false,
                                              true, true, false)), (String
                                              ((Ascii (false, false, false,
                                              true, true, true, true,
                                              false)), (String ((Ascii (true,
                                              false, false, false, true,
                                              true, true, false)), (String
                                              ((Ascii (true, false, true,
                                              false, true, true, true,
                                              false)), (String ((Ascii (true,
                                              true, true, true, false, true,
                                              true, false)), (String ((Ascii
                                              (false, false, true, false,
                                              true, true, true, false)),
                                              (String ((Ascii (true, false,
                                              false, false, false, true,
                                              true, false)), (String ((Ascii
                                              (true, false, true, true, true,
                                              true, false, false)),
                                              EmptyString)))))))))))))))))))))
                                            (app (show_N r.rt_maxquota)
                                              (app
                                                (s2t (String ((Ascii (false,
                                                  false, false, false, false,
                                                  true, false, false)),
                                                  (String ((Ascii (true,
                                                  false, true, true, false,
                                                  true, true, false)),
                                                  (String ((Ascii (false,
                                                  false, false, false, true,
                                                  true, true, false)),
                                                  (String ((Ascii (true,
                                                  true, false, false, true,
                                                  true, true, false)),
                                                  (String ((Ascii (true,
                                                  false, true, true, true,
                                                  true, false, false)),
                                                  EmptyString)))))))))))
                                                (app (show_optN r.rt_mps)
                                                  (app
                                                    (s2t (String ((Ascii
                                                      (false, false, false,
                                                      false, false, true,
                                                      false, false)), (String
                                                      ((Ascii (true, false,
                                                      true, true, false,
                                                      true, true, false)),
                                                      (String ((Ascii (true,
                                                      false, false, false,
                                                      false, true, true,
                                                      false)), (String
                                                      ((Ascii (false, false,
                                                      false, true, true,
                                                      true, true, false)),
                                                      (String ((Ascii (true,
                                                      false, false, false,
                                                      true, true, true,
                                                      false)), (String
                                                      ((Ascii (true, true,
                                                      true, true, false,
                                                      true, true, false)),
                                                      (String ((Ascii (true,
                                                      true, false, false,
                                                      true, true, true,
                                                      false)), (String
                                                      ((Ascii (true, false,
                                                      true, true, true, true,
                                                      false, false)),
                                                      EmptyString)))))))))))))))))
                                                    (app
                                                      (match r.rt_maxqos with
                                                       | Some q ->
                                                         show_N (qos_n q)
                                                       | None ->
                                                         s2t (String ((Ascii
                                                           (true, false,
                                                           true, true, false,
                                                           true, false,
                                                           false)),
                                                           EmptyString)))
                                                      (app
                                                        (s2t (String ((Ascii
                                                          (false, false,
                                                          false, false,
                                                          false, true, false,
                                                          false)), (String
                                                          ((Ascii (true,
                                                          true, false, true,
                                                          false, true, true,
                                                          false)), (String
                                                          ((Ascii (true,
                                                          false, false,
                                                          false, false, true,
                                                          true, false)),
                                                          (String ((Ascii
                                                          (true, false, true,
                                                          true, true, true,
                                                          false, false)),
                                                          EmptyString)))))))))
                                                        (app
                                                          (show_N r.rt_ka_ms)
                                                          (app
                                                            (s2t (String
                                                              ((Ascii (false,
                                                              false, false,
                                                              false, false,
                                                              true, false,
                                                              false)),
                                                              (String ((Ascii
                                                              (false, true,
                                                              true, true,
                                                              false, true,
                                                              true, false)),
                                                              (String ((Ascii
                                                              (false, false,
                                                              false, false,
                                                              true, true,
                                                              true, false)),
                                                              (String ((Ascii
                                                              (true, false,
                                                              true, true,
                                                              true, true,
                                                              false, false)),
                                                              EmptyString)))))))))
                                                            (app
                                                              (show_optN
                                                                r.rt_next_ping)
                                                              (app
                                                                (s2t (String
                                                                  ((Ascii
                                                                  (false,
                                                                  false,
                                                                  false,
                                                                  false,
                                                                  false,
                                                                  true,
                                                                  false,
                                                                  false)),
                                                                  (String
                                                                  ((Ascii
                                                                  (false,
                                                                  false,
                                                                  false,
                                                                  false,
                                                                  true, true,
                                                                  true,
                                                                  false)),
                                                                  (String
                                                                  ((Ascii
                                                                  (false,
                                                                  false,
                                                                  true,
                                                                  false,
                                                                  true, true,
                                                                  true,
                                                                  false)),
                                                                  (String
                                                                  ((Ascii
                                                                  (true,
                                                                  false,
                                                                  true, true,
                                                                  true, true,
                                                                  false,
                                                                  false)),
                                                                  EmptyString)))))))))
                                                                (app
                                                                  (show_optN
                                                                    r.rt_ping_timeout)
                                                                  (app
                                                                    (s2t
                                                                    (String
                                                                    ((Ascii
                                                                    (false,
                                                                    false,
                                                                    false,
                                                                    false,
                                                                    false,
                                                                    true,
                                                                    false,
                                                                    false)),
                                                                    (String
                                                                    ((Ascii
                                                                    (false,
                                                                    true,
                                                                    false,
                                                                    false,
                                                                    true,
                                                                    true,
                                                                    true,
                                                                    false)),
                                                                    (String
                                                                    ((Ascii
                                                                    (true,
                                                                    false,
                                                                    true,
                                                                    false,
                                                                    false,
                                                                    true,
                                                                    true,
                                                                    false)),
                                                                    (String
                                                                    ((Ascii
                                                                    (true,
                                                                    true,
                                                                    false,
                                                                    false,
                                                                    true,
                                                                    true,
                                                                    true,
                                                                    false)),
                                                                    (String
                                                                    ((Ascii
                                                                    (true,
                                                                    false,
                                                                    true,
                                                                    false,
                                                                    true,
                                                                    true,
                                                                    true,
                                                                    false)),
                                                                    (String
                                                                    ((Ascii
                                                                    (true,
                                                                    false,
                                                                    true,
                                                                    true,
                                                                    false,
                                                                    true,
                                                                    true,
                                                                    false)),
                                                                    (String
                                                                    ((Ascii
                                                                    (true,
                                                                    false,
                                                                    true,
                                                                    false,
                                                                    false,
                                                                    true,
                                                                    true,
                                                                    false)),
                                                                    (String
                                                                    ((Ascii
                                                                    (false,
                                                                    false,
                                                                    true,
                                                                    false,
                                                                    false,
                                                                    true,
                                                                    true,
                                                                    false)),
                                                                    (String
                                                                    ((Ascii
                                                                    (true,
                                                                    false,
                                                                    true,
                                                                    true,
                                                                    true,
                                                                    true,
                                                                    false,
                                                                    false)),
                                                                    EmptyString)))))))))))))))))))
                                                                    (app
                                                                    (show_bool
                                                                    r.rt_resumed)
                                                                    (app
                                                                    (s2t
                                                                    (String
                                                                    ((Ascii
                                                                    (false,
                                                                    false,
                                                                    false,
                                                                    false,
                                                                    false,
                                                                    true,
                                                                    false,
                                                                    false)),
                                                                    (String
                                                                    ((Ascii
                                                                    (false,
                                                                    true,
                                                                    false,
                                                                    false,
                                                                    true,
                                                                    true,
                                                                    true,
                                                                    false)),
                                                                    (String
                                                                    ((Ascii
                                                                    (false,
                                                                    true,
                                                                    false,
                                                                    false,
                                                                    false,
                                                                    true,
                                                                    true,
                                                                    false)),
                                                                    (String
                                                                    ((Ascii
                                                                    (true,
                                                                    false,
                                                                    true,
                                                                    true,
                                                                    true,
                                                                    true,
                                                                    false,
                                                                    false)),
                                                                    EmptyString)))))))))
                                                                    (app
                                                                    (show_N
                                                                    (read_bytes
                                                                    s.s_reader))
                                                                    (app
                                                                    (s2t
                                                                    (String
                                                                    ((Ascii
                                                                    (false,
                                                                    false,
                                                                    false,
                                                                    false,
                                                                    false,
                                                                    true,
                                                                    false,
                                                                    false)),
                                                                    (String
                                                                    ((Ascii
                                                                    (false,
                                                                    false,
                                                                    false,
                                                                    false,
                                                                    true,
                                                                    true,
                                                                    true,
                                                                    false)),
                                                                    (String
                                                                    ((Ascii
                                                                    (false,
                                                                    false,
                                                                    true,
                                                                    true,
                                                                    false,
                                                                    true,
                                                                    true,
                                                                    false)),
                                                                    (String
                                                                    ((Ascii
                                                                    (true,
                                                                    false,
                                                                    true,
                                                                    true,
                                                                    true,
                                                                    true,
                                                                    false,
                                                                    false)),
                                                                    EmptyString)))))))))
                                                                    (app
                                                                    (show_optN
                                                                    s.s_reader.rplen)
                                                                    (app
                                                                    (s2t
                                                                    (String
                                                                    ((Ascii
                                                                    (false,
                                                                    false,
                                                                    false,
                                                                    false,
                                                                    false,
                                                                    true,
                                                                    false,
                                                                    false)),
                                                                    (String
                                                                    ((Ascii
                                                                    (true,
                                                                    true,
                                                                    false,
                                                                    false,
                                                                    false,
                                                                    true,
                                                                    true,
                                                                    false)),
                                                                    (String
                                                                    ((Ascii
                                                                    (true,
                                                                    false,
                                                                    false,
                                                                    true,
                                                                    false,
                                                                    true,
                                                                    true,
                                                                    false)),
                                                                    (String
                                                                    ((Ascii
                                                                    (false,
                                                                    false,
                                                                    true,
                                                                    false,
                                                                    false,
                                                                    true,
                                                                    true,
                                                                    false)),
                                                                    (String
                                                                    ((Ascii
                                                                    (true,
                                                                    false,
                                                                    true,
                                                                    true,
                                                                    true,
                                                                    true,
                                                                    false,
                                                                    false)),
                                                                    EmptyString)))))))))))
                                                                    (hex
                                                                    s.s_client_id)))))))))))))))))))))))))))))))))))))))

(** val show_status : opstatus -> text **)

let show_status = function
| StPending ->
  s2t (String ((Ascii (false, false, false, false, true, false, true,
    false)), EmptyString))
| StComplete ->
  s2t (String ((Ascii (true, true, false, false, false, false, true, false)),
    EmptyString))
| StInvalidated ->
  s2t (String ((Ascii (true, false, false, true, false, false, true, false)),
    EmptyString))

(** val show_state : world -> text **)

let show_state w =
  app
    (s2t (String ((Ascii (true, true, false, false, true, true, true,
      false)), (String ((Ascii (false, false, false, false, false, true,
      false, false)), EmptyString)))))
    (app (show_snapshot w.w_sess)
      (app
        (s2t (String ((Ascii (false, false, false, false, false, true, false,
          false)), (String ((Ascii (true, true, false, false, false, true,
          true, false)), (String ((Ascii (true, true, true, true, false,
          true, true, false)), (String ((Ascii (false, true, true, true,
          false, true, true, false)), (String ((Ascii (false, true, true,
          true, false, true, true, false)), (String ((Ascii (true, false,
          true, true, true, true, false, false)), EmptyString)))))))))))))
        (app (show_bool w.w_conn)
          (app
            (s2t (String ((Ascii (false, false, false, false, false, true,
              false, false)), (String ((Ascii (false, false, true, true,
              false, true, true, false)), (String ((Ascii (true, false,
              false, true, false, true, true, false)), (String ((Ascii
              (false, true, true, false, true, true, true, false)), (String
              ((Ascii (true, false, true, false, false, true, true, false)),
              (String ((Ascii (true, false, true, true, true, true, false,
              false)), EmptyString)))))))))))))
            (app (show_bool ((&&) w.w_conn w.w_live))
              (app
                (s2t (String ((Ascii (false, false, false, false, false,
                  true, false, false)), (String ((Ascii (false, true, true,
                  true, false, true, true, false)), (String ((Ascii (true,
                  true, true, true, false, true, true, false)), (String
                  ((Ascii (true, true, true, false, true, true, true,
                  false)), (String ((Ascii (true, false, true, true, true,
                  true, false, false)), EmptyString)))))))))))
                (app (show_N w.w_now)
                  (app
                    (s2t (String ((Ascii (false, false, false, false, false,
                      true, false, false)), (String ((Ascii (true, true,
                      false, false, false, true, true, false)), (String
                      ((Ascii (false, false, false, false, true, true, true,
                      false)), (String ((Ascii (true, false, true, true,
                      true, true, false, false)), EmptyString)))))))))
                    (app
                      (if w.w_conn
                       then app
                              (show_bool
                                ((&&) w.w_live (sess_can_publish w.w_sess Q0)))
                              (app
                                (show_bool
                                  ((&&) w.w_live
                                    (sess_can_publish w.w_sess Q1)))
                                (show_bool
                                  ((&&) w.w_live
                                    (sess_can_publish w.w_sess Q2))))
                       else s2t (String ((Ascii (true, false, true, true,
                              false, true, false, false)), (String ((Ascii
                              (true, false, true, true, false, true, false,
                              false)), (String ((Ascii (true, false, true,
                              true, false, true, false, false)),
                              EmptyString)))))))
                      (app
                        (s2t (String ((Ascii (false, false, false, false,
                          false, true, false, false)), (String ((Ascii
                          (false, false, false, false, true, true, true,
                          false)), (String ((Ascii (true, false, false,
                          false, true, true, true, false)), (String ((Ascii
                          (true, false, true, true, true, true, false,
                          false)), EmptyString)))))))))
                        (app (show_bool (is_quiescent w.w_sess.s_ob))
                          (app
                            (s2t (String ((Ascii (false, false, false, false,
                              false, true, false, false)), (String ((Ascii
                              (true, false, true, false, false, true, true,
                              false)), (String ((Ascii (false, true, true,
                              false, true, true, true, false)), (String
                              ((Ascii (true, false, true, true, true, true,
                              false, false)), EmptyString)))))))))
                            (app
                              (if w.w_conn
                               then show_N w.w_event
                               else s2t (String ((Ascii (true, false, true,
                                      true, false, true, false, false)),
                                      EmptyString)))
                              (app
                                (s2t (String ((Ascii (false, false, false,
                                  false, false, true, false, false)), (String
                                  ((Ascii (false, false, false, true, false,
                                  true, true, false)), (String ((Ascii (true,
                                  false, true, true, true, true, false,
                                  false)), (String ((Ascii (true, true,
                                  false, true, true, false, true, false)),
                                  EmptyString)))))))))
                                (app
                                  (join
                                    (s2t (String ((Ascii (false, false, true,
                                      true, false, true, false, false)),
                                      EmptyString)))
                                    (map (fun o ->
                                      show_status (status w.w_sess o))
                                      w.w_handles))
                                  (s2t (String ((Ascii (true, false, true,
                                    true, true, false, true, false)),
                                    EmptyString))))))))))))))))))

(** val show_msg : rpacket -> text **)

let show_msg = function
| RPublish (topic, _, q, r, _, ps, payload) ->
  app
    (s2t (String ((Ascii (true, false, true, true, false, true, true,
      false)), (String ((Ascii (true, true, false, false, true, true, true,
      false)), (String ((Ascii (true, true, true, false, false, true, true,
      false)), (String ((Ascii (false, false, false, false, false, true,
      false, false)), (String ((Ascii (false, false, true, false, true, true,
      true, false)), (String ((Ascii (true, false, true, true, true, true,
      false, false)), (String ((Ascii (false, false, false, true, true, true,
      true, false)), EmptyString)))))))))))))))
    (app (hex topic)
      (app
        (s2t (String ((Ascii (false, false, false, false, false, true, false,
          false)), (String ((Ascii (false, false, false, false, true, true,
          true, false)), (String ((Ascii (true, false, true, true, true,
          true, false, false)), (String ((Ascii (false, false, false, true,
          true, true, true, false)), EmptyString)))))))))
        (app (hex payload)
          (app
            (s2t (String ((Ascii (false, false, false, false, false, true,
              false, false)), (String ((Ascii (true, false, false, false,
              true, true, true, false)), (String ((Ascii (true, false, true,
              true, true, true, false, false)), EmptyString)))))))
            (app (show_N (qos_n q))
              (app
                (s2t (String ((Ascii (false, false, false, false, false,
                  true, false, false)), (String ((Ascii (false, true, false,
                  false, true, true, true, false)), (String ((Ascii (true,
                  false, true, true, true, true, false, false)),
                  EmptyString)))))))
                (app (show_bool r)
                  (app
                    (s2t (String ((Ascii (false, false, false, false, false,
                      true, false, false)), (String ((Ascii (false, false,
                      false, false, true, true, true, false)), (String
                      ((Ascii (false, true, false, false, true, true, true,
                      false)), (String ((Ascii (true, true, true, true,
                      false, true, true, false)), (String ((Ascii (false,
                      false, false, false, true, true, true, false)), (String
                      ((Ascii (true, true, false, false, true, true, true,
                      false)), (String ((Ascii (true, false, true, true,
                      true, true, false, false)), EmptyString)))))))))))))))
                    (show_props_block ps)))))))))
| _ ->
  s2t (String ((Ascii (true, false, true, true, false, true, true, false)),
    (String ((Ascii (true, true, false, false, true, true, true, false)),
    (String ((Ascii (true, true, true, false, false, true, true, false)),
    (String ((Ascii (false, false, false, false, false, true, false, false)),
    (String ((Ascii (true, true, true, true, true, true, false, false)),
    EmptyString))))))))))

(** val show_op : op -> text **)

let show_op o =
  app
    (s2t (String ((Ascii (true, true, true, true, false, true, true, false)),
      (String ((Ascii (false, false, false, false, true, true, true, false)),
      (String ((Ascii (false, false, false, false, false, true, false,
      false)), EmptyString)))))))
    (app (show_N o.op_kind)
      (app
        (s2t (String ((Ascii (false, false, false, false, false, true, false,
          false)), EmptyString)))
        (app (show_N o.op_pid)
          (app
            (s2t (String ((Ascii (false, false, false, false, false, true,
              false, false)), EmptyString))) (show_N o.op_gen)))))

(** val show_outcome : ('a1 -> text) -> 'a1 outcome -> text **)

let show_outcome f o =
  app
    (s2t (String ((Ascii (true, false, true, true, true, true, false,
      false)), (String ((Ascii (false, false, false, false, false, true,
      false, false)), EmptyString)))))
    (match o with
     | ODone a ->
       app
         (s2t (String ((Ascii (true, true, true, true, false, true, true,
           false)), (String ((Ascii (true, true, false, true, false, true,
           true, false)), (String ((Ascii (false, false, false, false, false,
           true, false, false)), EmptyString))))))) (f a)
     | OFail e ->
       app
         (s2t (String ((Ascii (true, false, true, false, false, true, true,
           false)), (String ((Ascii (false, true, false, false, true, true,
           true, false)), (String ((Ascii (false, true, false, false, true,
           true, true, false)), (String ((Ascii (false, false, false, false,
           false, true, false, false)), EmptyString))))))))) (show_err e)
     | OCancel ->
       s2t (String ((Ascii (true, true, false, false, false, true, true,
         false)), (String ((Ascii (true, false, false, false, false, true,
         true, false)), (String ((Ascii (false, true, true, true, false,
         true, true, false)), (String ((Ascii (true, true, false, false,
         false, true, true, false)), (String ((Ascii (true, false, true,
         false, false, true, true, false)), (String ((Ascii (false, false,
         true, true, false, true, true, false)), (String ((Ascii (false,
         false, true, true, false, true, true, false)), (String ((Ascii
         (true, false, true, false, false, true, true, false)), (String
         ((Ascii (false, false, true, false, false, true, true, false)),
         EmptyString))))))))))))))))))
     | OFuel ->
       s2t (String ((Ascii (false, true, true, false, false, false, true,
         false)), (String ((Ascii (true, false, true, false, true, false,
         true, false)), (String ((Ascii (true, false, true, false, false,
         false, true, false)), (String ((Ascii (false, false, true, true,
         false, false, true, false)), EmptyString))))))))
     | OPanic ->
       s2t (String ((Ascii (false, false, false, false, true, false, true,
         false)), (String ((Ascii (true, false, false, false, false, false,
         true, false)), (String ((Ascii (false, true, true, true, false,
         false, true, false)), (String ((Ascii (true, false, false, true,
         false, false, true, false)), (String ((Ascii (true, true, false,
         false, false, false, true, false)), EmptyString)))))))))))

(** val feed : world -> n -> bytes -> world **)

let feed w delay bs =
  let t = N.max (N.add w.w_now delay) w.w_last_arrival in
  (match bs with
   | [] -> w
   | _ :: _ -> upd_inq w (app w.w_inq ((t, bs) :: [])) t)

(** val noconn : world -> world **)

let noconn w =
  upd_log w
    (s2t (String ((Ascii (true, false, true, true, true, true, false,
      false)), (String ((Ascii (false, false, false, false, false, true,
      false, false)), (String ((Ascii (false, true, true, true, false, true,
      true, false)), (String ((Ascii (true, true, true, true, false, true,
      true, false)), (String ((Ascii (true, true, false, false, false, true,
      true, false)), (String ((Ascii (true, true, true, true, false, true,
      true, false)), (String ((Ascii (false, true, true, true, false, true,
      true, false)), (String ((Ascii (false, true, true, true, false, true,
      true, false)), EmptyString)))))))))))))))))

(** val record_op : world -> op option outcome -> world **)

let record_op w = function
| ODone a ->
  (match a with
   | Some h -> upd_handles w (app w.w_handles (h :: []))
   | None -> w)
| _ -> w

(** val run_action : action -> world -> world **)

let run_action a w =
  match a with
  | AConnect chunks ->
    let w0 =
      upd_poison
        (upd_wire
          (upd_txbuf (upd_inq (upd_live w false false N0) [] w.w_now) []) [])
        false
    in
    let w1 = fold_left (fun w1 c -> feed w1 (fst c) (snd c)) chunks w0 in
    let (w2, r) = op_connect fUEL w1 in
    let w3 =
      match r with
      | ODone ev -> upd_live w2 true true ev
      | _ -> upd_live w2 false false N0
    in
    upd_log w3
      (show_outcome (fun ev ->
        if N.eqb ev N0
        then s2t (String ((Ascii (true, true, false, false, false, true,
               true, false)), (String ((Ascii (true, true, true, true, false,
               true, true, false)), (String ((Ascii (false, true, true, true,
               false, true, true, false)), (String ((Ascii (false, true,
               true, true, false, true, true, false)), (String ((Ascii (true,
               false, true, false, false, true, true, false)), (String
               ((Ascii (true, true, false, false, false, true, true, false)),
               (String ((Ascii (false, false, true, false, true, true, true,
               false)), (String ((Ascii (true, false, true, false, false,
               true, true, false)), (String ((Ascii (false, false, true,
               false, false, true, true, false)),
               EmptyString))))))))))))))))))
        else s2t (String ((Ascii (false, true, false, false, true, true,
               true, false)), (String ((Ascii (true, false, true, false,
               false, true, true, false)), (String ((Ascii (true, true,
               false, false, false, true, true, false)), (String ((Ascii
               (true, true, true, true, false, true, true, false)), (String
               ((Ascii (false, true, true, true, false, true, true, false)),
               (String ((Ascii (false, true, true, true, false, true, true,
               false)), (String ((Ascii (true, false, true, false, false,
               true, true, false)), (String ((Ascii (true, true, false,
               false, false, true, true, false)), (String ((Ascii (false,
               false, true, false, true, true, true, false)), (String ((Ascii
               (true, false, true, false, false, true, true, false)), (String
               ((Ascii (false, false, true, false, false, true, true,
               false)), EmptyString))))))))))))))))))))))) r)
  | APublish r ->
    if negb w.w_conn
    then noconn w
    else let (w1, o) = op_publish fUEL r w in
         upd_log (record_op w1 o)
           (show_outcome (fun x ->
             match x with
             | Some h -> show_op h
             | None ->
               s2t (String ((Ascii (false, true, true, true, false, true,
                 true, false)), (String ((Ascii (true, true, true, true,
                 false, true, true, false)), (String ((Ascii (false, true,
                 true, true, false, true, true, false)), (String ((Ascii
                 (true, false, true, false, false, true, true, false)),
                 EmptyString))))))))) o)
  | ASubscribe (ts, ps) ->
    if negb w.w_conn
    then noconn w
    else let (w1, o) = op_subscribe fUEL ts ps w in
         upd_log (record_op w1 o)
           (show_outcome (fun x ->
             match x with
             | Some h -> show_op h
             | None ->
               s2t (String ((Ascii (false, true, true, true, false, true,
                 true, false)), (String ((Ascii (true, true, true, true,
                 false, true, true, false)), (String ((Ascii (false, true,
                 true, true, false, true, true, false)), (String ((Ascii
                 (true, false, true, false, false, true, true, false)),
                 EmptyString))))))))) o)
  | AUnsubscribe (ts, ps) ->
    if negb w.w_conn
    then noconn w
    else let (w1, o) = op_unsubscribe fUEL ts ps w in
         upd_log (record_op w1 o)
           (show_outcome (fun x ->
             match x with
             | Some h -> show_op h
             | None ->
               s2t (String ((Ascii (false, true, true, true, false, true,
                 true, false)), (String ((Ascii (true, true, true, true,
                 false, true, true, false)), (String ((Ascii (false, true,
                 true, true, false, true, true, false)), (String ((Ascii
                 (true, false, true, false, false, true, true, false)),
                 EmptyString))))))))) o)
  | ADisconnect d ->
    if negb w.w_conn
    then noconn w
    else let (w1, o) = op_disconnect fUEL d w in
         upd_log w1
           (show_outcome (fun _ ->
             s2t (String ((Ascii (false, false, true, false, false, true,
               true, false)), (String ((Ascii (true, true, true, true, false,
               true, true, false)), (String ((Ascii (false, true, true, true,
               false, true, true, false)), (String ((Ascii (true, false,
               true, false, false, true, true, false)), EmptyString)))))))))
             o)
  | ADrive ->
    if negb w.w_conn
    then noconn w
    else let (w1, o) = op_drive fUEL w in
         upd_log w1
           (show_outcome (fun x ->
             match x with
             | Some p -> show_msg p
             | None ->
               s2t (String ((Ascii (false, true, true, true, false, true,
                 true, false)), (String ((Ascii (true, true, true, true,
                 false, true, true, false)), (String ((Ascii (false, true,
                 true, true, false, true, true, false)), (String ((Ascii
                 (true, false, true, false, false, true, true, false)),
                 EmptyString))))))))) o)
  | APoll ->
    if negb w.w_conn
    then noconn w
    else let (w1, o) = op_poll fUEL w in
         upd_log w1
           (show_outcome (fun x ->
             match x with
             | Some p -> show_msg p
             | None ->
               s2t (String ((Ascii (false, true, true, true, false, true,
                 true, false)), (String ((Ascii (true, true, true, true,
                 false, true, true, false)), (String ((Ascii (false, true,
                 true, true, false, true, true, false)), (String ((Ascii
                 (true, false, true, false, false, true, true, false)),
                 EmptyString))))))))) o)
  | ARecv ->
    if negb w.w_conn
    then noconn w
    else let (w1, o) = op_recv fUEL w in
         upd_log w1
           (show_outcome (fun x ->
             match x with
             | Some p -> show_msg p
             | None ->
               s2t (String ((Ascii (false, true, true, true, false, true,
                 true, false)), (String ((Ascii (true, true, true, true,
                 false, true, true, false)), (String ((Ascii (false, true,
                 true, true, false, true, true, false)), (String ((Ascii
                 (true, false, true, false, false, true, true, false)),
                 EmptyString))))))))) o)
  | AFeed (delay, bs) ->
    upd_log (feed w delay bs)
      (s2t (String ((Ascii (true, false, true, true, true, true, false,
        false)), (String ((Ascii (false, false, false, false, false, true,
        false, false)), (String ((Ascii (false, true, true, false, false,
        true, true, false)), (String ((Ascii (true, false, true, false,
        false, true, true, false)), (String ((Ascii (false, false, true,
        false, false, true, true, false)), EmptyString)))))))))))
  | AAdvance dt ->
    upd_log (upd_now w (N.add w.w_now dt))
      (app
        (s2t (String ((Ascii (true, false, true, true, true, true, false,
          false)), (String ((Ascii (false, false, false, false, false, true,
          false, false)), (String ((Ascii (false, false, true, false, true,
          true, true, false)), (String ((Ascii (false, false, false, false,
          false, true, false, false)), EmptyString)))))))))
        (show_N (N.add w.w_now dt)))
  | ADropConn ->
    upd_log (upd_live w false false N0)
      (s2t (String ((Ascii (true, false, true, true, true, true, false,
        false)), (String ((Ascii (false, false, false, false, false, true,
        false, false)), (String ((Ascii (false, false, true, false, false,
        true, true, false)), (String ((Ascii (false, true, false, false,
        true, true, true, false)), (String ((Ascii (true, true, true, true,
        false, true, true, false)), (String ((Ascii (false, false, false,
        false, true, true, true, false)), (String ((Ascii (false, false,
        false, false, true, true, true, false)), (String ((Ascii (true,
        false, true, false, false, true, true, false)), (String ((Ascii
        (false, false, true, false, false, true, true, false)),
        EmptyString)))))))))))))))))))
  | AHandleDisconnect ->
    if negb w.w_conn
    then noconn w
    else upd_log (w_hd w)
           (s2t (String ((Ascii (true, false, true, true, true, true, false,
             false)), (String ((Ascii (false, false, false, false, false,
             true, false, false)), (String ((Ascii (false, false, false,
             true, false, true, true, false)), (String ((Ascii (false, false,
             true, false, false, true, true, false)), EmptyString)))))))))
  | ASetBroker m ->
    upd_log (upd_broker w m)
      (s2t (String ((Ascii (true, false, true, true, true, true, false,
        false)), (String ((Ascii (false, false, false, false, false, true,
        false, false)), (String ((Ascii (false, true, false, false, false,
        true, true, false)), (String ((Ascii (false, true, false, false,
        true, true, true, false)), (String ((Ascii (true, true, true, true,
        false, true, true, false)), (String ((Ascii (true, true, false, true,
        false, true, true, false)), (String ((Ascii (true, false, true,
        false, false, true, true, false)), (String ((Ascii (false, true,
        false, false, true, true, true, false)), EmptyString)))))))))))))))))
  | ASetPid p ->
    if w.w_conn
    then upd_log w
           (s2t (String ((Ascii (true, false, true, true, true, true, false,
             false)), (String ((Ascii (false, false, false, false, false,
             true, false, false)), (String ((Ascii (false, false, false,
             false, true, true, true, false)), (String ((Ascii (true, false,
             false, true, false, true, true, false)), (String ((Ascii (false,
             false, true, false, false, true, true, false)),
             EmptyString)))))))))))
    else let p16 =
           N.modulo p (Npos (XO (XO (XO (XO (XO (XO (XO (XO (XO (XO (XO (XO
             (XO (XO (XO (XO XH)))))))))))))))))
         in
         upd_log
           (upd_sess w
             (set_pid w.w_sess (if N.eqb p16 N0 then Npos XH else p16)))
           (s2t (String ((Ascii (true, false, true, true, true, true, false,
             false)), (String ((Ascii (false, false, false, false, false,
             true, false, false)), (String ((Ascii (false, false, false,
             false, true, true, true, false)), (String ((Ascii (true, false,
             false, true, false, true, true, false)), (String ((Ascii (false,
             false, true, false, false, true, true, false)),
             EmptyString)))))))))))
  | AHeal ->
    upd_log (upd_script w [])
      (s2t (String ((Ascii (true, false, true, true, true, true, false,
        false)), (String ((Ascii (false, false, false, false, false, true,
        false, false)), (String ((Ascii (false, false, false, true, false,
        true, true, false)), (String ((Ascii (true, false, true, false,
        false, true, true, false)), (String ((Ascii (true, false, false,
        false, false, true, true, false)), (String ((Ascii (false, false,
        true, true, false, true, true, false)), (String ((Ascii (true, false,
        true, false, false, true, true, false)), (String ((Ascii (false,
        false, true, false, false, true, true, false)),
        EmptyString)))))))))))))))))

(** val halted : world -> bool **)

let halted w =
  match w.w_log with
  | [] -> false
  | l :: _ ->
    (||)
      (list_eqb l
        (s2t (String ((Ascii (true, false, true, true, true, true, false,
          false)), (String ((Ascii (false, false, false, false, false, true,
          false, false)), (String ((Ascii (false, false, false, false, true,
          false, true, false)), (String ((Ascii (true, false, false, false,
          false, false, true, false)), (String ((Ascii (false, true, true,
          true, false, false, true, false)), (String ((Ascii (true, false,
          false, true, false, false, true, false)), (String ((Ascii (true,
          true, false, false, false, false, true, false)),
          EmptyString))))))))))))))))
      (list_eqb l
        (s2t (String ((Ascii (true, false, true, true, true, true, false,
          false)), (String ((Ascii (false, false, false, false, false, true,
          false, false)), (String ((Ascii (false, true, true, false, false,
          false, true, false)), (String ((Ascii (true, false, true, false,
          true, false, true, false)), (String ((Ascii (true, false, true,
          false, false, false, true, false)), (String ((Ascii (false, false,
          true, true, false, false, true, false)), EmptyString))))))))))))))

(** val action_code : action -> n **)

let action_code = function
| AConnect _ -> N0
| APublish _ -> Npos XH
| ASubscribe (_, _) -> Npos (XO XH)
| AUnsubscribe (_, _) -> Npos (XI XH)
| ADisconnect _ -> Npos (XO (XO XH))
| ADrive -> Npos (XI (XO XH))
| APoll -> Npos (XO (XI XH))
| ARecv -> Npos (XI (XI XH))
| AFeed (_, _) -> Npos (XO (XO (XO XH)))
| AAdvance _ -> Npos (XI (XO (XO XH)))
| ADropConn -> Npos (XO (XI (XO XH)))
| AHandleDisconnect -> Npos (XI (XI (XO XH)))
| ASetBroker _ -> Npos (XO (XO (XI XH)))
| ASetPid _ -> Npos (XI (XO (XI XH)))
| AHeal -> Npos (XO (XI (XI XH)))

(** val step_action : world -> action -> world **)

let step_action w a =
  if halted w
  then w
  else let marker =
         app
           (s2t (String ((Ascii (true, true, false, false, false, true,
             false, false)), EmptyString)))
           (app (show_N (action_code a))
             (match a with
              | AConnect _ -> []
              | APublish r ->
                app
                  (s2t (String ((Ascii (false, true, false, true, true, true,
                    false, false)), EmptyString))) (show_N (qos_n r.pr_qos))
              | _ -> []))
       in
       let w1 = run_action a (upd_waits (upd_log w marker) N0) in
       if halted w1 then w1 else upd_log w1 (show_state w1)

(** val init_world : case -> world **)

let init_world c =
  { w_sess = (session_new c.c_cfg); w_conn = false; w_live = false; w_event =
    N0; w_now = N0; w_inq = []; w_last_arrival = N0; w_txbuf = []; w_script =
    c.c_script; w_broker = N0; w_log = []; w_handles = []; w_waits = N0;
    w_envok = true; w_wire = []; w_poison = false; w_drained = true }

(** val run_case : case -> world **)

let run_case c =
  fold_left step_action c.c_prog (init_world c)

(** val show_run : case -> text **)

let show_run c =
  join
    (s2t (String ((Ascii (false, false, true, true, true, true, true,
      false)), EmptyString))) (rev (run_case c).w_log)

(** val p_config : config parser0 **)

let p_config =
  p_bind p_N (fun rx ->
    p_bind p_N (fun tx ->
      p_bind p_bytes (fun cid ->
        p_bind p_N (fun ka ->
          p_bind p_N (fun ex ->
            p_bind p_bool (fun dg ->
              p_bind (p_opt p_will) (fun wl ->
                p_bind (p_opt p_auth) (fun au ->
                  p_ret { cf_rx = rx; cf_tx = tx; cf_client_id = cid;
                    cf_keepalive_s = ka; cf_expiry = ex; cf_downgrade = dg;
                    cf_will = wl; cf_auth = au }))))))))

(** val p_chunk : (n * bytes) parser0 **)

let p_chunk =
  p_bind p_N (fun d -> p_bind p_bytes (fun b -> p_ret (d, b)))

(** val p_pub_req : pub_req parser0 **)

let p_pub_req =
  p_bind p_bytes (fun t ->
    p_bind p_properties (fun ps ->
      p_bind p_qos (fun q ->
        p_bind p_bytes (fun pl ->
          p_bind p_bool (fun r ->
            p_ret { pr_topic = t; pr_props = ps; pr_qos = q; pr_payload = pl;
              pr_retain = r })))))

(** val p_action : action parser0 **)

let p_action =
  p_bind p_N (fun k ->
    if N.eqb k N0
    then p_bind (p_list p_chunk) (fun c -> p_ret (AConnect c))
    else if N.eqb k (Npos XH)
         then p_bind p_pub_req (fun r -> p_ret (APublish r))
         else if N.eqb k (Npos (XO XH))
              then p_bind (p_list p_prop) (fun ps ->
                     p_bind (p_list p_sub_topic) (fun ts ->
                       p_ret (ASubscribe (ts, ps))))
              else if N.eqb k (Npos (XI XH))
                   then p_bind (p_list p_prop) (fun ps ->
                          p_bind (p_list p_bytes) (fun ts ->
                            p_ret (AUnsubscribe (ts, ps))))
                   else if N.eqb k (Npos (XO (XO XH)))
                        then p_bind p_disconnect_req (fun d ->
                               p_ret (ADisconnect d))
                        else if N.eqb k (Npos (XI (XO XH)))
                             then p_ret ADrive
                             else if N.eqb k (Npos (XO (XI XH)))
                                  then p_ret APoll
                                  else if N.eqb k (Npos (XI (XI XH)))
                                       then p_ret ARecv
                                       else if N.eqb k (Npos (XO (XO (XO
                                                 XH))))
                                            then p_bind p_N (fun d ->
                                                   p_bind p_bytes (fun b ->
                                                     p_ret (AFeed (d, b))))
                                            else if N.eqb k (Npos (XI (XO (XO
                                                      XH))))
                                                 then p_bind p_N (fun d ->
                                                        p_ret (AAdvance d))
                                                 else if N.eqb k (Npos (XO
                                                           (XI (XO XH))))
                                                      then p_ret ADropConn
                                                      else if N.eqb k (Npos
                                                                (XI (XI (XO
                                                                XH))))
                                                           then p_ret
                                                                  AHandleDisconnect
                                                           else if N.eqb k
                                                                    (Npos (XO
                                                                    (XO (XI
                                                                    XH))))
                                                                then 
                                                                  p_bind p_N
                                                                    (fun m ->
                                                                    p_ret
                                                                    (ASetBroker
                                                                    m))
                                                                else 
                                                                  if 
                                                                    N.eqb k
                                                                    (Npos (XI
                                                                    (XO (XI
                                                                    XH))))
                                                                  then 
                                                                    p_bind
                                                                    p_N
                                                                    (fun p ->
                                                                    p_ret
                                                                    (ASetPid
                                                                    p))
                                                                  else 
                                                                    if 
                                                                    N.eqb k
                                                                    (Npos (XO
                                                                    (XI (XI
                                                                    XH))))
                                                                    then 
                                                                    p_ret
                                                                    AHeal
                                                                    else 
                                                                    (fun _ ->
                                                                    None))

(** val p_ev : (n * n) parser0 **)

let p_ev =
  p_bind p_N (fun k -> p_bind p_N (fun a -> p_ret (k, a)))

(** val p_case : case parser0 **)

let p_case =
  p_bind p_config (fun cfg ->
    p_bind (p_list p_action) (fun prog ->
      p_bind (p_list p_ev) (fun sc ->
        p_ret { c_cfg = cfg; c_prog = prog; c_script = sc })))

type reply_pub = { rp_topic : bytes; rp_props : properties }

(** val reply : properties -> reply_pub option **)

let reply inbound =
  match response_topic inbound with
  | Some t ->
    Some { rp_topic = t; rp_props =
      (match correlation_data inbound with
       | Some c -> with_correlation (PSlice []) c
       | None -> PSlice []) }
  | None -> None

(** val reply_with : properties -> prop list -> reply_pub option **)

let reply_with inbound user =
  match reply inbound with
  | Some r ->
    Some { rp_topic = r.rp_topic; rp_props =
      (with_properties r.rp_props user) }
  | None -> None

type owned =
| OwnNone
| OwnErr
| OwnOk of bytes * bytes option

(** val reply_owned : properties -> n -> n -> owned **)

let reply_owned inbound t c =
  match response_topic inbound with
  | Some t0 ->
    if N.ltb t (lenN t0)
    then OwnErr
    else (match correlation_data inbound with
          | Some c0 ->
            if N.ltb c (lenN c0) then OwnErr else OwnOk (t0, (Some c0))
          | None -> OwnOk (t0, None))
  | None -> OwnNone

(** val owned_publication :
    bytes -> bytes option -> prop list -> reply_pub **)

let owned_publication t c user =
  { rp_topic = t; rp_props =
    (with_properties
      (match c with
       | Some c0 -> with_correlation (PSlice []) c0
       | None -> PSlice []) user) }

(** val run_p : 'a1 parser0 -> ('a1 -> text) -> n list -> text **)

let run_p p f l =
  match p l with
  | Some p0 ->
    let (a, l0) = p0 in
    (match l0 with
     | [] -> f a
     | _ :: _ ->
       s2t (String ((Ascii (false, true, false, false, false, false, true,
         false)), (String ((Ascii (true, false, false, false, false, false,
         true, false)), (String ((Ascii (false, false, true, false, false,
         false, true, false)), (String ((Ascii (true, true, false, false,
         false, false, true, false)), (String ((Ascii (true, false, false,
         false, false, false, true, false)), (String ((Ascii (true, true,
         false, false, true, false, true, false)), (String ((Ascii (true,
         false, true, false, false, false, true, false)), (String ((Ascii
         (false, false, false, false, false, true, false, false)), (String
         ((Ascii (false, false, true, false, true, true, true, false)),
         (String ((Ascii (false, true, false, false, true, true, true,
         false)), (String ((Ascii (true, false, false, false, false, true,
         true, false)), (String ((Ascii (true, false, false, true, false,
         true, true, false)), (String ((Ascii (false, false, true, true,
         false, true, true, false)), (String ((Ascii (true, false, false,
         true, false, true, true, false)), (String ((Ascii (false, true,
         true, true, false, true, true, false)), (String ((Ascii (true, true,
         true, false, false, true, true, false)),
         EmptyString)))))))))))))))))))))))))))))))))
  | None ->
    s2t (String ((Ascii (false, true, false, false, false, false, true,
      false)), (String ((Ascii (true, false, false, false, false, false,
      true, false)), (String ((Ascii (false, false, true, false, false,
      false, true, false)), (String ((Ascii (true, true, false, false, false,
      false, true, false)), (String ((Ascii (true, false, false, false,
      false, false, true, false)), (String ((Ascii (true, true, false, false,
      true, false, true, false)), (String ((Ascii (true, false, true, false,
      false, false, true, false)), (String ((Ascii (false, false, false,
      false, false, true, false, false)), (String ((Ascii (false, false,
      false, false, true, true, true, false)), (String ((Ascii (true, false,
      false, false, false, true, true, false)), (String ((Ascii (false, true,
      false, false, true, true, true, false)), (String ((Ascii (true, true,
      false, false, true, true, true, false)), (String ((Ascii (true, false,
      true, false, false, true, true, false)),
      EmptyString))))))))))))))))))))))))))

(** val owned_caps : n -> n * n **)

let owned_caps sel =
  if N.eqb sel N0
  then (N0, N0)
  else if N.eqb sel (Npos XH)
       then ((Npos XH), (Npos XH))
       else if N.eqb sel (Npos (XO XH))
            then ((Npos (XO (XO XH))), (Npos (XO (XO XH))))
            else if N.eqb sel (Npos (XI XH))
                 then ((Npos (XO (XO (XO XH)))), (Npos (XO XH)))
                 else if N.eqb sel (Npos (XO (XO XH)))
                      then ((Npos (XO XH)), (Npos (XO (XO (XO XH)))))
                      else if N.eqb sel (Npos (XI (XO XH)))
                           then ((Npos (XO (XO (XO (XO XH))))), (Npos (XO (XO
                                  (XO (XO XH))))))
                           else if N.eqb sel (Npos (XO (XI XH)))
                                then ((Npos (XO (XO (XO (XO (XO (XO
                                       XH))))))), (Npos (XO (XO (XO (XO (XO
                                       (XO XH))))))))
                                else ((Npos (XO (XO (XO (XO (XO (XO (XO
                                       XH)))))))), (Npos (XO (XO (XO (XO (XO
                                       (XO (XO XH)))))))))

(** val show_reply : bytes -> prop list -> n -> text **)

let show_reply buf user sel =
  match from_buffer buf with
  | Some r ->
    (match r with
     | RPublish (_, _, _, _, _, ps, _) ->
       let inbound = PEncoded ps in
       app
         (s2t (String ((Ascii (false, true, false, false, true, true, true,
           false)), (String ((Ascii (false, false, true, false, true, true,
           true, false)), (String ((Ascii (true, false, true, true, true,
           true, false, false)), EmptyString)))))))
         (app
           (match response_topic inbound with
            | Some t ->
              app
                (s2t (String ((Ascii (false, false, false, true, true, true,
                  true, false)), EmptyString))) (hex t)
            | None ->
              s2t (String ((Ascii (true, false, true, true, false, true,
                false, false)), EmptyString)))
           (app
             (s2t (String ((Ascii (false, false, false, false, false, true,
               false, false)), (String ((Ascii (true, true, false, false,
               false, true, true, false)), (String ((Ascii (false, false,
               true, false, false, true, true, false)), (String ((Ascii
               (true, false, true, true, true, true, false, false)),
               EmptyString)))))))))
             (app
               (match correlation_data inbound with
                | Some c ->
                  app
                    (s2t (String ((Ascii (false, false, false, true, true,
                      true, true, false)), EmptyString))) (hex c)
                | None ->
                  s2t (String ((Ascii (true, false, true, true, false, true,
                    false, false)), EmptyString)))
               (app
                 (s2t (String ((Ascii (false, false, false, false, false,
                   true, false, false)), (String ((Ascii (false, true, false,
                   false, true, true, true, false)), (String ((Ascii (true,
                   false, true, false, false, true, true, false)), (String
                   ((Ascii (false, false, false, false, true, true, true,
                   false)), (String ((Ascii (false, false, true, true, false,
                   true, true, false)), (String ((Ascii (true, false, false,
                   true, true, true, true, false)), (String ((Ascii (true,
                   false, true, true, true, true, false, false)),
                   EmptyString)))))))))))))))
                 (app
                   (match reply_with inbound user with
                    | Some r0 ->
                      show_sres
                        (enc_publish (Npos (XO (XO (XO (XO (XO (XO (XO (XO
                          (XO (XO (XO (XO XH))))))))))))) { pq_topic =
                          r0.rp_topic; pq_pid = None; pq_props = r0.rp_props;
                          pq_retain = false; pq_qos = Q0; pq_dup = false;
                          pq_payload = ((Npos (XO (XI (XO (XO (XI (XI
                          XH))))))) :: []) })
                    | None ->
                      s2t (String ((Ascii (false, true, true, true, false,
                        true, true, false)), (String ((Ascii (true, true,
                        true, true, false, true, true, false)), (String
                        ((Ascii (false, true, true, true, false, true, true,
                        false)), (String ((Ascii (true, false, true, false,
                        false, true, true, false)), EmptyString)))))))))
                   (app
                     (s2t (String ((Ascii (false, false, false, false, false,
                       true, false, false)), (String ((Ascii (true, true,
                       true, true, false, true, true, false)), (String
                       ((Ascii (true, true, true, false, true, true, true,
                       false)), (String ((Ascii (false, true, true, true,
                       false, true, true, false)), (String ((Ascii (true,
                       false, true, false, false, true, true, false)),
                       (String ((Ascii (false, false, true, false, false,
                       true, true, false)), (String ((Ascii (true, false,
                       true, true, true, true, false, false)),
                       EmptyString)))))))))))))))
                     (let (t, c) = owned_caps sel in
                      (match reply_owned inbound t c with
                       | OwnNone ->
                         s2t (String ((Ascii (false, true, true, true, false,
                           true, true, false)), (String ((Ascii (true, true,
                           true, true, false, true, true, false)), (String
                           ((Ascii (false, true, true, true, false, true,
                           true, false)), (String ((Ascii (true, false, true,
                           false, false, true, true, false)),
                           EmptyString))))))))
                       | OwnErr ->
                         s2t (String ((Ascii (true, false, true, false,
                           false, false, true, false)), (String ((Ascii
                           (false, true, false, false, true, false, true,
                           false)), (String ((Ascii (false, true, false,
                           false, true, false, true, false)),
                           EmptyString))))))
                       | OwnOk (t0, c0) ->
                         app
                           (s2t (String ((Ascii (false, false, true, false,
                             true, true, true, false)), (String ((Ascii
                             (true, false, true, true, true, true, false,
                             false)), (String ((Ascii (false, false, false,
                             true, true, true, true, false)),
                             EmptyString)))))))
                           (app (hex t0)
                             (app
                               (s2t (String ((Ascii (false, false, false,
                                 false, false, true, false, false)), (String
                                 ((Ascii (true, true, false, false, false,
                                 true, true, false)), (String ((Ascii (true,
                                 false, true, true, true, true, false,
                                 false)), EmptyString)))))))
                               (app
                                 (match c0 with
                                  | Some c1 ->
                                    app
                                      (s2t (String ((Ascii (false, false,
                                        false, true, true, true, true,
                                        false)), EmptyString))) (hex c1)
                                  | None ->
                                    s2t (String ((Ascii (true, false, true,
                                      true, false, true, false, false)),
                                      EmptyString)))
                                 (app
                                   (s2t (String ((Ascii (false, false, false,
                                     false, false, true, false, false)),
                                     (String ((Ascii (false, false, false,
                                     false, true, true, true, false)),
                                     (String ((Ascii (true, false, true,
                                     true, true, true, false, false)),
                                     EmptyString)))))))
                                   (let r0 = owned_publication t0 c0 user in
                                    show_sres
                                      (enc_publish (Npos (XO (XO (XO (XO (XO
                                        (XO (XO (XO (XO (XO (XO (XO
                                        XH))))))))))))) { pq_topic =
                                        r0.rp_topic; pq_pid = None;
                                        pq_props = r0.rp_props; pq_retain =
                                        false; pq_qos = Q0; pq_dup = false;
                                        pq_payload = ((Npos (XO (XI (XO (XO
                                        (XI (XI XH))))))) :: []) }))))))))))))))
     | _ ->
       s2t (String ((Ascii (false, true, true, true, false, false, true,
         false)), (String ((Ascii (true, true, true, true, false, false,
         true, false)), (String ((Ascii (false, false, true, false, true,
         false, true, false)), (String ((Ascii (false, false, false, false,
         true, false, true, false)), (String ((Ascii (true, false, true,
         false, true, false, true, false)), (String ((Ascii (false, true,
         false, false, false, false, true, false)), EmptyString)))))))))))))
  | None ->
    s2t (String ((Ascii (false, true, true, true, false, false, true,
      false)), (String ((Ascii (true, true, true, true, false, false, true,
      false)), (String ((Ascii (false, false, true, false, true, false, true,
      false)), (String ((Ascii (false, false, false, false, true, false,
      true, false)), (String ((Ascii (true, false, true, false, true, false,
      true, false)), (String ((Ascii (false, true, false, false, false,
      false, true, false)), EmptyString))))))))))))

(** val exec_codec : n -> n list -> text option **)

let exec_codec cmd l =
  if N.eqb cmd (Npos XH)
  then Some (run_p p_bytes show_decode l)
  else if N.eqb cmd (Npos (XO XH))
       then Some
              (run_p
                (p_bind p_N (fun rx ->
                  p_bind p_bytes (fun i ->
                    p_bind (p_list p_N) (fun f -> p_ret ((rx, i), f)))))
                (fun pat ->
                let (p, f) = pat in let (rx, i) = p in show_reader_run rx i f)
                l)
       else if N.eqb cmd (Npos (XI XH))
            then Some
                   (run_p
                     (p_bind p_prop (fun p ->
                       p_bind p_ctx (fun c -> p_ret (p, c)))) (fun pat ->
                     let (p, c) = pat in show_bool (is_valid_for p c)) l)
            else if N.eqb cmd (Npos (XO (XO XH)))
                 then Some
                        (run_p
                          (p_bind p_N (fun cap ->
                            p_bind p_connect_req (fun r -> p_ret (cap, r))))
                          (fun pat ->
                          let (cap, r) = pat in show_sres (enc_connect cap r))
                          l)
                 else if N.eqb cmd (Npos (XI (XO XH)))
                      then Some
                             (run_p
                               (p_bind p_N (fun cap ->
                                 p_bind p_publish_req (fun r ->
                                   p_ret (cap, r)))) (fun pat ->
                               let (cap, r) = pat in
                               show_sres (enc_publish cap r)) l)
                      else if N.eqb cmd (Npos (XO (XI XH)))
                           then Some
                                  (run_p
                                    (p_bind p_N (fun cap ->
                                      p_bind p_subscribe_req (fun r ->
                                        p_ret (cap, r)))) (fun pat ->
                                    let (cap, r) = pat in
                                    show_sres (enc_subscribe cap r)) l)
                           else if N.eqb cmd (Npos (XI (XI XH)))
                                then Some
                                       (run_p
                                         (p_bind p_N (fun cap ->
                                           p_bind p_unsubscribe_req (fun r ->
                                             p_ret (cap, r)))) (fun pat ->
                                         let (cap, r) = pat in
                                         show_sres (enc_unsubscribe cap r)) l)
                                else if N.eqb cmd (Npos (XO (XO (XO XH))))
                                     then Some
                                            (run_p
                                              (p_bind p_N (fun cap ->
                                                p_bind p_disconnect_req
                                                  (fun r -> p_ret (cap, r))))
                                              (fun pat ->
                                              let (cap, r) = pat in
                                              show_sres (enc_disconnect cap r))
                                              l)
                                     else if N.eqb cmd (Npos (XI (XO (XO
                                               XH))))
                                          then Some
                                                 (run_p
                                                   (p_bind p_N (fun cap ->
                                                     p_bind p_N (fun k ->
                                                       p_bind p_N (fun pid ->
                                                         p_bind p_N
                                                           (fun rc ->
                                                           p_ret (((cap, k),
                                                             pid), rc))))))
                                                   (fun pat ->
                                                   let (p, rc) = pat in
                                                   let (p0, pid) = p in
                                                   let (cap, k) = p0 in
                                                   show_sres
                                                     (if N.eqb k (Npos (XO
                                                           (XO (XI XH))))
                                                      then enc_pingreq cap
                                                      else enc_ack cap k pid
                                                             rc)) l)
                                          else if N.eqb cmd (Npos (XO (XI (XO
                                                    XH))))
                                               then Some
                                                      (run_p p_case show_run
                                                        l)
                                               else if N.eqb cmd (Npos (XI
                                                         (XI (XO XH))))
                                                    then Some
                                                           (run_p
                                                             (p_bind p_bytes
                                                               (fun b ->
                                                               p_bind
                                                                 (p_list
                                                                   p_prop)
                                                                 (fun u ->
                                                                 p_bind p_N
                                                                   (fun sel ->
                                                                   p_ret ((b,
                                                                    u), sel)))))
                                                             (fun pat ->
                                                             let (p, sel) =
                                                               pat
                                                             in
                                                             let (b, u) = p in
                                                             show_reply b u
                                                               sel) l)
                                                    else None

(** val exec : n list -> text **)

let exec = function
| [] ->
  s2t (String ((Ascii (false, true, false, false, false, false, true,
    false)), (String ((Ascii (true, false, false, false, false, false, true,
    false)), (String ((Ascii (false, false, true, false, false, false, true,
    false)), (String ((Ascii (true, true, false, false, false, false, true,
    false)), (String ((Ascii (true, false, false, false, false, false, true,
    false)), (String ((Ascii (true, true, false, false, true, false, true,
    false)), (String ((Ascii (true, false, true, false, false, false, true,
    false)), (String ((Ascii (false, false, false, false, false, true, false,
    false)), (String ((Ascii (true, false, true, false, false, true, true,
    false)), (String ((Ascii (true, false, true, true, false, true, true,
    false)), (String ((Ascii (false, false, false, false, true, true, true,
    false)), (String ((Ascii (false, false, true, false, true, true, true,
    false)), (String ((Ascii (true, false, false, true, true, true, true,
    false)), EmptyString))))))))))))))))))))))))))
| cmd :: rest ->
  (match exec_codec cmd rest with
   | Some t -> t
   | None ->
     s2t (String ((Ascii (false, true, false, false, false, false, true,
       false)), (String ((Ascii (true, false, false, false, false, false,
       true, false)), (String ((Ascii (false, false, true, false, false,
       false, true, false)), (String ((Ascii (true, true, false, false,
       false, false, true, false)), (String ((Ascii (true, false, false,
       false, false, false, true, false)), (String ((Ascii (true, true,
       false, false, true, false, true, false)), (String ((Ascii (true,
       false, true, false, false, false, true, false)), (String ((Ascii
       (false, false, false, false, false, true, false, false)), (String
       ((Ascii (true, true, false, false, false, true, true, false)), (String
       ((Ascii (true, false, true, true, false, true, true, false)), (String
       ((Ascii (false, false, true, false, false, true, true, false)),
       EmptyString)))))))))))))))))))))))
