(* driver: one case per line (space separated decimal integers) -> one line of text *)
open Model

let rec pos_of_int (i : int) : positive =
  if i = 1 then XH
  else if i land 1 = 0 then XO (pos_of_int (i lsr 1))
  else XI (pos_of_int (i lsr 1))

let n_of_int (i : int) : n = if i = 0 then N0 else Npos (pos_of_int i)

let rec int_of_pos (p : positive) : int =
  match p with XH -> 1 | XO q -> 2 * int_of_pos q | XI q -> 2 * int_of_pos q + 1

let int_of_n (x : n) : int = match x with N0 -> 0 | Npos p -> int_of_pos p

let () =
  let buf = Buffer.create 65536 in
  (try
     while true do
       let line = input_line stdin in
       let toks = String.split_on_char ' ' line in
       let toks = List.filter (fun s -> s <> "") toks in
       let ints = List.rev (List.rev_map (fun s -> n_of_int (int_of_string s)) toks) in
       let out = exec ints in
       Buffer.clear buf;
       List.iter (fun c -> Buffer.add_char buf (Char.chr ((int_of_n c) land 255))) out;
       Buffer.add_char buf '\n';
       print_string (Buffer.contents buf)
     done
   with End_of_file -> ());
  flush stdout
