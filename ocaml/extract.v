(* Extraction of the executable model.  Only ExtrOcamlBasic's directives are in force:
   Extract Inductive for bool, option, unit, list, prod, sumbool, sumor; no Extract Constant. *)
Require Import ExtrOcamlBasic.
From Minimq Require Import Main.
Extraction Language OCaml.
Extraction "model.ml" Main.exec.
