//! Function-level codec commands (cmd 1..9, 11) executed against the implementation through the
//! cfg(minimq_verif) hooks.
use crate::tok::{Bad, OProp, Toks};
use minimq::{
    Disconnect, Property, Publication, QoS, ReasonCode, RetainHandling, SubscriptionOptions, TopicFilter, Will,
    verif,
};

pub fn props_vec(ps: &[OProp]) -> Result<Vec<Property<'_>>, Bad> {
    if ps.iter().any(|p| !p.utf8_ok()) {
        return Err(Bad("utf8"));
    }
    Ok(ps.iter().map(|p| p.to_property()).collect())
}

fn s(b: &[u8]) -> Result<&str, Bad> {
    core::str::from_utf8(b).map_err(|_| Bad("utf8"))
}

pub struct OWill {
    pub topic: Vec<u8>,
    pub data: Vec<u8>,
    pub qos: QoS,
    pub retain: bool,
    pub props: Vec<OProp>,
}

pub fn parse_will(t: &mut Toks) -> Result<OWill, Bad> {
    Ok(OWill {
        topic: t.bytes()?,
        data: t.bytes()?,
        qos: t.qos()?,
        retain: t.b()?,
        props: t.list(|t| t.prop())?,
    })
}

pub fn build_will<'a>(w: &'a OWill, props: &'a [Property<'a>]) -> Result<Will<'a>, Bad> {
    let mut will = Will::new(s(&w.topic)?, &w.data, props).map_err(|_| Bad("will"))?;
    will = will.qos(w.qos);
    if w.retain {
        will = will.retained();
    }
    Ok(will)
}

pub struct OSubTopic {
    pub topic: Vec<u8>,
    pub qos: QoS,
    pub no_local: bool,
    pub rap: bool,
    pub rh: u64,
}

pub fn parse_sub_topic(t: &mut Toks) -> Result<OSubTopic, Bad> {
    Ok(OSubTopic { topic: t.bytes()?, qos: t.qos()?, no_local: t.b()?, rap: t.b()?, rh: t.n()? })
}

pub fn build_filter(o: &OSubTopic) -> Result<TopicFilter<'_>, Bad> {
    let mut opts = SubscriptionOptions::default().maximum_qos(o.qos);
    if o.no_local {
        opts = opts.ignore_local_messages();
    }
    if o.rap {
        opts = opts.retain_as_published();
    }
    opts = opts.retain_behavior(match o.rh {
        0 => RetainHandling::Immediately,
        1 => RetainHandling::IfSubscriptionDoesNotExist,
        2 => RetainHandling::Never,
        _ => return Err(Bad("parse")),
    });
    Ok(TopicFilter::new(s(&o.topic)?).options(opts))
}

pub struct OPublish {
    pub topic: Vec<u8>,
    pub pid: Option<u64>,
    pub corr: Option<Vec<u8>>,
    pub props: Vec<OProp>,
    pub retain: bool,
    pub qos: QoS,
    pub dup: bool,
    pub payload: Vec<u8>,
}

pub fn parse_publish(t: &mut Toks) -> Result<OPublish, Bad> {
    let topic = t.bytes()?;
    let pid = t.opt(|t| t.n())?;
    let kind = t.n()?;
    let corr = if kind == 0 { None } else { Some(t.bytes()?) };
    let props = t.list(|t| t.prop())?;
    Ok(OPublish { topic, pid, corr, props, retain: t.b()?, qos: t.qos()?, dup: t.b()?, payload: t.bytes()? })
}

pub fn build_publication<'a>(p: &'a OPublish, props: &'a [Property<'a>]) -> Result<Publication<'a, &'a [u8]>, Bad> {
    let mut publication = Publication::bytes(s(&p.topic)?, &p.payload[..]).qos(p.qos).properties(props);
    if p.retain {
        publication = publication.retain();
    }
    if let Some(c) = &p.corr {
        publication = publication.correlate(c);
    }
    Ok(publication)
}

pub struct ODisconnect {
    pub reason: Option<u64>,
    pub props: Option<Vec<OProp>>,
}

pub fn parse_disconnect(t: &mut Toks) -> Result<ODisconnect, Bad> {
    Ok(ODisconnect { reason: t.opt(|t| t.n())?, props: t.opt(|t| t.list(|t| t.prop()))? })
}

pub fn build_disconnect<'a>(d: &ODisconnect, props: &'a [Property<'a>]) -> Result<Disconnect<'a>, Bad> {
    let base = match d.reason {
        None => Disconnect::success(),
        Some(r) => Disconnect::with_reason(ReasonCode::from(r as u8)),
    };
    Ok(match (&d.props, d.reason) {
        (None, _) => base,
        (Some(_), Some(_)) => base.with_properties(props),
        // the builder supplies ReasonCode::Success when properties are attached to a reason-less DISCONNECT
        (Some(_), None) => base.with_properties(props),
    })
}

pub fn exec(cmd: u64, t: &mut Toks) -> Result<String, Bad> {
    match cmd {
        1 => {
            let buf = t.bytes()?;
            t.done()?;
            Ok(verif::decode(&buf))
        }
        2 => {
            let rx = t.n()? as usize;
            let input = t.bytes()?;
            let frags: Vec<usize> = t.list(|t| t.n())?.into_iter().map(|x| x as usize).collect();
            t.done()?;
            Ok(verif::reader_run(rx, &input, &frags))
        }
        3 => {
            let p = t.prop()?;
            let ctx = t.n()?;
            t.done()?;
            if ctx > 4 {
                return Err(Bad("parse"));
            }
            if !p.utf8_ok() {
                return Err(Bad("utf8"));
            }
            Ok((verif::valid_for(&p.to_property(), ctx as u8) as u8).to_string())
        }
        4 => {
            let cap = t.n()? as usize;
            let keepalive = t.n()? as u16;
            let ps = t.list(|t| t.prop())?;
            let cid = t.bytes()?;
            let auth = t.opt(|t| Ok((t.bytes()?, t.bytes()?)))?;
            let will = t.opt(parse_will)?;
            let clean = t.b()?;
            t.done()?;
            let props = props_vec(&ps)?;
            let wprops = match &will {
                Some(w) => props_vec(&w.props)?,
                None => Vec::new(),
            };
            let will = match &will {
                Some(w) => Some(build_will(w, &wprops)?),
                None => None,
            };
            let auth = match &auth {
                Some((u, p)) => Some((s(u)?, &p[..])),
                None => None,
            };
            Ok(verif::encode_connect(cap, keepalive, &props, s(&cid)?, auth, will, clean))
        }
        5 => {
            let cap = t.n()? as usize;
            let p = parse_publish(t)?;
            t.done()?;
            let props = props_vec(&p.props)?;
            let publication = build_publication(&p, &props)?;
            Ok(verif::encode_publish(cap, publication, p.pid.map(|x| x as u16), p.dup))
        }
        6 => {
            let cap = t.n()? as usize;
            let pid = t.n()? as u16;
            let ps = t.list(|t| t.prop())?;
            let topics = t.list(parse_sub_topic)?;
            t.done()?;
            let props = props_vec(&ps)?;
            let filters = topics.iter().map(build_filter).collect::<Result<Vec<_>, _>>()?;
            Ok(verif::encode_subscribe(cap, pid, &props, &filters))
        }
        7 => {
            let cap = t.n()? as usize;
            let pid = t.n()? as u16;
            let ps = t.list(|t| t.prop())?;
            let topics = t.list(|t| t.bytes())?;
            t.done()?;
            let props = props_vec(&ps)?;
            let topics = topics.iter().map(|b| s(b)).collect::<Result<Vec<_>, _>>()?;
            Ok(verif::encode_unsubscribe(cap, pid, &props, &topics))
        }
        8 => {
            let cap = t.n()? as usize;
            let d = parse_disconnect(t)?;
            t.done()?;
            let props = match &d.props {
                Some(ps) => props_vec(ps)?,
                None => Vec::new(),
            };
            let disconnect = build_disconnect(&d, &props)?;
            Ok(verif::encode_disconnect(cap, &disconnect))
        }
        9 => {
            let cap = t.n()? as usize;
            let kind = t.n()? as u8;
            let pid = t.n()? as u16;
            let rc = t.n()? as u8;
            t.done()?;
            Ok(verif::encode_control(cap, kind, pid, rc))
        }
        11 => {
            let buf = t.bytes()?;
            let ps = t.list(|t| t.prop())?;
            let sel = t.n()? as u8;
            t.done()?;
            let props = props_vec(&ps)?;
            Ok(verif::reply_render(&buf, &props, sel))
        }
        _ => Err(Bad("cmd")),
    }
}
