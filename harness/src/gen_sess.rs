//! Generators for session-level cases (cmd 10).
use crate::gen_codec::{enc_props, lp, packet, rand_bin, rand_prop_of_kind, rand_str};
use crate::rng::Rng;
use crate::tok::{Emit, OProp};

// ---------- broker-side packets ----------
pub fn connack(sp: bool, rc: u8, props: &[OProp]) -> Vec<u8> {
    let mut body = vec![sp as u8, rc];
    body.extend(enc_props(props));
    packet(0x20, &body)
}
pub fn numprop(kind: u8, num: u64) -> OProp {
    OProp { kind, num, data: vec![], data2: vec![] }
}
pub fn strprop(kind: u8, s: &[u8]) -> OProp {
    OProp { kind, num: 0, data: s.to_vec(), data2: vec![] }
}
pub fn ack(typ: u8, pid: u16, rc: Option<u8>) -> Vec<u8> {
    let mut body = pid.to_be_bytes().to_vec();
    if let Some(rc) = rc {
        body.push(rc);
    }
    packet((typ << 4) | if typ == 6 { 2 } else { 0 }, &body)
}
pub fn suback(typ: u8, pid: u16, codes: &[u8]) -> Vec<u8> {
    let mut body = pid.to_be_bytes().to_vec();
    body.push(0);
    body.extend_from_slice(codes);
    packet(typ << 4, &body)
}
pub fn publish(qos: u8, pid: u16, topic: &[u8], payload: &[u8], props: &[OProp], dup: bool, retain: bool) -> Vec<u8> {
    let mut body = lp(topic);
    if qos > 0 {
        body.extend_from_slice(&pid.to_be_bytes());
    }
    body.extend(enc_props(props));
    body.extend_from_slice(payload);
    packet(0x30 | (qos << 1) | retain as u8 | ((dup as u8) << 3), &body)
}

// ---------- program builder ----------
pub struct Case {
    pub cfg: Emit,
    pub actions: Vec<Emit>,
    pub script: Vec<(u64, u64)>,
}

impl Case {
    pub fn line(&self) -> String {
        let mut e = Emit::default();
        e.n(10);
        e.0.extend(self.cfg.0.iter());
        e.n(self.actions.len() as u64);
        for a in &self.actions {
            e.0.extend(a.0.iter());
        }
        e.n(self.script.len() as u64);
        for (k, a) in &self.script {
            e.n(*k).n(*a);
        }
        e.line()
    }
}

pub struct Cfg {
    pub rx: u64,
    pub tx: u64,
    pub cid: Vec<u8>,
    pub ka: u64,
    pub expiry: u64,
    pub downgrade: bool,
    pub will: bool,
    pub auth: bool,
}

pub fn emit_cfg(c: &Cfg) -> Emit {
    let mut e = Emit::default();
    e.n(c.rx).n(c.tx).bytes(&c.cid).n(c.ka).n(c.expiry).b(c.downgrade);
    if c.will {
        e.n(1).bytes(b"w/t").bytes(b"gone").n(1).b(true).props(&[numprop(12, 5), numprop(0, 1)]);
    } else {
        e.n(0);
    }
    if c.auth {
        e.n(1).bytes(b"user").bytes(b"pw");
    } else {
        e.n(0);
    }
    e
}

/// Weights and choices of the random program generator; one profile per property (see `profile`).
#[derive(Clone)]
pub struct Profile {
    pub rx: Vec<u64>,
    pub tx: Vec<u64>,
    pub ka: Vec<u64>,
    pub downgrade: (u64, u64),
    pub will_auth: (u64, u64),
    pub conns: (u64, u64),
    pub ops: (u64, u64),
    pub auto: (u64, u64),
    pub resume: (u64, u64),
    pub bad_connack: (u64, u64),
    pub limits: bool,          // CONNACK carries Receive Maximum / Maximum Packet Size / Maximum QoS / Server Keep Alive
    pub w_pub: [u64; 3],
    pub w_sub: u64,
    pub w_unsub: u64,
    pub w_drive: u64,
    pub w_poll: u64,
    pub w_recv: u64,
    pub w_ack: u64,
    pub w_inbound: u64,
    pub w_advance: u64,
    pub w_garbage: u64,
    pub w_disconnect: u64,
    pub w_drop: u64,
    pub invalid_props: (u64, u64),
    pub payloads: Vec<usize>,
    pub script_len: (u64, u64),
    pub fault: (u64, u64),     // probability that a script is faulty at all
    pub fault_kinds: Vec<u64>, // 1 fail, 2 zero/eof, 3 drop
    pub chunks: Vec<u64>,
    pub ack_rc: (u64, u64),    // probability of a failure reason code in an ack
    pub setpid: (u64, u64),    // probability of presetting the identifier counter (hook) before a connect
}

pub fn base_profile() -> Profile {
    Profile {
        rx: vec![16, 32, 64, 64, 128, 128],
        tx: vec![48, 64, 96, 128, 128, 256, 1152],
        ka: vec![0],
        downgrade: (1, 4),
        will_auth: (1, 8),
        conns: (1, 3),
        ops: (2, 12),
        auto: (1, 3),
        resume: (3, 4),
        bad_connack: (1, 15),
        limits: true,
        w_pub: [3, 3, 3],
        w_sub: 2,
        w_unsub: 1,
        w_drive: 1,
        w_poll: 3,
        w_recv: 1,
        w_ack: 6,
        w_inbound: 3,
        w_advance: 0,
        w_garbage: 1,
        w_disconnect: 1,
        w_drop: 1,
        invalid_props: (1, 15),
        payloads: vec![0, 1, 2, 3, 5, 8, 13, 20, 40],
        script_len: (0, 60),
        fault: (1, 3),
        fault_kinds: vec![1, 2, 3, 3],
        chunks: vec![1, 1, 2, 3, 5, 8, 1000, 1000, 1000],
        ack_rc: (1, 6),
        setpid: (0, 1),
    }
}

pub fn profile(name: &str) -> Profile {
    let mut p = base_profile();
    match name {
        "c01" => {
            p.chunks = vec![1, 1, 1, 2, 3, 1000];
            p.fault = (1, 2);
            p.w_inbound = 4;
            p.conns = (1, 4);
        }
        "c02" => {
            p.w_pub = [1, 8, 1];
            p.w_sub = 0;
            p.w_unsub = 0;
            p.w_inbound = 0;
            p.w_garbage = 0;
            p.conns = (2, 5);
            p.resume = (9, 10);
            p.bad_connack = (1, 40);
            p.tx = vec![128, 256, 1152];
            p.w_drop = 3;
            p.invalid_props = (0, 1);
        }
        "c03" => {
            p.w_pub = [0, 1, 8];
            p.w_sub = 0;
            p.w_unsub = 0;
            p.w_inbound = 0;
            p.w_garbage = 0;
            p.w_ack = 10;
            p.conns = (2, 5);
            p.resume = (9, 10);
            p.bad_connack = (1, 40);
            p.tx = vec![128, 256, 1152];
            p.w_drop = 2;
            p.invalid_props = (0, 1);
        }
        "c04" => {
            p.w_pub = [1, 1, 1];
            p.w_inbound = 12;
            p.w_ack = 1;
            p.w_sub = 0;
            p.w_unsub = 0;
            p.conns = (1, 3);
            p.resume = (3, 4);
            p.tx = vec![16, 24, 64, 128];
            p.auto = (0, 1);
        }
        "c05" => {
            p.conns = (2, 6);
            p.ops = (0, 6);
            p.resume = (1, 2);
            p.bad_connack = (1, 4);
            p.will_auth = (1, 3);
        }
        "c06" => {
            p.w_pub = [1, 6, 6];
            p.w_sub = 1;
            p.w_unsub = 0;
            p.w_inbound = 0;
            p.w_garbage = 0;
            p.w_ack = 8;
            p.conns = (1, 4);
            p.resume = (9, 10);
            p.tx = vec![256, 1152];
            p.auto = (1, 6);
            p.payloads = vec![0, 1, 2];
            p.invalid_props = (0, 1);
        }
        "c07" => {
            p.w_pub = [0, 4, 4];
            p.w_sub = 3;
            p.w_unsub = 3;
            p.w_inbound = 0;
            p.w_garbage = 0;
            p.tx = vec![256, 1152];
            p.payloads = vec![0, 1];
            p.fault = (1, 6);
            p.setpid = (2, 3);
            p.conns = (2, 5);
            p.resume = (9, 10);
            p.bad_connack = (1, 40);
        }
        "c08" => {
            p.w_garbage = 8;
            p.w_inbound = 6;
            p.bad_connack = (1, 3);
            p.rx = vec![4, 8, 16, 32, 64];
        }
        "c10" => {
            p.ka = vec![0, 1, 2, 4, 5, 9, 10, 60, 65535];
            p.w_advance = 8;
            p.w_poll = 8;
            p.w_recv = 2;
            p.w_pub = [2, 1, 0];
            p.w_sub = 0;
            p.w_unsub = 0;
            p.w_garbage = 0;
            p.w_inbound = 1;
            p.fault = (1, 8);
            p.invalid_props = (0, 1);
        }
        "c11" => {
            p.fault = (1, 1);
            p.fault_kinds = vec![1, 1, 2];
            p.w_garbage = 3;
            p.w_disconnect = 3;
            p.ka = vec![0, 0, 1, 5];
            p.w_advance = 1;
        }
        "c12" => {
            p.fault = (2, 3);
            p.conns = (2, 5);
            p.bad_connack = (1, 3);
            p.tx = vec![24, 32, 48, 64, 96, 128];
        }
        "c13" => {
            // time passes between a dropped future and the call that resumes its packet: a PINGREQ (another queue)
            // may fall due while a retained packet is half written
            p.ka = vec![0, 0, 1, 2, 5, 10];
            p.w_advance = 3;
            p.w_garbage = 0;
        }
        "c14" => {
            p.limits = true;
            p.payloads = vec![0, 1, 2, 3, 4, 5, 6, 7, 8, 9, 10, 12, 14, 16, 20, 30];
            p.rx = vec![4, 6, 8, 12, 16, 32, 64];
            p.w_inbound = 5;
            p.resume = (9, 10);
            p.conns = (1, 4);
        }
        "c16" => {
            p.auto = (1, 1);
            p.fault = (1, 2);
            p.conns = (1, 3);
            p.w_garbage = 0;
            p.bad_connack = (1, 40);
            p.invalid_props = (0, 1);
        }
        "c17" => {
            p.tx = vec![16, 24, 32, 48, 64, 96, 128, 256, 1152];
            p.ops = (10, 40);
            p.payloads = vec![0, 1, 2, 3, 5, 8, 13, 20, 40, 100, 300];
            p.w_pub = [3, 6, 4];
            p.w_ack = 10;
            p.w_inbound = 0;
            p.w_garbage = 0;
            p.fault = (1, 6);
            p.invalid_props = (0, 1);
            // sessions that end with packets in flight and are followed by a fresh one: what the old session held is
            // discarded, and the arena must offer its whole capacity again
            p.conns = (1, 5);
            p.resume = (1, 2);
        }
        "c18" => {
            p.w_ack = 10;
            p.ack_rc = (1, 3);
            p.conns = (1, 4);
            p.resume = (1, 2);
            p.w_inbound = 0;
            p.w_garbage = 0;
        }
        "c19" => {
            p.invalid_props = (1, 2);
            p.fault = (0, 1);
            p.w_inbound = 0;
            p.w_garbage = 0;
            p.downgrade = (1, 2);
            p.w_disconnect = 3;
        }
        _ => {}
    }
    p
}

pub fn rand_cfg(r: &mut Rng, p: &Profile) -> Cfg {
    Cfg {
        rx: *r.pick(&p.rx),
        tx: *r.pick(&p.tx),
        cid: r.pick(&[&b""[..], b"t", b"client-1"]).to_vec(),
        ka: *r.pick(&p.ka),
        expiry: *r.pick(&[0u64, 3600]),
        downgrade: r.chance(p.downgrade.0, p.downgrade.1),
        will: r.chance(p.will_auth.0, p.will_auth.1),
        auth: r.chance(p.will_auth.0, p.will_auth.1),
    }
}

pub fn a_connect(chunks: &[(u64, Vec<u8>)]) -> Emit {
    let mut e = Emit::default();
    e.n(0).n(chunks.len() as u64);
    for (d, b) in chunks {
        e.n(*d).bytes(b);
    }
    e
}
pub fn a_publish(topic: &[u8], corr: Option<&[u8]>, props: &[OProp], qos: u64, payload: &[u8], retain: bool) -> Emit {
    let mut e = Emit::default();
    e.n(1).bytes(topic);
    match corr {
        None => {
            e.n(0);
        }
        Some(c) => {
            e.n(1).bytes(c);
        }
    }
    e.props(props).n(qos).bytes(payload).b(retain);
    e
}
pub fn a_subscribe(props: &[OProp], topics: &[(&[u8], u64, bool, bool, u64)]) -> Emit {
    let mut e = Emit::default();
    e.n(2).props(props).n(topics.len() as u64);
    for (t, q, nl, rap, rh) in topics {
        e.bytes(t).n(*q).b(*nl).b(*rap).n(*rh);
    }
    e
}
pub fn a_unsubscribe(props: &[OProp], topics: &[&[u8]]) -> Emit {
    let mut e = Emit::default();
    e.n(3).props(props).n(topics.len() as u64);
    for t in topics {
        e.bytes(t);
    }
    e
}
pub fn a_disconnect(reason: Option<u64>, props: Option<&[OProp]>) -> Emit {
    let mut e = Emit::default();
    e.n(4);
    match reason {
        None => e.n(0),
        Some(r) => e.n(1).n(r),
    };
    match props {
        None => e.n(0),
        Some(ps) => e.n(1).props(ps),
    };
    e
}
pub fn a_simple(k: u64) -> Emit {
    let mut e = Emit::default();
    e.n(k);
    e
}
pub fn a_feed(delay: u64, bytes: &[u8]) -> Emit {
    let mut e = Emit::default();
    e.n(8).n(delay).bytes(bytes);
    e
}
pub fn a_num(k: u64, v: u64) -> Emit {
    let mut e = Emit::default();
    e.n(k).n(v);
    e
}
pub const DRIVE: u64 = 5;
pub const POLL: u64 = 6;
pub const RECV: u64 = 7;
pub const DROP: u64 = 10;
pub const HD: u64 = 11;

pub fn rand_connack(r: &mut Rng, sp: bool, limits: bool, bad: (u64, u64)) -> Vec<u8> {
    let mut props = Vec::new();
    if limits && r.chance(1, 2) {
        props.push(numprop(17, *r.pick(&[1u64, 1, 2, 3, 7, 8, 9, 65535])));
    }
    if limits && r.chance(1, 4) {
        props.push(numprop(23, *r.pick(&[2u64, 4, 5, 8, 12, 16, 20, 30, 64, 1000])));
    }
    if limits && r.chance(1, 4) {
        props.push(numprop(20, r.below(3)));
    }
    if limits && r.chance(1, 5) {
        props.push(numprop(8, *r.pick(&[0u64, 1, 2, 7, 10, 30])));
    }
    if r.chance(1, 8) {
        props.push(strprop(7, b"assigned-id"));
    }
    if r.chance(bad.0, bad.1 * 3) {
        props.push(numprop(17, 0));
    }
    if r.chance(bad.0, bad.1 * 3) {
        props.push(numprop(20, 3));
    }
    let rc = if r.chance(bad.0, bad.1) { *r.pick(&[0x80u8, 0x87, 0x89]) } else { 0 };
    connack(sp && rc == 0, rc, &props)
}

fn pub_props(r: &mut Rng) -> Vec<OProp> {
    let kinds = [0u8, 1, 2, 3, 4, 22, 19];
    let n = if r.chance(2, 3) { 0 } else { r.range(1, 3) };
    (0..n)
        .map(|_| {
            let k = *r.pick(&kinds);
            let mut p = rand_prop_of_kind(r, k);
            if k == 0 {
                p.num %= 2;
            }
            if k == 19 && p.num == 0 {
                p.num = 1;
            }
            p
        })
        .collect()
}

fn payload(r: &mut Rng, p: &Profile) -> Vec<u8> {
    let n = *r.pick(&p.payloads);
    r.bytes(n)
}

fn bump(pid: u16) -> u16 {
    if pid == 65535 { 1 } else { pid + 1 }
}

/// One random program under a profile: a few connections, mixed operations, manual or automatic broker.
pub fn gen_case(r: &mut Rng, p: &Profile) -> Case {
    let cfg = rand_cfg(r, p);
    let mut actions = Vec::new();
    let mut next_pid: u16 = 1; // the generator's guess of the client's next identifier
    let mut inflight: Vec<(u16, u8)> = Vec::new(); // (pid, kind 1=q1 2=q2 3=sub 4=unsub 5=rel)
    let mut srv_pending: Vec<u16> = Vec::new();
    let auto = r.chance(p.auto.0, p.auto.1);
    let conns = r.range(p.conns.0, p.conns.1);
    let mut connected_once = false;
    let weights: Vec<(u64, u8)> = vec![
        (p.w_pub[0], 0), (p.w_pub[1], 1), (p.w_pub[2], 2), (p.w_sub, 3), (p.w_unsub, 4), (p.w_drive, 5),
        (p.w_poll, 6), (p.w_recv, 7), (if auto { 0 } else { p.w_ack }, 8), (p.w_inbound, 9), (p.w_advance, 10),
        (p.w_garbage, 11), (p.w_disconnect, 12), (p.w_drop, 13),
    ];
    let total: u64 = weights.iter().map(|w| w.0).sum();
    for _ in 0..conns {
        if auto {
            actions.push(a_num(12, 1));
        }
        if r.chance(p.setpid.0, p.setpid.1) {
            // the hook is only honoured while no handle exists
            actions.push(a_simple(DROP));
            let v = if !inflight.is_empty() && r.chance(1, 2) {
                let base = inflight[r.below(inflight.len() as u64) as usize].0 as u64;
                (base + 65535 - r.below(3)) % 65535 + 1
            } else {
                *r.pick(&[65533u64, 65534, 65535, 0, 1, 2])
            };
            actions.push(a_num(13, v));
            next_pid = if v == 0 { 1 } else { v as u16 };
        }
        let sp = connected_once && r.chance(p.resume.0, p.resume.1);
        let mut chunks = Vec::new();
        if r.chance(p.bad_connack.0, p.bad_connack.1 * 2) {
            match r.below(4) {
                0 => {}
                1 => chunks.push((0, vec![0x20, 0x02, 0x00])),
                2 => chunks.push((0, packet(0xE0, &[0x89]))),
                _ => chunks.push((0, vec![0x90, 0x03, 0, 1, 0])),
            }
        } else {
            let c = rand_connack(r, sp, p.limits, p.bad_connack);
            if r.chance(1, 5) {
                let k = r.below(c.len() as u64) as usize;
                chunks.push((0, c[..k].to_vec()));
                chunks.push((r.below(3), c[k..].to_vec()));
            } else {
                chunks.push((0, c));
            }
            if !sp {
                next_pid = 1;
                inflight.clear();
                srv_pending.clear();
            }
            connected_once = true;
        }
        actions.push(a_connect(&chunks));
        let nops = r.range(p.ops.0, p.ops.1);
        for _ in 0..nops {
            let mut x = r.below(total.max(1));
            let mut sel = 6u8;
            for (w, k) in &weights {
                if x < *w {
                    sel = *k;
                    break;
                }
                x -= *w;
            }
            match sel {
                0..=2 => {
                    let qos = sel as u64;
                    let topic = rand_str(r);
                    let corr = if r.chance(1, 6) { Some(rand_bin(r)) } else { None };
                    let mut props = pub_props(r);
                    if r.chance(p.invalid_props.0, p.invalid_props.1) {
                        match r.below(4) {
                            0 => props.push(numprop(17, 3)),
                            1 => props.push(numprop(0, 2)),
                            2 => props.push(numprop(19, 0)),
                            _ => props.push(numprop(5, 1)),
                        }
                    }
                    let pl = payload(r, p);
                    actions.push(a_publish(&topic, corr.as_deref(), &props, qos, &pl, r.chance(1, 4)));
                    if qos > 0 {
                        inflight.push((next_pid, qos as u8));
                        next_pid = bump(next_pid);
                    }
                }
                3 => {
                    let n = if r.chance(1, 8) { 0 } else { r.range(1, 2) };
                    let names: Vec<Vec<u8>> = (0..n).map(|_| rand_str(r)).collect();
                    let topics: Vec<(&[u8], u64, bool, bool, u64)> =
                        names.iter().map(|t| (&t[..], r.below(3), r.chance(1, 2), r.chance(1, 2), r.below(3))).collect();
                    let mut props = if r.chance(1, 4) { vec![numprop(5, *r.pick(&[1u64, 127, 128, 268_435_455]))] } else { vec![] };
                    if r.chance(p.invalid_props.0, p.invalid_props.1) {
                        props.push(if r.chance(1, 2) { numprop(5, 0) } else { strprop(2, b"x") });
                    }
                    actions.push(a_subscribe(&props, &topics));
                    if n > 0 {
                        inflight.push((next_pid, 3));
                        next_pid = bump(next_pid);
                    }
                }
                4 => {
                    let n = if r.chance(1, 8) { 0 } else { r.range(1, 2) };
                    let names: Vec<Vec<u8>> = (0..n).map(|_| rand_str(r)).collect();
                    let topics: Vec<&[u8]> = names.iter().map(|t| &t[..]).collect();
                    let props = if r.chance(p.invalid_props.0, p.invalid_props.1) { vec![numprop(1, 5)] } else { vec![] };
                    actions.push(a_unsubscribe(&props, &topics));
                    if n > 0 {
                        inflight.push((next_pid, 4));
                        next_pid = bump(next_pid);
                    }
                }
                5 => actions.push(a_simple(DRIVE)),
                6 => actions.push(a_simple(POLL)),
                7 => actions.push(a_simple(RECV)),
                8 => {
                    let bytes = if !inflight.is_empty() && r.chance(5, 6) {
                        let i = r.below(inflight.len() as u64) as usize;
                        let (pid, kind) = inflight[i];
                        let rc = if r.chance(p.ack_rc.0, p.ack_rc.1) { Some(*r.pick(&[0x80u8, 0x10, 0x97, 0x92])) } else if r.chance(1, 2) { Some(0) } else { None };
                        match kind {
                            1 => {
                                inflight.remove(i);
                                ack(4, pid, rc)
                            }
                            2 => {
                                if rc.is_some_and(|c| c >= 0x80) {
                                    inflight.remove(i);
                                } else {
                                    inflight[i].1 = 5;
                                }
                                ack(5, pid, rc)
                            }
                            5 => {
                                inflight.remove(i);
                                ack(7, pid, rc)
                            }
                            3 => {
                                inflight.remove(i);
                                // one code per filter; mixed grants and refusals in either order
                                let codes: Vec<u8> = (0..r.range(1, 3)).map(|_| *r.pick(&[0u8, 0, 1, 2, 0x80, 0x87, 0x97])).collect();
                                suback(9, pid, &codes)
                            }
                            _ => {
                                inflight.remove(i);
                                let codes: Vec<u8> = (0..r.range(1, 3)).map(|_| *r.pick(&[0u8, 0, 0x11, 0x80, 0x87])).collect();
                                suback(11, pid, &codes)
                            }
                        }
                    } else {
                        let pid = *r.pick(&[1u16, 2, 3, 9, 65535]);
                        match r.below(5) {
                            0 => ack(4, pid, None),
                            1 => ack(5, pid, Some(0)),
                            2 => ack(7, pid, None),
                            3 => suback(9, pid, &[0]),
                            _ => packet(0xD0, &[]),
                        }
                    };
                    actions.push(a_feed(r.below(3) * r.below(2), &bytes));
                    if r.chance(2, 3) {
                        actions.push(a_simple(POLL));
                    }
                }
                9 => {
                    let qos = r.below(3) as u8;
                    let pid = if !srv_pending.is_empty() && r.chance(1, 3) { *r.pick(&srv_pending) } else { *r.pick(&[1u16, 2, 3, 4, 5, 6, 7, 8, 9, 10, 300]) };
                    let props = if r.chance(1, 3) { vec![strprop(3, b"re/ply"), strprop(4, b"cd")] } else { vec![] };
                    let bytes = publish(qos, pid, &rand_str(r), &payload(r, p), &props, r.chance(1, 4), r.chance(1, 4));
                    if qos == 2 && !srv_pending.contains(&pid) {
                        srv_pending.push(pid);
                    }
                    actions.push(a_feed(0, &bytes));
                    actions.push(a_simple(*r.pick(&[POLL, RECV, DRIVE])));
                    if r.chance(1, 2) {
                        actions.push(a_simple(POLL));
                    }
                    if qos == 2 && r.chance(1, 2) {
                        srv_pending.retain(|p| *p != pid);
                        actions.push(a_feed(0, &ack(6, pid, None)));
                        actions.push(a_simple(POLL));
                    }
                }
                10 => actions.push(a_num(9, *r.pick(&[1u64, 10, 400, 499, 500, 501, 999, 1000, 1001, 2500, 4999, 5000, 5001, 30000, 60000]))),
                11 => {
                    let garbage = match r.below(5) {
                        0 => vec![0x00, 0x00],
                        1 => vec![0x10, 0x00],
                        // a broker DISCONNECT: without a reason, normal, or with the failure codes brokers really send
                        2 => packet(0xE0, *r.pick(&[&[][..], &[0x00], &[0x8E], &[0x98, 0x00], &[0x8B], &[0x81, 0x00]])),
                        3 => vec![0x30, 0xFF, 0xFF, 0xFF, 0x7F],
                        _ => {
                            let n = r.range(1, 6) as usize;
                            r.bytes(n)
                        }
                    };
                    actions.push(a_feed(0, &garbage));
                    actions.push(a_simple(POLL));
                }
                12 => {
                    match r.below(5) {
                        0 | 1 => actions.push(a_disconnect(None, None)),
                        2 => actions.push(a_disconnect(Some(4), None)),
                        3 => actions.push(a_disconnect(Some(0), Some(&[strprop(16, b"bye")]))),
                        _ => {
                            if r.chance(p.invalid_props.0, p.invalid_props.1) {
                                actions.push(a_disconnect(Some(0), Some(&[numprop(17, 1)])))
                            } else if r.chance(1, 2) {
                                actions.push(a_disconnect(Some(0), Some(&[])))
                            } else {
                                actions.push(a_disconnect(None, Some(&[])))
                            }
                        }
                    };
                }
                _ => {
                    if r.chance(1, 2) {
                        actions.push(a_simple(HD));
                    } else {
                        actions.push(a_simple(DROP));
                        break;
                    }
                }
            }
        }
        if r.chance(1, 2) {
            actions.push(a_simple(DROP));
        }
    }
    let faulty = r.chance(p.fault.0, p.fault.1);
    // one script in six belongs to a transport on which a write can take time (kinds 4 / 5: the call lasts `amt` ms of
    // virtual time and then accepts one byte / everything)
    let slow = r.chance(1, 6);
    let n = r.range(p.script_len.0, p.script_len.1);
    let script = (0..n)
        .map(|_| {
            if faulty && r.chance(1, 10) {
                (*r.pick(&p.fault_kinds), 0)
            } else if slow && r.chance(1, 10) {
                (*r.pick(&[4u64, 5]), *r.pick(&[1u64, 100, 499, 500, 501, 1000, 2500, 4999, 5000, 5001, 12000]))
            } else {
                (0, *r.pick(&p.chunks))
            }
        })
        .collect();
    Case { cfg: emit_cfg(&cfg), actions, script }
}

pub fn sess_profile(r: &mut Rng, name: &str, count: usize) -> Vec<String> {
    let p = profile(name);
    (0..count).map(|_| gen_case(r, &p).line()).collect()
}

/// Systematic fault sweep: for a base program with an all-ok script, one variant per (I/O index k, fault kind):
/// the first k I/O calls succeed (whole buffers, or `chunk` bytes at a time), call k gets the fault.
/// Every variant ends with a healthy reconnect to a conformant broker, a QoS 1 publish and a poll (C12).
pub fn sess_sweep(r: &mut Rng, name: &str, count: usize) -> Vec<String> {
    let mut p = profile(name);
    p.fault = (0, 1);
    p.script_len = (0, 0);
    p.conns = (1, 2);
    p.ops = (2, 7);
    let mut out = Vec::new();
    while out.len() < count {
        let mut case = gen_case(r, &p);
        // probes on the same handle, then a healthy reconnect
        case.actions.push(a_simple(POLL));
        case.actions.push(a_publish(b"probe", None, &[], 1, b"p", false));
        case.actions.push(a_simple(DRIVE));
        case.actions.push(a_disconnect(None, None));
        case.actions.push(a_subscribe(&[], &[(b"x", 0, false, false, 0)]));
        if r.chance(1, 3) {
            case.actions.push(a_num(12, 1));
            case.actions.push(a_connect(&[(0, connack(true, 0, &[]))]));
        } else {
            // a conformant broker: CONNACK success, session present iff the CONNECT carried no clean start
            case.actions.push(a_num(12, 2));
            case.actions.push(a_connect(&[]));
        }
        case.actions.push(a_publish(b"after", None, &[], 1, b"q", false));
        case.actions.push(a_simple(POLL));
        case.actions.push(a_simple(POLL));
        let chunk = *r.pick(&[1_000_000u64, 1_000_000, 1, 3]);
        case.script = Vec::new();
        let base = crate::run_line(&case.line());
        let n = base.split('|').filter(|l| l.starts_with("w ") || l.starts_with("r ") || l.starts_with("f ")).count();
        out.push(case.line());
        let step = (n / 24).max(1);
        let mut k = r.below(step as u64) as usize;
        while k < n && out.len() < count {
            for kind in [1u64, 2, 3] {
                let mut c2 = Case { cfg: case.cfg.clone(), actions: case.actions.clone(), script: Vec::new() };
                c2.script = (0..k).map(|_| (0, chunk)).collect();
                c2.script.push((kind, 0));
                out.push(c2.line());
            }
            k += step;
        }
    }
    out.truncate(count);
    out
}


/// C16: any generated history, then a benign continuation: the transport heals, the broker answers everything
/// (mode 2: also the CONNECT, session present iff no clean start was asked for), the connection is re-established
/// if it was lost (or always, 50%), and poll() is called repeatedly.
pub fn sess_drain(r: &mut Rng, name: &str, count: usize) -> Vec<String> {
    let p = profile(name);
    let mut out = Vec::new();
    while out.len() < count {
        let mut case = gen_case(r, &p);
        case.actions.push(a_simple(14));
        case.actions.push(a_num(12, 2));
        let style = r.below(3);
        if style == 0 {
            // keep the handle if there is one; a poll on a dead handle fails, then reconnect
            case.actions.push(a_simple(POLL));
            case.actions.push(a_simple(POLL));
        }
        // packets already handed to the old transport may never be answered: replay them on a new connection
        let _ = style;
        case.actions.push(a_simple(10));
        case.actions.push(a_connect(&[]));
        for _ in 0..40 {
            case.actions.push(a_simple(POLL));
        }
        out.push(case.line());
    }
    out
}
