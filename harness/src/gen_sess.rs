//! Generators for session-level cases (cmd 10).
use crate::gen_codec::{enc_props, lp, packet, rand_bin, rand_prop_of_kind, rand_str};
use crate::rng::Rng;
use crate::tok::{Emit, OProp};

// ---------- broker-side packets ----------
pub fn connack(sp: bool, rc: u8, props: &[OProp]) -> Vec<u8> {
    let mut body = vec![sp as u8, rc];
    body.extend(enc_props(props));
    packet(0x20, &body)
}
pub fn numprop(kind: u8, num: u64) -> OProp {
    OProp { kind, num, data: vec![], data2: vec![] }
}
pub fn strprop(kind: u8, s: &[u8]) -> OProp {
    OProp { kind, num: 0, data: s.to_vec(), data2: vec![] }
}
pub fn ack(typ: u8, pid: u16, rc: Option<u8>) -> Vec<u8> {
    let mut body = pid.to_be_bytes().to_vec();
    if let Some(rc) = rc {
        body.push(rc);
    }
    packet((typ << 4) | if typ == 6 { 2 } else { 0 }, &body)
}
pub fn suback(typ: u8, pid: u16, codes: &[u8]) -> Vec<u8> {
    let mut body = pid.to_be_bytes().to_vec();
    body.push(0);
    body.extend_from_slice(codes);
    packet(typ << 4, &body)
}
pub fn publish(qos: u8, pid: u16, topic: &[u8], payload: &[u8], props: &[OProp], dup: bool, retain: bool) -> Vec<u8> {
    let mut body = lp(topic);
    if qos > 0 {
        body.extend_from_slice(&pid.to_be_bytes());
    }
    body.extend(enc_props(props));
    body.extend_from_slice(payload);
    packet(0x30 | (qos << 1) | retain as u8 | ((dup as u8) << 3), &body)
}

// ---------- program builder ----------
pub struct Case {
    pub cfg: Emit,
    pub actions: Vec<Emit>,
    pub script: Vec<(u64, u64)>,
}

impl Case {
    pub fn line(&self) -> String {
        let mut e = Emit::default();
        e.n(10);
        e.0.extend(self.cfg.0.iter());
        e.n(self.actions.len() as u64);
        for a in &self.actions {
            e.0.extend(a.0.iter());
        }
        e.n(self.script.len() as u64);
        for (k, a) in &self.script {
            e.n(*k).n(*a);
        }
        e.line()
    }
}

pub struct Cfg {
    pub rx: u64,
    pub tx: u64,
    pub cid: Vec<u8>,
    pub ka: u64,
    pub expiry: u64,
    pub downgrade: bool,
    pub will: bool,
    pub auth: bool,
}

pub fn emit_cfg(c: &Cfg) -> Emit {
    let mut e = Emit::default();
    e.n(c.rx).n(c.tx).bytes(&c.cid).n(c.ka).n(c.expiry).b(c.downgrade);
    if c.will {
        e.n(1).bytes(b"w/t").bytes(b"gone").n(1).b(true).props(&[numprop(12, 5), numprop(0, 1)]);
    } else {
        e.n(0);
    }
    if c.auth {
        e.n(1).bytes(b"user").bytes(b"pw");
    } else {
        e.n(0);
    }
    e
}

pub fn rand_cfg(r: &mut Rng) -> Cfg {
    Cfg {
        rx: *r.pick(&[8u64, 16, 32, 64, 64, 128, 128]),
        tx: *r.pick(&[16u64, 24, 32, 48, 64, 96, 128, 128, 256, 1152]),
        cid: r.pick(&[&b""[..], b"t", b"client-1"]).to_vec(),
        ka: *r.pick(&[0u64, 0, 1, 2, 4, 5, 9, 10, 60, 60, 65535]),
        expiry: *r.pick(&[0u64, 3600]),
        downgrade: r.chance(1, 3),
        will: r.chance(1, 6),
        auth: r.chance(1, 6),
    }
}

pub fn a_connect(chunks: &[(u64, Vec<u8>)]) -> Emit {
    let mut e = Emit::default();
    e.n(0).n(chunks.len() as u64);
    for (d, b) in chunks {
        e.n(*d).bytes(b);
    }
    e
}
pub fn a_publish(topic: &[u8], corr: Option<&[u8]>, props: &[OProp], qos: u64, payload: &[u8], retain: bool) -> Emit {
    let mut e = Emit::default();
    e.n(1).bytes(topic);
    match corr {
        None => {
            e.n(0);
        }
        Some(c) => {
            e.n(1).bytes(c);
        }
    }
    e.props(props).n(qos).bytes(payload).b(retain);
    e
}
pub fn a_subscribe(props: &[OProp], topics: &[(&[u8], u64, bool, bool, u64)]) -> Emit {
    let mut e = Emit::default();
    e.n(2).props(props).n(topics.len() as u64);
    for (t, q, nl, rap, rh) in topics {
        e.bytes(t).n(*q).b(*nl).b(*rap).n(*rh);
    }
    e
}
pub fn a_unsubscribe(props: &[OProp], topics: &[&[u8]]) -> Emit {
    let mut e = Emit::default();
    e.n(3).props(props).n(topics.len() as u64);
    for t in topics {
        e.bytes(t);
    }
    e
}
pub fn a_disconnect(reason: Option<u64>, props: Option<&[OProp]>) -> Emit {
    let mut e = Emit::default();
    e.n(4);
    match reason {
        None => e.n(0),
        Some(r) => e.n(1).n(r),
    };
    match props {
        None => e.n(0),
        Some(ps) => e.n(1).props(ps),
    };
    e
}
pub fn a_simple(k: u64) -> Emit {
    let mut e = Emit::default();
    e.n(k);
    e
}
pub fn a_feed(delay: u64, bytes: &[u8]) -> Emit {
    let mut e = Emit::default();
    e.n(8).n(delay).bytes(bytes);
    e
}
pub fn a_num(k: u64, v: u64) -> Emit {
    let mut e = Emit::default();
    e.n(k).n(v);
    e
}
pub const DRIVE: u64 = 5;
pub const POLL: u64 = 6;
pub const RECV: u64 = 7;
pub const DROP: u64 = 10;
pub const HD: u64 = 11;

pub fn rand_connack(r: &mut Rng, sp: bool) -> Vec<u8> {
    let mut props = Vec::new();
    if r.chance(1, 2) {
        props.push(numprop(17, *r.pick(&[1u64, 1, 2, 3, 7, 8, 9, 65535])));
    }
    if r.chance(1, 4) {
        props.push(numprop(23, *r.pick(&[2u64, 4, 5, 8, 12, 16, 20, 30, 64, 1000])));
    }
    if r.chance(1, 4) {
        props.push(numprop(20, r.below(3)));
    }
    if r.chance(1, 5) {
        props.push(numprop(8, *r.pick(&[0u64, 1, 2, 7, 10, 30])));
    }
    if r.chance(1, 8) {
        props.push(strprop(7, b"assigned-id"));
    }
    if r.chance(1, 30) {
        props.push(numprop(17, 0));
    }
    if r.chance(1, 30) {
        props.push(numprop(20, 3));
    }
    let rc = if r.chance(1, 12) { *r.pick(&[0x80u8, 0x87, 0x89]) } else { 0 };
    connack(sp && rc == 0, rc, &props)
}

fn pub_props(r: &mut Rng) -> Vec<OProp> {
    let kinds = [0u8, 1, 2, 3, 4, 22, 19];
    let n = if r.chance(2, 3) { 0 } else { r.range(1, 3) };
    (0..n)
        .map(|_| {
            let k = *r.pick(&kinds);
            let mut p = rand_prop_of_kind(r, k);
            if k == 0 {
                p.num %= 2;
            }
            if k == 19 && p.num == 0 {
                p.num = 1;
            }
            p
        })
        .collect()
}

fn payload(r: &mut Rng) -> Vec<u8> {
    let n = *r.pick(&[0usize, 1, 2, 3, 5, 8, 13, 20, 40, 100]);
    r.bytes(n)
}

/// One random program: a few connections, mixed operations, manual or automatic broker.
pub fn rand_case(r: &mut Rng) -> Case {
    let cfg = rand_cfg(r);
    let mut actions = Vec::new();
    let mut next_pid: u16 = 1; // the generator's guess of the client's next identifier
    let mut inflight: Vec<(u16, u8)> = Vec::new(); // (pid, kind 1=q1 2=q2 3=sub 4=unsub 5=rel)
    let mut srv_pending: Vec<u16> = Vec::new();
    let auto = r.chance(1, 3);
    let conns = r.range(1, 4);
    let mut connected_once = false;
    for _ in 0..conns {
        if auto {
            actions.push(a_num(12, 1));
        }
        // connect
        let sp = connected_once && r.chance(3, 4);
        let mut chunks = Vec::new();
        match r.below(20) {
            0 => {} // no CONNACK: connect is dropped while waiting
            1 => chunks.push((0, vec![0x20, 0x02, 0x00])),
            2 => chunks.push((0, packet(0xE0, &[0x89]))),
            3 => chunks.push((0, vec![0x90, 0x03, 0, 1, 0])),
            _ => {
                let c = rand_connack(r, sp);
                if r.chance(1, 5) {
                    let k = r.below(c.len() as u64) as usize;
                    chunks.push((0, c[..k].to_vec()));
                    chunks.push((r.below(3), c[k..].to_vec()));
                } else {
                    chunks.push((0, c));
                }
                if !sp {
                    next_pid = 1;
                    inflight.clear();
                    srv_pending.clear();
                }
                connected_once = true;
            }
        }
        actions.push(a_connect(&chunks));
        let nops = r.range(0, 12);
        for _ in 0..nops {
            match r.below(22) {
                0..=5 => {
                    let qos = r.below(3);
                    let topic = rand_str(r);
                    let corr = if r.chance(1, 6) { Some(rand_bin(r)) } else { None };
                    let mut props = pub_props(r);
                    if r.chance(1, 15) {
                        props.push(numprop(17, 3)); // not allowed on PUBLISH
                    }
                    let pl = payload(r);
                    actions.push(a_publish(&topic, corr.as_deref(), &props, qos, &pl, r.chance(1, 4)));
                    if qos > 0 {
                        inflight.push((next_pid, qos as u8));
                        next_pid = if next_pid == 65535 { 1 } else { next_pid + 1 };
                    }
                }
                6 => {
                    let n = r.range(0, 2);
                    let names: Vec<Vec<u8>> = (0..n).map(|_| rand_str(r)).collect();
                    let topics: Vec<(&[u8], u64, bool, bool, u64)> =
                        names.iter().map(|t| (&t[..], r.below(3), r.chance(1, 2), r.chance(1, 2), r.below(3))).collect();
                    let props = if r.chance(1, 4) { vec![numprop(5, *r.pick(&[0u64, 1, 127, 128, 268_435_455]))] } else { vec![] };
                    actions.push(a_subscribe(&props, &topics));
                    if n > 0 {
                        inflight.push((next_pid, 3));
                        next_pid = if next_pid == 65535 { 1 } else { next_pid + 1 };
                    }
                }
                7 => {
                    let n = r.range(0, 2);
                    let names: Vec<Vec<u8>> = (0..n).map(|_| rand_str(r)).collect();
                    let topics: Vec<&[u8]> = names.iter().map(|t| &t[..]).collect();
                    actions.push(a_unsubscribe(&[], &topics));
                    if n > 0 {
                        inflight.push((next_pid, 4));
                        next_pid = if next_pid == 65535 { 1 } else { next_pid + 1 };
                    }
                }
                8..=10 => actions.push(a_simple(*r.pick(&[DRIVE, POLL, POLL, RECV]))),
                11..=14 if !auto => {
                    // broker acknowledges something (mostly something in flight)
                    let bytes = if !inflight.is_empty() && r.chance(5, 6) {
                        let i = r.below(inflight.len() as u64) as usize;
                        let (pid, kind) = inflight[i];
                        let rc = if r.chance(1, 6) { Some(*r.pick(&[0x80u8, 0x10, 0x97, 0x92])) } else if r.chance(1, 2) { Some(0) } else { None };
                        match kind {
                            1 => {
                                inflight.remove(i);
                                ack(4, pid, rc)
                            }
                            2 => {
                                if rc.is_some_and(|c| c >= 0x80) {
                                    inflight.remove(i);
                                } else {
                                    inflight[i].1 = 5;
                                }
                                ack(5, pid, rc)
                            }
                            5 => {
                                inflight.remove(i);
                                ack(7, pid, rc)
                            }
                            3 => {
                                inflight.remove(i);
                                suback(9, pid, &[*r.pick(&[0u8, 1, 2, 0x80])])
                            }
                            _ => {
                                inflight.remove(i);
                                suback(11, pid, &[*r.pick(&[0u8, 0x11, 0x80])])
                            }
                        }
                    } else {
                        // stale / unexpected ack
                        let pid = *r.pick(&[1u16, 2, 3, 9, 65535]);
                        match r.below(5) {
                            0 => ack(4, pid, None),
                            1 => ack(5, pid, Some(0)),
                            2 => ack(7, pid, None),
                            3 => suback(9, pid, &[0]),
                            _ => packet(0xD0, &[]),
                        }
                    };
                    actions.push(a_feed(r.below(3) * r.below(2), &bytes));
                    if r.chance(2, 3) {
                        actions.push(a_simple(POLL));
                    }
                }
                15..=17 => {
                    // inbound publish from the broker
                    let qos = r.below(3) as u8;
                    let pid = if !srv_pending.is_empty() && r.chance(1, 3) { *r.pick(&srv_pending) } else { *r.pick(&[1u16, 2, 3, 4, 5, 6, 7, 8, 9, 10, 300]) };
                    let props = if r.chance(1, 3) { vec![strprop(3, b"re/ply"), strprop(4, b"cd")] } else { vec![] };
                    let bytes = publish(qos, pid, &rand_str(r), &payload(r), &props, r.chance(1, 4), r.chance(1, 4));
                    if qos == 2 && !srv_pending.contains(&pid) {
                        srv_pending.push(pid);
                    }
                    actions.push(a_feed(0, &bytes));
                    actions.push(a_simple(*r.pick(&[POLL, RECV, DRIVE])));
                    if qos == 2 && r.chance(1, 2) {
                        srv_pending.retain(|p| *p != pid);
                        actions.push(a_feed(0, &ack(6, pid, None)));
                        actions.push(a_simple(POLL));
                    }
                }
                18 => actions.push(a_num(9, *r.pick(&[1u64, 10, 400, 500, 999, 1000, 2500, 5000, 5001, 30000, 60000]))),
                19 => {
                    let garbage = match r.below(4) {
                        0 => vec![0x00, 0x00],
                        1 => vec![0x10, 0x00],
                        2 => packet(0xE0, &[]),
                        _ => { let n = r.range(1, 6) as usize; r.bytes(n) }
                    };
                    actions.push(a_feed(0, &garbage));
                    actions.push(a_simple(POLL));
                }
                20 => {
                    match r.below(4) {
                        0 => actions.push(a_disconnect(None, None)),
                        1 => actions.push(a_disconnect(Some(4), None)),
                        2 => actions.push(a_disconnect(Some(0), Some(&[strprop(16, b"bye")]))),
                        _ => actions.push(a_disconnect(Some(0), Some(&[numprop(17, 1)]))),
                    };
                }
                _ => actions.push(a_simple(*r.pick(&[DROP, HD, POLL, DRIVE]))),
            }
        }
        if r.chance(1, 2) {
            actions.push(a_simple(DROP));
        }
    }
    // script: mostly ok with random chunk sizes; sometimes faults
    let faulty = r.chance(1, 3);
    let n = r.range(0, 60);
    let script = (0..n)
        .map(|_| {
            if faulty && r.chance(1, 10) {
                (*r.pick(&[1u64, 2, 3, 3]), 0)
            } else {
                (0, *r.pick(&[1u64, 1, 2, 3, 5, 8, 1000, 1000, 1000]))
            }
        })
        .collect();
    Case { cfg: emit_cfg(&cfg), actions, script }
}

pub fn sess_random(r: &mut Rng, count: usize) -> Vec<String> {
    (0..count).map(|_| rand_case(r).line()).collect()
}
