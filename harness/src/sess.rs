//! Session-level cases (cmd 10): a program of API calls run against the real client over a scripted
//! transport and a virtual clock.  Mirrors coq/theories/Model/{Machine,Run}.v line by line.
use crate::codec::{
    ODisconnect, OPublish, OSubTopic, OWill, build_disconnect, build_filter, build_will, parse_disconnect,
    parse_sub_topic, parse_will, props_vec,
};
use crate::tok::{Bad, OProp, Toks};
use core::future::Future;
use core::pin::pin;
use core::sync::atomic::{AtomicU64, Ordering};
use core::task::{Context, Poll, Waker};
use minimq::{
    Buffers, ConfigBuilder, ConnectEvent, Connection, Error, InboundPublish, Op, PubError, Publication, QoS,
    Session,
};
use std::cell::RefCell;
use std::fmt::Write as _;
use std::rc::Rc;

// ---------------- virtual clock (embassy-time driver) ----------------
static NOW_TICKS: AtomicU64 = AtomicU64::new(0);
static WAKE_AT: AtomicU64 = AtomicU64::new(u64::MAX);

struct VirtualClock;
impl embassy_time_driver::Driver for VirtualClock {
    fn now(&self) -> u64 {
        NOW_TICKS.load(Ordering::SeqCst)
    }
    fn schedule_wake(&self, at: u64, _waker: &Waker) {
        WAKE_AT.store(at, Ordering::SeqCst);
    }
}
embassy_time_driver::time_driver_impl!(static DRIVER: VirtualClock = VirtualClock);

const TICKS_PER_MS: u64 = embassy_time_driver::TICK_HZ / 1000;

fn now_ms() -> u64 {
    NOW_TICKS.load(Ordering::SeqCst) / TICKS_PER_MS
}
fn set_now_ms(ms: u64) {
    NOW_TICKS.store(ms * TICKS_PER_MS, Ordering::SeqCst);
}

// ---------------- scripted transport ----------------
#[derive(Debug)]
pub struct IoErr;
impl core::fmt::Display for IoErr {
    fn fmt(&self, f: &mut core::fmt::Formatter<'_>) -> core::fmt::Result {
        f.write_str("scripted transport error")
    }
}
impl core::error::Error for IoErr {}
impl embedded_io::Error for IoErr {
    fn kind(&self) -> embedded_io::ErrorKind {
        embedded_io::ErrorKind::Other
    }
}

pub struct IoShared {
    script: Vec<(u64, u64)>,
    script_pos: usize,
    inq: Vec<(u64, Vec<u8>)>,
    last_arrival: u64,
    txbuf: Vec<u8>,
    broker: u64,
    log: Vec<String>,
    cancel: bool,
    cancel_unconsumed: bool,
    read_waiting: bool,
    io_count: u64,
    livelock: bool,
}

type Shared = Rc<RefCell<IoShared>>;

fn hex(out: &mut String, b: &[u8]) {
    for x in b {
        write!(out, "{:02x}", x).unwrap();
    }
}

fn varint_read(b: &[u8]) -> Result<Option<(u32, usize)>, ()> {
    // canonical MQTT varint: Ok(None) = need more bytes, Err = malformed
    let mut value = 0u32;
    for (i, shift) in [0u32, 7, 14, 21].into_iter().enumerate() {
        let Some(&byte) = b.get(i) else { return Ok(None) };
        let part = (byte & 0x7F) as u32;
        value |= part << shift;
        if byte & 0x80 == 0 {
            if shift != 0 && part == 0 {
                return Err(());
            }
            return Ok(Some((value, i + 1)));
        }
    }
    Err(())
}

fn broker_reply(mode: u64, pkt: &[u8]) -> Vec<u8> {
    let h = pkt[0];
    let typ = h >> 4;
    let Ok(Some((_, n))) = varint_read(&pkt[1..]) else { return vec![] };
    let body = &pkt[1 + n..];
    match typ {
        3 => {
            let q = (h >> 1) & 3;
            if body.len() < 2 {
                return vec![];
            }
            let tl = ((body[0] as usize) << 8) | body[1] as usize;
            let r = &body[2..];
            if r.len() < tl + 2 {
                return vec![];
            }
            let (a, b) = (r[tl], r[tl + 1]);
            match q {
                1 => vec![64, 2, a, b],
                2 => vec![80, 2, a, b],
                _ => vec![],
            }
        }
        6 if body.len() >= 2 => vec![112, 2, body[0], body[1]],
        8 if body.len() >= 2 => vec![144, 4, body[0], body[1], 0, 0],
        10 if body.len() >= 2 => vec![176, 4, body[0], body[1], 0, 0],
        12 => vec![208, 0],
        // mode 2: a conformant CONNACK (success; session present iff no clean start was asked for)
        1 if mode == 2 => match body.get(7) {
            Some(fl) => vec![32, 3, if fl & 2 != 0 { 0 } else { 1 }, 0, 0],
            None => vec![],
        },
        _ => vec![],
    }
}

impl IoShared {
    fn next_ev(&self) -> (u64, u64) {
        self.script.get(self.script_pos).copied().unwrap_or((0, 1_000_000_000))
    }
    fn consume(&mut self) {
        if self.script_pos < self.script.len() {
            self.script_pos += 1;
        }
        self.io_count += 1;
    }
    /// watchdog: an operation that performs this many I/O calls is looping without bound
    fn runaway(&mut self) -> bool {
        if self.io_count > IO_LIMIT {
            self.livelock = true;
            self.cancel = true;
            return true;
        }
        false
    }
    fn avail_len(&self) -> usize {
        let now = now_ms();
        self.inq.iter().take_while(|(t, _)| *t <= now).map(|(_, b)| b.len()).sum()
    }
    fn feed(&mut self, delay: u64, bytes: &[u8]) {
        if bytes.is_empty() {
            return;
        }
        let t = (now_ms() + delay).max(self.last_arrival);
        self.inq.push((t, bytes.to_vec()));
        self.last_arrival = t;
    }
    fn broker_feed(&mut self, accepted: &[u8]) {
        if self.broker == 0 {
            return;
        }
        self.txbuf.extend_from_slice(accepted);
        let mut replies = Vec::new();
        loop {
            if self.txbuf.is_empty() {
                break;
            }
            match varint_read(&self.txbuf[1..]) {
                Ok(None) => break,
                Err(()) => {
                    self.txbuf.clear();
                    break;
                }
                Ok(Some((n, used))) => {
                    let total = 1 + used + n as usize;
                    if self.txbuf.len() < total {
                        break;
                    }
                    replies.extend(broker_reply(self.broker, &self.txbuf[..total]));
                    self.txbuf.drain(..total);
                }
            }
        }
        if !replies.is_empty() {
            let t = now_ms().max(self.last_arrival);
            self.inq.push((t, replies));
            self.last_arrival = t;
        }
    }
    /// take n bytes from the available front of the inbound queue
    fn take(&mut self, n: usize) -> Vec<u8> {
        let now = now_ms();
        let mut avail = Vec::new();
        let mut k = 0;
        while k < self.inq.len() && self.inq[k].0 <= now {
            avail.extend_from_slice(&self.inq[k].1);
            k += 1;
        }
        self.inq.drain(..k);
        let rest = avail.split_off(n);
        if !rest.is_empty() {
            self.inq.insert(0, (now, rest));
        }
        avail
    }
}

struct Guard {
    shared: Shared,
    label: String,
    done: bool,
}
impl Drop for Guard {
    fn drop(&mut self) {
        if !self.done && !std::thread::panicking() {
            let l = format!("{}drop", self.label);
            self.shared.borrow_mut().log.push(l);
        }
    }
}

pub struct ScriptIo {
    shared: Shared,
}

impl embedded_io::ErrorType for ScriptIo {
    type Error = IoErr;
}

impl embedded_io_async::Read for ScriptIo {
    async fn read(&mut self, buf: &mut [u8]) -> Result<usize, IoErr> {
        let window = buf.len();
        if window == 0 {
            self.shared.borrow_mut().log.push("r 0 0 ".into());
            return Ok(0);
        }
        let mut guard = Guard { shared: self.shared.clone(), label: format!("r {} ", window), done: false };
        let shared = self.shared.clone();
        let res = core::future::poll_fn(|_cx| {
            let mut s = shared.borrow_mut();
            if s.runaway() {
                return Poll::Pending;
            }
            let (k, amt) = s.next_ev();
            match k {
                1 => {
                    s.consume();
                    s.log.push(format!("r {} fail", window));
                    Poll::Ready(Err(IoErr))
                }
                2 => {
                    s.consume();
                    s.log.push(format!("r {} eof", window));
                    Poll::Ready(Ok(Vec::new()))
                }
                3 => {
                    // "this future is dropped here": the executor consumes the event when it drops the future.  Under
                    // `with_deadline` a timer that has expired wins this very poll instead; the read future is dropped by
                    // the select, the operation goes on, and the event is still there for the next await point.
                    s.cancel = true;
                    s.cancel_unconsumed = true;
                    Poll::Pending
                }
                _ => {
                    let avail = s.avail_len();
                    if avail == 0 {
                        s.read_waiting = true;
                        return Poll::Pending;
                    }
                    s.consume();
                    let n = (amt.max(1) as usize).min(window.min(avail));
                    let d = s.take(n);
                    let mut l = format!("r {} {} ", window, n);
                    hex(&mut l, &d);
                    s.log.push(l);
                    Poll::Ready(Ok(d))
                }
            }
        })
        .await;
        guard.done = true;
        let d = res?;
        buf[..d.len()].copy_from_slice(&d);
        Ok(d.len())
    }
}

impl embedded_io_async::Write for ScriptIo {
    async fn write(&mut self, buf: &[u8]) -> Result<usize, IoErr> {
        let len = buf.len();
        if len == 0 {
            self.shared.borrow_mut().log.push("w 0 0 ".into());
            return Ok(0);
        }
        let mut guard = Guard { shared: self.shared.clone(), label: format!("w {} ", len), done: false };
        let shared = self.shared.clone();
        let res = core::future::poll_fn(|_cx| {
            let mut s = shared.borrow_mut();
            if s.runaway() {
                return Poll::Pending;
            }
            let (k, amt) = s.next_ev();
            s.consume();
            s.cancel_unconsumed = false;
            match k {
                1 => {
                    s.log.push(format!("w {} fail", len));
                    Poll::Ready(Err(IoErr))
                }
                2 => {
                    s.log.push(format!("w {} zero", len));
                    Poll::Ready(Ok(0))
                }
                3 => {
                    s.cancel = true;
                    Poll::Pending
                }
                4 | 5 => {
                    // a SLOW write: `amt` ms of virtual time pass inside the call, then one byte (4) resp. the whole
                    // buffer (5) is accepted
                    let t = now_ms() + amt;
                    set_now_ms(t);
                    s.log.push(format!("t {}", t));
                    let n = if k == 4 { 1 } else { len };
                    let mut l = format!("w {} {} ", len, n);
                    hex(&mut l, &buf[..n]);
                    s.log.push(l);
                    s.broker_feed(&buf[..n]);
                    Poll::Ready(Ok(n))
                }
                _ => {
                    let n = (amt.max(1) as usize).min(len);
                    let mut l = format!("w {} {} ", len, n);
                    hex(&mut l, &buf[..n]);
                    s.log.push(l);
                    s.broker_feed(&buf[..n]);
                    Poll::Ready(Ok(n))
                }
            }
        })
        .await;
        guard.done = true;
        res
    }

    async fn flush(&mut self) -> Result<(), IoErr> {
        let mut guard = Guard { shared: self.shared.clone(), label: "f ".into(), done: false };
        let shared = self.shared.clone();
        let res = core::future::poll_fn(|_cx| {
            let mut s = shared.borrow_mut();
            if s.runaway() {
                return Poll::Pending;
            }
            let (k, _) = s.next_ev();
            s.consume();
            s.cancel_unconsumed = false;
            match k {
                1 => {
                    s.log.push("f fail".into());
                    Poll::Ready(Err(IoErr))
                }
                3 => {
                    s.cancel = true;
                    Poll::Pending
                }
                _ => {
                    s.log.push("f ok".into());
                    Poll::Ready(Ok(()))
                }
            }
        })
        .await;
        guard.done = true;
        res
    }
}

// ---------------- executor ----------------
const MAX_WAITS: u64 = 64;
const IO_LIMIT: u64 = 50_000;
const STUTTER_MS: u64 = 100;
/// Poll `fut` to completion under the runner's rules; None = the future was dropped (cancelled).
fn exec<F: Future>(shared: &Shared, fut: F) -> Option<F::Output> {
    let mut cx = Context::from_waker(Waker::noop());
    let mut fut = pin!(fut);
    let mut spins = 0u64;
    shared.borrow_mut().io_count = 0;
    loop {
        WAKE_AT.store(u64::MAX, Ordering::SeqCst);
        {
            let mut s = shared.borrow_mut();
            s.read_waiting = false;
            s.cancel = false;
            s.cancel_unconsumed = false;
        }
        match fut.as_mut().poll(&mut cx) {
            Poll::Ready(v) => return Some(v),
            Poll::Pending => {
                let (cancel, waiting, t1) = {
                    let s = shared.borrow();
                    (s.cancel, s.read_waiting, s.inq.first().map(|(t, _)| *t))
                };
                if cancel {
                    let mut s = shared.borrow_mut();
                    if s.cancel_unconsumed {
                        s.consume();
                    }
                    return None;
                }
                if !waiting {
                    panic!("future pending without a pending scripted I/O");
                }
                let now = now_ms();
                let wake = WAKE_AT.load(Ordering::SeqCst);
                let deadline = if wake == u64::MAX { None } else { Some(wake.div_ceil(TICKS_PER_MS)) };
                let target = match deadline {
                    Some(d) => {
                        if d <= now {
                            Some(now + STUTTER_MS)
                        } else {
                            Some(match t1 {
                                Some(t) => t.min(d),
                                None => d,
                            })
                        }
                    }
                    None => t1,
                };
                let target = if spins >= MAX_WAITS { None } else { target };
                let Some(target) = target else { return None };
                set_now_ms(target);
                shared.borrow_mut().log.push(format!("t {}", target));
                spins += 1;
            }
        }
    }
}

// ---------------- case ----------------
struct OConfig {
    rx: usize,
    tx: usize,
    cid: Vec<u8>,
    ka: u16,
    expiry: u32,
    downgrade: bool,
    will: Option<OWill>,
    auth: Option<(Vec<u8>, Vec<u8>)>,
}

enum Action {
    Connect(Vec<(u64, Vec<u8>)>),
    Publish(OPublish),
    Subscribe(Vec<OProp>, Vec<OSubTopic>),
    Unsubscribe(Vec<OProp>, Vec<Vec<u8>>),
    Disconnect(ODisconnect),
    Drive,
    Poll,
    Recv,
    Feed(u64, Vec<u8>),
    Advance(u64),
    DropConn,
    HandleDisconnect,
    SetBroker(u64),
    SetPid(u64),
    Heal,
}

fn parse_config(t: &mut Toks) -> Result<OConfig, Bad> {
    Ok(OConfig {
        rx: t.n()? as usize,
        tx: t.n()? as usize,
        cid: t.bytes()?,
        ka: t.n()? as u16,
        expiry: t.n()? as u32,
        downgrade: t.b()?,
        will: t.opt(parse_will)?,
        auth: t.opt(|t| Ok((t.bytes()?, t.bytes()?)))?,
    })
}

fn parse_action(t: &mut Toks) -> Result<Action, Bad> {
    Ok(match t.n()? {
        0 => Action::Connect(t.list(|t| Ok((t.n()?, t.bytes()?)))?),
        1 => {
            // pub_req: topic, properties, qos, payload, retain
            let topic = t.bytes()?;
            let kind = t.n()?;
            let corr = if kind == 0 { None } else { Some(t.bytes()?) };
            let props = t.list(|t| t.prop())?;
            let qos = t.qos()?;
            let payload = t.bytes()?;
            let retain = t.b()?;
            Action::Publish(OPublish { topic, pid: None, corr, props, retain, qos, dup: false, payload })
        }
        2 => {
            let ps = t.list(|t| t.prop())?;
            Action::Subscribe(ps, t.list(parse_sub_topic)?)
        }
        3 => {
            let ps = t.list(|t| t.prop())?;
            Action::Unsubscribe(ps, t.list(|t| t.bytes())?)
        }
        4 => Action::Disconnect(parse_disconnect(t)?),
        5 => Action::Drive,
        6 => Action::Poll,
        7 => Action::Recv,
        8 => Action::Feed(t.n()?, t.bytes()?),
        9 => Action::Advance(t.n()?),
        10 => Action::DropConn,
        11 => Action::HandleDisconnect,
        12 => Action::SetBroker(t.n()?),
        13 => Action::SetPid(t.n()?),
        14 => Action::Heal,
        _ => return Err(Bad("parse")),
    })
}

fn err_name<E>(e: &Error<E>) -> String {
    use minimq::{PeerError, ResourceError};
    match e {
        Error::NotReady => "NotReady".into(),
        Error::Disconnected => "Disconnected".into(),
        Error::InvalidRequest => "InvalidRequest".into(),
        Error::Peer(PeerError::Rejected(code)) => format!("Rejected({})", u8::from(*code)),
        Error::Peer(PeerError::InvalidPacket) => "InvalidPacket".into(),
        Error::Resource(ResourceError::BufferTooSmall) => "BufferTooSmall".into(),
        Error::Resource(ResourceError::PacketTooLarge) => "PacketTooLarge".into(),
        Error::Resource(ResourceError::InflightExhausted) => "InflightExhausted".into(),
        Error::Transport(_) => "Transport".into(),
        Error::WriteZero => "WriteZero".into(),
        _ => "Other".into(),
    }
}

fn show_op(op: &Op) -> String {
    // Op { kind: PublishAtLeastOnce, packet_id: 1, generation: 0 }
    let d = format!("{:?}", op);
    let kind = if d.contains("PublishAtLeastOnce") {
        0
    } else if d.contains("PublishExactlyOnce") {
        1
    } else if d.contains("Unsubscribe") {
        3
    } else {
        2
    };
    let field = |name: &str| -> String {
        let i = d.find(name).unwrap() + name.len();
        d[i..].chars().take_while(|c| c.is_ascii_digit()).collect()
    };
    format!("op {} {} {}", kind, field("packet_id: "), field("generation: "))
}

fn show_msg(m: &InboundPublish<'_>) -> String {
    let mut s = String::from("msg t=x");
    hex(&mut s, m.topic().as_bytes());
    s.push_str(" p=x");
    hex(&mut s, m.payload());
    write!(s, " q={} r={} props=", m.qos() as u8, m.retained() as u8).unwrap();
    minimq::verif::render_properties(&mut s, m.properties());
    s
}

type Conn = Connection<'static, 'static, ScriptIo>;

pub fn run(t: &mut Toks) -> Result<String, Bad> {
    let cfg = parse_config(t)?;
    let prog = t.list(parse_action)?;
    let script = t.list(|t| Ok((t.n()?, t.n()?)))?;
    t.done()?;

    set_now_ms(0);
    let shared: Shared = Rc::new(RefCell::new(IoShared {
        script,
        script_pos: 0,
        inq: Vec::new(),
        last_arrival: 0,
        txbuf: Vec::new(),
        broker: 0,
        log: Vec::new(),
        cancel: false,
        cancel_unconsumed: false,
        read_waiting: false,
        io_count: 0,
        livelock: false,
    }));

    // storage with 'static lifetime for the duration of the case (freed at the end)
    let rx: *mut [u8] = Box::into_raw(vec![0u8; cfg.rx].into_boxed_slice());
    let tx: *mut [u8] = Box::into_raw(vec![0u8; cfg.tx].into_boxed_slice());
    let cfg_box: *mut OConfig = Box::into_raw(Box::new(cfg));
    let cfg: &'static OConfig = unsafe { &*cfg_box };
    let will_props: *mut Vec<minimq::Property<'static>> = Box::into_raw(Box::new(match &cfg.will {
        Some(w) => props_vec(&w.props)?,
        None => Vec::new(),
    }));

    let shared2 = shared.clone();
    let result = std::panic::catch_unwind(std::panic::AssertUnwindSafe(|| -> Result<String, Bad> {
        let mut builder = ConfigBuilder::new(Buffers::new(unsafe { &mut *rx }, unsafe { &mut *tx }))
            .client_id(core::str::from_utf8(&cfg.cid).map_err(|_| Bad("utf8"))?)
            .map_err(|_| Bad("clientid"))?
            .keepalive_interval(cfg.ka)
            .session_expiry_interval(cfg.expiry);
        if cfg.downgrade {
            builder = builder.autodowngrade_qos();
        }
        if let Some(w) = &cfg.will {
            let will = build_will(w, unsafe { &*will_props })?;
            builder = builder.will(will).map_err(|_| Bad("will"))?;
        }
        if let Some((u, p)) = &cfg.auth {
            builder = builder
                .auth(core::str::from_utf8(u).map_err(|_| Bad("utf8"))?, p)
                .map_err(|_| Bad("auth"))?;
        }
        let session: *mut Session<'static> = Box::into_raw(Box::new(Session::new(builder)));
        let mut conn: Option<Conn> = None;
        let mut handles: Vec<Op> = Vec::new();

        for action in &prog {
            let code = match action {
                Action::Connect(_) => 0,
                Action::Publish(_) => 1,
                Action::Subscribe(..) => 2,
                Action::Unsubscribe(..) => 3,
                Action::Disconnect(_) => 4,
                Action::Drive => 5,
                Action::Poll => 6,
                Action::Recv => 7,
                Action::Feed(..) => 8,
                Action::Advance(_) => 9,
                Action::DropConn => 10,
                Action::HandleDisconnect => 11,
                Action::SetBroker(_) => 12,
                Action::SetPid(_) => 13,
                Action::Heal => 14,
            };
            let marker = match action {
                Action::Publish(p) => format!("#{}:{}", code, p.qos as u8),
                _ => format!("#{}", code),
            };
            shared.borrow_mut().log.push(marker);
            let line: String = match action {
                Action::Connect(chunks) => {
                    conn = None;
                    {
                        let mut s = shared.borrow_mut();
                        s.inq.clear();
                        s.txbuf.clear();
                        s.last_arrival = now_ms();
                        for (d, b) in chunks {
                            s.feed(*d, b);
                        }
                    }
                    let io = ScriptIo { shared: shared.clone() };
                    let r = exec(&shared, unsafe { (*session).connect(io) });
                    match r {
                        None => "= cancelled".into(),
                        Some(Ok(c)) => {
                            let ev = c.connect_event();
                            conn = Some(c);
                            format!("= ok {}", if ev == ConnectEvent::Connected { "connected" } else { "reconnected" })
                        }
                        Some(Err(e)) => format!("= err {}", err_name(&e)),
                    }
                }
                Action::Publish(p) => match conn.as_mut() {
                    None => "= noconn".into(),
                    Some(c) => {
                        let props = props_vec(&p.props)?;
                        let topic = core::str::from_utf8(&p.topic).map_err(|_| Bad("utf8"))?;
                        let mut publication = Publication::bytes(topic, &p.payload[..]).qos(p.qos).properties(&props);
                        if p.retain {
                            publication = publication.retain();
                        }
                        if let Some(corr) = &p.corr {
                            publication = publication.correlate(corr);
                        }
                        match exec(&shared, c.publish(publication)) {
                            None => "= cancelled".into(),
                            Some(Ok(None)) => "= ok none".into(),
                            Some(Ok(Some(op))) => {
                                handles.push(op);
                                format!("= ok {}", show_op(&op))
                            }
                            Some(Err(PubError::Payload(()))) => "= err Payload".into(),
                            Some(Err(PubError::Session(e))) => format!("= err {}", err_name(&e)),
                        }
                    }
                },
                Action::Subscribe(ps, topics) => match conn.as_mut() {
                    None => "= noconn".into(),
                    Some(c) => {
                        let props = props_vec(ps)?;
                        let filters = topics.iter().map(build_filter).collect::<Result<Vec<_>, _>>()?;
                        match exec(&shared, c.subscribe(&filters, &props)) {
                            None => "= cancelled".into(),
                            Some(Ok(op)) => {
                                handles.push(op);
                                format!("= ok {}", show_op(&op))
                            }
                            Some(Err(e)) => format!("= err {}", err_name(&e)),
                        }
                    }
                },
                Action::Unsubscribe(ps, topics) => match conn.as_mut() {
                    None => "= noconn".into(),
                    Some(c) => {
                        let props = props_vec(ps)?;
                        let topics = topics
                            .iter()
                            .map(|b| core::str::from_utf8(b).map_err(|_| Bad("utf8")))
                            .collect::<Result<Vec<_>, _>>()?;
                        match exec(&shared, c.unsubscribe(&topics, &props)) {
                            None => "= cancelled".into(),
                            Some(Ok(op)) => {
                                handles.push(op);
                                format!("= ok {}", show_op(&op))
                            }
                            Some(Err(e)) => format!("= err {}", err_name(&e)),
                        }
                    }
                },
                Action::Disconnect(d) => match conn.as_mut() {
                    None => "= noconn".into(),
                    Some(c) => {
                        let props = match &d.props {
                            Some(ps) => props_vec(ps)?,
                            None => Vec::new(),
                        };
                        let disconnect = build_disconnect(d, &props)?;
                        match exec(&shared, c.disconnect_with(disconnect)) {
                            None => "= cancelled".into(),
                            Some(Ok(())) => "= ok done".into(),
                            Some(Err(e)) => format!("= err {}", err_name(&e)),
                        }
                    }
                },
                Action::Drive | Action::Poll | Action::Recv => match conn.as_mut() {
                    None => "= noconn".into(),
                    Some(c) => {
                        let r = match action {
                            Action::Drive => exec(&shared, c.drive()).map(|r| r.map(|m| m.map(|m| show_msg(&m)))),
                            Action::Poll => exec(&shared, c.poll()).map(|r| r.map(|m| m.map(|m| show_msg(&m)))),
                            _ => exec(&shared, c.recv()).map(|r| r.map(|m| Some(show_msg(&m)))),
                        };
                        match r {
                            None => "= cancelled".into(),
                            Some(Ok(None)) => "= ok none".into(),
                            Some(Ok(Some(m))) => format!("= ok {}", m),
                            Some(Err(e)) => format!("= err {}", err_name(&e)),
                        }
                    }
                },
                Action::Feed(delay, bytes) => {
                    shared.borrow_mut().feed(*delay, bytes);
                    "= fed".into()
                }
                Action::Advance(dt) => {
                    set_now_ms(now_ms() + dt);
                    format!("= t {}", now_ms())
                }
                Action::DropConn => {
                    conn = None;
                    "= dropped".into()
                }
                Action::HandleDisconnect => match conn.as_mut() {
                    None => "= noconn".into(),
                    Some(c) => {
                        c.handle_disconnect();
                        "= hd".into()
                    }
                },
                Action::SetBroker(m) => {
                    shared.borrow_mut().broker = *m;
                    "= broker".into()
                }
                Action::Heal => {
                    let mut sh = shared.borrow_mut();
                    sh.script_pos = sh.script.len();
                    "= healed".into()
                }
                Action::SetPid(p) => {
                    conn = match conn.take() {
                        // the setter needs &mut Session; a live handle borrows it, so it is only offered
                        // without a handle (the generator only emits it there)
                        Some(c) => Some(c),
                        None => {
                            unsafe { (*session).verif_set_next_packet_id(*p as u16) };
                            None
                        }
                    };
                    "= pid".into()
                }
            };
            if shared.borrow().livelock {
                shared.borrow_mut().log.push("= FUEL".into());
                break;
            }
            shared.borrow_mut().log.push(line);
            // state line
            let sess: &Session<'static> = match &conn {
                Some(c) => c.session(),
                None => unsafe { &*session },
            };
            let mut s = format!("s {}", sess.verif_snapshot());
            match &conn {
                Some(c) => {
                    write!(
                        s,
                        " conn=1 live={} now={} cp={}{}{}",
                        c.is_connected() as u8,
                        now_ms(),
                        c.can_publish(QoS::AtMostOnce) as u8,
                        c.can_publish(QoS::AtLeastOnce) as u8,
                        c.can_publish(QoS::ExactlyOnce) as u8
                    )
                    .unwrap();
                }
                None => write!(s, " conn=0 live=0 now={} cp=---", now_ms()).unwrap(),
            }
            write!(s, " pq={} ev=", sess.is_publish_quiescent() as u8).unwrap();
            match &conn {
                Some(c) => s.push(if c.connect_event() == ConnectEvent::Connected { '0' } else { '1' }),
                None => s.push('-'),
            }
            s.push_str(" h=[");
            for (i, op) in handles.iter().enumerate() {
                if i != 0 {
                    s.push(',');
                }
                // all three public predicates are consulted: exactly one of them must hold
                match (sess.is_invalidated(op), sess.is_pending(op), sess.is_complete(op)) {
                    (true, false, false) => s.push('I'),
                    (false, true, false) => s.push('P'),
                    (false, false, true) => s.push('C'),
                    (i, p, c) => write!(s, "X{}{}{}", i as u8, p as u8, c as u8).unwrap(),
                }
            }
            s.push(']');
            shared.borrow_mut().log.push(s);
        }
        drop(conn);
        unsafe { drop(Box::from_raw(session)) };
        Ok(shared.borrow().log.join("|"))
    }));
    let result = match result {
        Ok(r) => r,
        Err(_) => {
            // a panic inside the client: the trace up to that point, then the marker
            let mut log = match shared2.try_borrow() {
                Ok(s) => s.log.join("|"),
                Err(_) => String::from("?"),
            };
            log.push_str("|= PANIC");
            return Ok(log);
        }
    };
    unsafe {
        drop(Box::from_raw(will_props));
        drop(Box::from_raw(cfg_box));
        drop(Box::from_raw(rx));
        drop(Box::from_raw(tx));
    }
    result
}

