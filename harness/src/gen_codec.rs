//! Generators for the function-level codec suites.  Each returns token lines (one case per line).
use crate::rng::Rng;
use crate::tok::{Emit, KIND_IDS, OProp, kind_shape};

// ---------- reference encoders for server->client packets (written from the MQTT 5 text) ----------

pub fn varint(mut v: u32) -> Vec<u8> {
    let mut out = Vec::new();
    loop {
        let mut b = (v % 128) as u8;
        v /= 128;
        if v > 0 {
            b |= 0x80;
        }
        out.push(b);
        if v == 0 {
            return out;
        }
    }
}

/// non-canonical (padded) varint with `n` bytes
pub fn varint_padded(v: u32, n: usize) -> Vec<u8> {
    let mut out = Vec::new();
    let mut v = v;
    for i in 0..n {
        let mut b = (v % 128) as u8;
        v /= 128;
        if i + 1 < n {
            b |= 0x80;
        }
        out.push(b);
    }
    out
}

pub fn lp(d: &[u8]) -> Vec<u8> {
    let mut out = vec![(d.len() >> 8) as u8, d.len() as u8];
    out.extend_from_slice(d);
    out
}

pub fn enc_prop(p: &OProp) -> Vec<u8> {
    let mut out = vec![KIND_IDS[p.kind as usize]];
    match kind_shape(p.kind) {
        0 => out.push(p.num as u8),
        1 => out.extend_from_slice(&(p.num as u16).to_be_bytes()),
        2 => out.extend_from_slice(&(p.num as u32).to_be_bytes()),
        3 => out.extend(varint(p.num as u32)),
        4 | 5 => out.extend(lp(&p.data)),
        _ => {
            out.extend(lp(&p.data));
            out.extend(lp(&p.data2));
        }
    }
    out
}

pub fn enc_props(ps: &[OProp]) -> Vec<u8> {
    let body: Vec<u8> = ps.iter().flat_map(enc_prop).collect();
    let mut out = varint(body.len() as u32);
    out.extend(body);
    out
}

pub fn packet(first: u8, body: &[u8]) -> Vec<u8> {
    let mut out = vec![first];
    out.extend(varint(body.len() as u32));
    out.extend_from_slice(body);
    out
}

const WORDS: [&str; 11] = ["", "a", "t/1", "topic/é", "x/y/z", "日本", "r", "0123456789abcdef", "$share/grp/jobs/#", "$shared/x", "$SYS/#"];

pub fn rand_str(r: &mut Rng) -> Vec<u8> {
    if r.chance(1, 12) {
        let n = *r.pick(&[126usize, 127, 128, 129, 200]);
        return vec![b'a'; n];
    }
    r.pick(&WORDS).as_bytes().to_vec()
}

pub fn rand_bin(r: &mut Rng) -> Vec<u8> {
    let n = *r.pick(&[0usize, 1, 2, 3, 5, 8, 16]);
    r.bytes(n)
}

pub fn rand_num(r: &mut Rng, shape: u8) -> u64 {
    match shape {
        0 => *r.pick(&[0u64, 1, 2, 3, 127, 128, 255]),
        1 => *r.pick(&[0u64, 1, 2, 8, 255, 256, 65535]),
        2 => *r.pick(&[0u64, 1, 60, 65535, 65536, 0x0FFF_FFFF, 0x1000_0000, 0xFFFF_FFFF]),
        _ => *r.pick(&[0u64, 1, 127, 128, 16383, 16384, 2_097_151, 2_097_152, 268_435_455]),
    }
}

pub fn rand_prop_of_kind(r: &mut Rng, kind: u8) -> OProp {
    let shape = kind_shape(kind);
    let mut p = OProp { kind, num: 0, data: vec![], data2: vec![] };
    match shape {
        0..=3 => p.num = rand_num(r, shape),
        4 => p.data = rand_str(r),
        5 => p.data = rand_bin(r),
        _ => {
            p.data = rand_str(r);
            p.data2 = rand_str(r);
        }
    }
    p
}

pub fn rand_prop(r: &mut Rng) -> OProp {
    let kind = r.below(27) as u8;
    rand_prop_of_kind(r, kind)
}

pub fn rand_props(r: &mut Rng, max: u64) -> Vec<OProp> {
    let n = if r.chance(1, 3) { 0 } else { r.range(0, max) };
    (0..n).map(|_| rand_prop(r)).collect()
}

/// kinds a server may attach to a PUBLISH
const PUB_KINDS: [u8; 8] = [0, 1, 2, 3, 4, 5, 22, 19];

pub fn rand_pub_props(r: &mut Rng) -> Vec<OProp> {
    let n = if r.chance(1, 3) { 0 } else { r.range(0, 5) };
    (0..n).map(|_| {
        let k = *r.pick(&PUB_KINDS);
        let mut p = rand_prop_of_kind(r, k);
        if k == 5 && p.num == 0 {
            p.num = 1;
        }
        p
    }).collect()
}

/// a spec-valid (or deliberately odd but well-framed) server->client packet
pub fn rand_server_packet(r: &mut Rng) -> Vec<u8> {
    match r.below(12) {
        0 => {
            // CONNACK
            let mut body = vec![r.below(2) as u8, *r.pick(&[0u8, 0, 0, 0x80, 0x87, 0x89, 0x9f, 0x03])];
            let kinds = [7u8, 8, 17, 20, 23, 21, 18, 6, 22, 16, 24, 25, 26, 14, 15];
            let n = r.range(0, 4);
            let ps: Vec<OProp> = (0..n).map(|_| { let k = *r.pick(&kinds); rand_prop_of_kind(r, k) }).collect();
            body.extend(enc_props(&ps));
            packet(0x20, &body)
        }
        1..=4 => {
            // PUBLISH
            let qos = r.below(3) as u8;
            let first = 0x30 | (qos << 1) | (r.below(2) as u8) | ((r.chance(1, 4) as u8) << 3);
            let mut body = lp(&rand_str(r));
            if qos > 0 {
                body.extend_from_slice(&(*r.pick(&[1u16, 2, 3, 7, 255, 256, 65535])).to_be_bytes());
            }
            body.extend(enc_props(&rand_pub_props(r)));
            let n = *r.pick(&[0usize, 1, 2, 5, 20, 100]);
            body.extend(r.bytes(n));
            packet(first, &body)
        }
        5..=8 => {
            // PUBACK / PUBREC / PUBREL / PUBCOMP in all short forms
            let typ = r.range(4, 7) as u8;
            let first = (typ << 4) | if typ == 6 { 2 } else { 0 };
            let mut body = (*r.pick(&[1u16, 2, 9, 300, 65535])).to_be_bytes().to_vec();
            match r.below(3) {
                0 => {}
                1 => body.push(*r.pick(&[0u8, 0x10, 0x80, 0x92, 0x97, 0x05])),
                _ => {
                    body.push(*r.pick(&[0u8, 0x10, 0x80, 0x92]));
                    let kinds = [16u8, 22];
                    let n = r.range(0, 2);
                    let ps: Vec<OProp> = (0..n).map(|_| { let k = *r.pick(&kinds); rand_prop_of_kind(r, k) }).collect();
                    body.extend(enc_props(&ps));
                }
            }
            packet(first, &body)
        }
        9 => {
            // SUBACK / UNSUBACK
            let first = if r.chance(1, 2) { 0x90 } else { 0xB0 };
            let mut body = (*r.pick(&[1u16, 2, 9, 65535])).to_be_bytes().to_vec();
            let kinds = [16u8, 22];
            let n = r.range(0, 2);
            let ps: Vec<OProp> = (0..n).map(|_| { let k = *r.pick(&kinds); rand_prop_of_kind(r, k) }).collect();
            body.extend(enc_props(&ps));
            let n = r.range(0, 3);
            for _ in 0..n {
                body.push(*r.pick(&[0u8, 1, 2, 0x80, 0x87, 0x11]));
            }
            packet(first, &body)
        }
        10 => packet(0xD0, &[]),
        _ => {
            // DISCONNECT in all short forms
            let mut body = Vec::new();
            match r.below(3) {
                0 => {}
                1 => body.push(*r.pick(&[0u8, 0x8b, 0x8d, 0x8e, 0x81])),
                _ => {
                    body.push(*r.pick(&[0u8, 0x8e]));
                    let kinds = [6u8, 16, 22, 15];
                    let n = r.range(0, 2);
                    let ps: Vec<OProp> = (0..n).map(|_| { let k = *r.pick(&kinds); rand_prop_of_kind(r, k) }).collect();
                    body.extend(enc_props(&ps));
                }
            }
            packet(0xE0, &body)
        }
    }
}

/// mutate a packet: the separate malformed stream
pub fn mutate(r: &mut Rng, p: &[u8]) -> Vec<u8> {
    let mut q = p.to_vec();
    match r.below(9) {
        0 => {
            let n = r.below(q.len() as u64 + 1) as usize;
            q.truncate(n);
        }
        1 => { let n = r.range(1, 3) as usize; q.extend(r.bytes(n)) }
        2 => {
            if !q.is_empty() {
                let i = r.below(q.len() as u64) as usize;
                q[i] = q[i].wrapping_add(*r.pick(&[1u8, 255, 0x80]));
            }
        }
        3 => {
            if !q.is_empty() {
                q[0] = (q[0] & 0xF0) | (r.below(16) as u8);
            }
        }
        4 => {
            if !q.is_empty() {
                q[0] = (q[0] & 0x0F) | ((r.below(16) as u8) << 4);
            }
        }
        5 => {
            // non-canonical remaining length
            if q.len() >= 2 && q[1] < 0x80 {
                let v = q[1] as u32;
                let n = r.range(2, 5) as usize;
                let mut out = vec![q[0]];
                out.extend(varint_padded(v, n));
                out.extend_from_slice(&q[2..]);
                q = out;
            }
        }
        6 => {
            if !q.is_empty() {
                let i = r.below(q.len() as u64) as usize;
                q[i] = *r.pick(&[0xC0u8, 0xFF, 0xED, 0xF5, 0x80]);
            }
        }
        7 => {
            if q.len() > 2 {
                let i = r.range(1, q.len() as u64 - 1) as usize;
                q.remove(i);
            }
        }
        _ => {
            if !q.is_empty() {
                let i = r.below(q.len() as u64) as usize;
                q.insert(i, r.next() as u8);
            }
        }
    }
    q
}

fn decode_case(bytes: &[u8]) -> String {
    let mut e = Emit::default();
    e.n(1).bytes(bytes);
    e.line()
}

/// every byte string of length <= max_len (max_len <= 3)
pub fn decode_exhaustive(max_len: usize) -> Vec<String> {
    let mut out = vec![decode_case(&[])];
    for a in 0..=255u8 {
        if max_len >= 1 {
            out.push(decode_case(&[a]));
        }
        if max_len >= 2 {
            for b in 0..=255u8 {
                out.push(decode_case(&[a, b]));
            }
        }
    }
    out
}

/// all 256 first bytes x remaining-length forms (1..5 bytes, canonical and padded) x a few bodies
pub fn decode_headers() -> Vec<String> {
    let mut out = Vec::new();
    let bodies: [&[u8]; 6] = [&[], &[0], &[0, 1], &[0, 1, 0], &[0, 1, 0, 0], &[0, 1, 0x61, 0, 5]];
    for first in 0..=255u8 {
        for body in bodies {
            for n in 1..=5usize {
                let mut p = vec![first];
                p.extend(varint_padded(body.len() as u32, n));
                p.extend_from_slice(body);
                out.push(decode_case(&p));
            }
            // declared length one more / one less than the body
            for d in [-1i32, 1] {
                let l = body.len() as i32 + d;
                if l >= 0 {
                    let mut p = vec![first];
                    p.extend(varint(l as u32));
                    p.extend_from_slice(body);
                    out.push(decode_case(&p));
                }
            }
        }
    }
    // the values at which the encoding grows by a byte (127, 16383), canonical and written one byte too long: as remaining
    // length of a whole PUBLISH, and as the length of its property block
    for l in [127usize, 128, 16383, 16384] {
        let mut body = lp(b"t");
        body.push(0);
        body.extend(std::iter::repeat(b'p').take(l - 4));
        for first in [0x30u8, 0x31] {
            for n in 1..=4usize {
                let mut p = vec![first];
                p.extend(varint_padded(l as u32, n));
                p.extend_from_slice(&body);
                out.push(decode_case(&p));
            }
        }
        // a user property that makes the block exactly l bytes long: 1 + 2 + 1 + 2 + (l - 6)
        let mut block = vec![0x26u8, 0, 1, b'k'];
        block.extend(((l - 6) as u16).to_be_bytes());
        block.extend(std::iter::repeat(b'v').take(l - 6));
        for n in 1..=4usize {
            let mut b2 = lp(b"t");
            b2.extend(varint_padded(l as u32, n));
            b2.extend_from_slice(&block);
            b2.extend_from_slice(b"xy");
            out.push(decode_case(&packet(0x30, &b2)));
        }
    }
    out
}

/// all UTF-8 sequences of length <= 2 and boundary 3-/4-byte sequences as PUBLISH topic
pub fn decode_utf8() -> Vec<String> {
    let mut out = Vec::new();
    let mk = |t: &[u8]| {
        let mut body = lp(t);
        body.push(0);
        decode_case(&packet(0x30, &body))
    };
    for a in 0..=255u8 {
        out.push(mk(&[a]));
    }
    for a in 0x80..=255u8 {
        for b in 0..=255u8 {
            out.push(mk(&[a, b]));
        }
    }
    let edge = [0x7Fu8, 0x80, 0x8F, 0x90, 0x9F, 0xA0, 0xBF, 0xC0];
    for a in [0xE0u8, 0xE1, 0xEC, 0xED, 0xEE, 0xEF] {
        for b in edge {
            for c in [0x7Fu8, 0x80, 0xBF, 0xC0] {
                out.push(mk(&[a, b, c]));
            }
        }
    }
    for a in [0xF0u8, 0xF1, 0xF3, 0xF4, 0xF5] {
        for b in edge {
            for c in [0x7Fu8, 0x80, 0xBF, 0xC0] {
                out.push(mk(&[a, b, c, 0x80]));
                out.push(mk(&[a, b, 0x80, c]));
            }
        }
    }
    out
}

pub fn decode_generated(r: &mut Rng, count: usize) -> Vec<String> {
    let mut out = Vec::new();
    for i in 0..count {
        let p = rand_server_packet(r);
        if i % 3 == 2 {
            let mut q = mutate(r, &p);
            if r.chance(1, 4) {
                q = mutate(r, &q);
            }
            out.push(decode_case(&q));
        } else {
            out.push(decode_case(&p));
        }
    }
    out
}

/// raw property blocks, valid and garbage, wrapped into a QoS 0 PUBLISH so the lazy iterator is exercised
pub fn decode_propblocks(r: &mut Rng, count: usize) -> Vec<String> {
    let mut out = Vec::new();
    for i in 0..count {
        let mut block: Vec<u8> = if i % 2 == 0 {
            rand_props(r, 5).iter().flat_map(enc_prop).collect()
        } else {
            let n = r.range(0, 12) as usize;
            let mut b = r.bytes(n);
            for x in b.iter_mut() {
                if r.chance(1, 2) {
                    *x = KIND_IDS[r.below(27) as usize];
                }
            }
            b
        };
        if i % 5 == 4 && !block.is_empty() {
            block = mutate(r, &block);
        }
        let mut body = lp(b"t");
        body.extend(varint(block.len() as u32));
        body.extend(block);
        out.push(decode_case(&packet(0x30, &body)));
    }
    out
}

pub fn reader_cases(r: &mut Rng, count: usize) -> Vec<String> {
    let mut out = Vec::new();
    for i in 0..count {
        let mut stream = Vec::new();
        let n = r.range(1, 4);
        for _ in 0..n {
            let p = rand_server_packet(r);
            if r.chance(1, 10) {
                stream.extend(mutate(r, &p));
            } else {
                stream.extend(p);
            }
        }
        if i % 7 == 0 {
            // raw header forms
            stream = vec![r.next() as u8];
            let (v, n, m) = (r.below(300) as u32, r.range(1, 5) as usize, r.below(10) as usize);
            stream.extend(varint_padded(v, n));
            stream.extend(r.bytes(m));
        }
        let rx = *r.pick(&[0u64, 1, 2, 3, 4, 5, 6, 8, 16, 32, 64, 128, 256, 1024]);
        let nf = r.below(stream.len() as u64 + 1);
        let frags: Vec<u64> = (0..nf).map(|_| *r.pick(&[1u64, 1, 2, 3, 5, 1000])).collect();
        let mut e = Emit::default();
        e.n(2).n(rx).bytes(&stream).n(frags.len() as u64);
        for f in frags {
            e.n(f);
        }
        out.push(e.line());
    }
    out
}

/// 27 kinds x 5 contexts x boundary values — exhaustive over the table
pub fn valid_table() -> Vec<String> {
    let mut out = Vec::new();
    for kind in 0..27u8 {
        let values: Vec<u64> = match kind_shape(kind) {
            0 => vec![0, 1, 2, 3, 255],
            1 => vec![0, 1, 65535],
            2 | 3 => vec![0, 1, 268_435_455, 268_435_456, 4_294_967_295],
            _ => vec![0],
        };
        for v in values {
            for ctx in 0..5u64 {
                let p = OProp { kind, num: v, data: b"a".to_vec(), data2: b"b".to_vec() };
                let mut e = Emit::default();
                e.n(3).prop(&p).n(ctx);
                out.push(e.line());
            }
        }
    }
    out
}

fn emit_will(e: &mut Emit, r: &mut Rng) {
    let will_kinds = [0u8, 1, 2, 3, 4, 22];
    let n = r.range(0, 3);
    let ps: Vec<OProp> = (0..n).map(|_| {
        let k = *r.pick(&will_kinds);
        let mut p = rand_prop_of_kind(r, k);
        if k == 0 { p.num %= 2; }
        p
    }).collect();
    let mut topic = rand_str(r);
    topic.truncate(128);
    e.bytes(&topic).bytes(&rand_bin(r)).n(r.below(3)).b(r.chance(1, 2)).props(&ps);
}

pub fn encode_cases(r: &mut Rng, count: usize) -> Vec<String> {
    let mut out = Vec::new();
    let big = |r: &mut Rng| -> Vec<u8> {
        let n = *r.pick(&[0usize, 1, 10, 100, 119, 120, 121, 127, 128, 129, 200, 16370, 16383, 16384, 16400, 65535, 65536, 70000]);
        vec![b'z'; n]
    };
    // directed: every length-prefixed field at 65535 / 65536 / 65537 bytes with room to spare, so that
    // the two byte prefix is the only thing that can refuse the request
    for n in [65535usize, 65536, 65537] {
        let z = vec![b'z'; n];
        let small = b"t/1".to_vec();
        let mut lines: Vec<(u64, Emit)> = Vec::new();
        // PUBLISH: topic, correlation data, property strings and binary, user property key and value
        for which in 0..6u8 {
            let mut b = Emit::default();
            b.bytes(if which == 0 { &z } else { &small });
            let qos = (which % 3) as u64;
            if qos > 0 { b.n(1).n(7); } else { b.n(0); }
            let mut ps: Vec<OProp> = Vec::new();
            match which {
                2 => ps.push(OProp { kind: 2, num: 0, data: z.clone(), data2: vec![] }),
                3 => ps.push(OProp { kind: 3, num: 0, data: z.clone(), data2: vec![] }),
                4 => ps.push(OProp { kind: 22, num: 0, data: z.clone(), data2: b"v".to_vec() }),
                5 => ps.push(OProp { kind: 22, num: 0, data: b"k".to_vec(), data2: z.clone() }),
                _ => {}
            }
            if which == 1 { b.n(1).bytes(&z); } else { b.n(0); }
            b.props(&ps);
            b.b(false).n(qos).b(false);
            b.bytes(b"p");
            lines.push((5, b));
        }
        // SUBSCRIBE / UNSUBSCRIBE: a filter, alone and after a short one
        for two in [false, true] {
            let mut b = Emit::default();
            b.n(9).props(&[]).n(if two { 2 } else { 1 });
            if two { b.bytes(&small).n(1).b(false).b(false).n(0); }
            b.bytes(&z).n(1).b(false).b(true).n(0);
            lines.push((6, b));
            let mut b = Emit::default();
            b.n(9).props(&[]).n(if two { 2 } else { 1 });
            if two { b.bytes(&small); }
            b.bytes(&z);
            lines.push((7, b));
        }
        // CONNECT: user name, password, will payload (a will topic is a fixed 128 byte string in the API)
        for which in [0u8, 1, 3] {
            let mut b = Emit::default();
            b.n(60).props(&[]).bytes(b"cid");
            match which {
                0 => { b.n(1).bytes(&z).bytes(b"pw"); }
                1 => { b.n(1).bytes(b"user").bytes(&z); }
                _ => { b.n(0); }
            }
            if which >= 2 {
                b.n(1);
                b.bytes(if which == 2 { &z } else { &small });
                b.bytes(if which == 3 { &z[..] } else { &b"w"[..] });
                b.n(1).b(false).props(&[]);
            } else {
                b.n(0);
            }
            b.b(true);
            lines.push((4, b));
        }
        for (cmd, b) in lines {
            for cap in [66000u64, 150000] {
                let mut line = Emit::default();
                line.n(cmd).n(cap);
                line.0.extend(b.0.iter());
                out.push(line.line());
            }
        }
    }
    // directed: every combination of subscription options on an ordinary, a shared and a look-alike filter (what the
    // application asks for goes out as asked, whatever the filter looks like)
    for filter in [&b"t/1"[..], &b"$share/grp/jobs/#"[..], &b"$shared/x"[..]] {
        for q in 0..3u64 {
            for rh in 0..3u64 {
                for bits in 0..4u64 {
                    let mut line = Emit::default();
                    line.n(6).n(256).n(7).props(&[]).n(2);
                    line.bytes(b"plain").n(q).b(false).b(false).n(0);
                    line.bytes(filter).n(q).b(bits & 1 == 1).b(bits & 2 == 2).n(rh);
                    out.push(line.line());
                }
            }
        }
    }
    for i in 0..count {
        let mut e = Emit::default();
        let kind = i % 6;
        let mut base = Emit::default();
        match kind {
            0 => {
                // CONNECT
                let ps = vec![
                    OProp { kind: 23, num: r.range(0, 70000), data: vec![], data2: vec![] },
                    OProp { kind: 6, num: rand_num(r, 2), data: vec![], data2: vec![] },
                    OProp { kind: 17, num: 8, data: vec![], data2: vec![] },
                ];
                let mut cid = rand_str(r);
                cid.truncate(64);
                base.n(rand_num(r, 1)).props(&ps).bytes(&cid);
                if r.chance(1, 2) {
                    base.n(1).bytes(&rand_str(r)).bytes(&rand_bin(r));
                } else {
                    base.n(0);
                }
                if r.chance(1, 2) {
                    base.n(1);
                    emit_will(&mut base, r);
                } else {
                    base.n(0);
                }
                base.b(r.chance(1, 2));
                e.n(4);
            }
            1 | 2 => {
                // PUBLISH
                let qos = r.below(3);
                let topic = if r.chance(1, 8) { big(r) } else { rand_str(r) };
                base.bytes(&topic);
                if qos > 0 || r.chance(1, 10) {
                    base.n(1).n(r.range(1, 65535));
                } else {
                    base.n(0);
                }
                let mut ps = rand_props(r, 4);
                if r.chance(1, 10) {
                    ps.push(OProp { kind: 22, num: 0, data: big(r), data2: b"v".to_vec() });
                }
                if r.chance(1, 4) {
                    base.n(1).bytes(&if r.chance(1, 8) { big(r) } else { rand_bin(r) });
                } else {
                    base.n(0);
                }
                base.props(&ps);
                base.b(r.chance(1, 2)).n(qos).b(r.chance(1, 4));
                let payload = if r.chance(1, 4) { big(r) } else { rand_bin(r) };
                base.bytes(&payload);
                e.n(5);
            }
            3 => {
                let n = r.range(0, 3);
                base.n(r.range(0, 65535)).props(&rand_props(r, 3)).n(n);
                for _ in 0..n {
                    let t = if r.chance(1, 10) { big(r) } else { rand_str(r) };
                    base.bytes(&t).n(r.below(3)).b(r.chance(1, 2)).b(r.chance(1, 2)).n(r.below(3));
                }
                e.n(6);
            }
            4 => {
                let n = r.range(0, 3);
                base.n(r.range(0, 65535)).props(&rand_props(r, 3)).n(n);
                for _ in 0..n {
                    let t = if r.chance(1, 10) { big(r) } else { rand_str(r) };
                    base.bytes(&t);
                }
                e.n(7);
            }
            _ => {
                if r.chance(1, 2) {
                    // DISCONNECT
                    match r.below(4) {
                        0 => { base.n(0).n(0); }
                        1 => { base.n(1).n(*r.pick(&[0u64, 4, 0x80, 0x93, 0x05, 0xff])).n(0); }
                        2 => { base.n(1).n(*r.pick(&[0u64, 4, 0x80])).n(1).props(&rand_props(r, 3)); }
                        // Disconnect::success().with_properties(..): the builder supplies the reason
                        _ => { base.n(0).n(1).props(&rand_props(r, 3)); }
                    }
                    e.n(8);
                } else {
                    base.n(*r.pick(&[4u64, 5, 6, 7, 12])).n(r.range(0, 65535)).n(*r.pick(&[0u64, 0x10, 0x80, 0x92, 0x93, 0x05, 0xff]));
                    e.n(9);
                }
            }
        }
        // capacities: a few around what is needed plus tiny and large ones
        let caps: Vec<u64> = vec![0, 1, 4, 5, 6, 7, 9, 16, 64, 130, 140, 1152, 16500, 80000, 150000];
        let cap = *r.pick(&caps);
        let mut line = Emit::default();
        line.0.push(e.0[0]);
        line.n(cap);
        line.0.extend(base.0.iter());
        out.push(line.line());
        // the same request over a sweep of small capacities for every 8th case
        if i % 8 == 0 {
            for cap in [2u64, 3, 8, 10, 12, 14, 20, 24, 28, 32, 40, 48] {
                let mut line = Emit::default();
                line.0.push(e.0[0]);
                line.n(cap);
                line.0.extend(base.0.iter());
                out.push(line.line());
            }
        }
    }
    out
}


/// inbound publishes with Response Topic / Correlation Data at every position among other properties
/// (duplicates included), lengths around the owned capacities, user properties on the reply
pub fn reply_cases(r: &mut Rng, count: usize) -> Vec<String> {
    let mut out = Vec::new();
    let lens = [0usize, 1, 2, 3, 4, 5, 8, 9, 15, 16, 17, 63, 64, 65, 127, 128, 129, 300];
    for i in 0..count {
        let mut props: Vec<OProp> = Vec::new();
        let others = [0u8, 1, 2, 22, 5, 19];
        let n = r.range(0, 5);
        for _ in 0..n {
            let k = *r.pick(&others);
            let mut p = rand_prop_of_kind(r, k);
            if k == 5 && p.num == 0 { p.num = 1; }
            props.push(p);
        }
        let mk = |r: &mut Rng, kind: u8| -> OProp {
            let n = *r.pick(&lens);
            let data = if kind == 3 { vec![b'a' + (r.below(26) as u8); n] } else { r.bytes(n) };
            OProp { kind, num: 0, data, data2: vec![] }
        };
        let nrt = *r.pick(&[0u64, 1, 1, 1, 2]);
        let ncd = *r.pick(&[0u64, 1, 1, 2]);
        for _ in 0..nrt {
            let p = mk(r, 3);
            let pos = r.below(props.len() as u64 + 1) as usize;
            props.insert(pos, p);
        }
        for _ in 0..ncd {
            let p = mk(r, 4);
            let pos = r.below(props.len() as u64 + 1) as usize;
            props.insert(pos, p);
        }
        // a property block longer than 64 KiB: the response topic / correlation data stand beyond byte 65535
        if i < 2000 && i % 25 == 7 {
            let l = *r.pick(&[65535usize, 65534, 65533, 65531, 65530, 65529, 65528, 65527, 65520, 65500, 40000]);
            let filler = match r.below(3) {
                0 => OProp { kind: 22, num: 0, data: b"k".to_vec(), data2: vec![b'f'; l] },
                1 => OProp { kind: 22, num: 0, data: vec![b'f'; l], data2: vec![] },
                _ => OProp { kind: 2, num: 0, data: vec![b'f'; l], data2: vec![] },
            };
            let pos = r.below(2) as usize;
            if l == 40000 {
                props.insert(pos.min(props.len()), filler.clone());
            }
            props.insert(pos.min(props.len()), filler);
        }
        let mut body = lp(b"req/t");
        let qos = r.below(3) as u8;
        if qos > 0 { body.extend_from_slice(&[0, 7]); }
        let mut block: Vec<u8> = props.iter().flat_map(enc_prop).collect();
        // (a garbled 64 KiB block costs the list-based model minutes: one error item per byte, each counting what is left)
        if i % 17 == 16 && !block.is_empty() && block.len() < 4096 {
            block = mutate(r, &block);
        }
        body.extend(varint(block.len() as u32));
        body.extend(block);
        let npl = r.below(4) as usize;
        body.extend(r.bytes(npl));
        let pkt = packet(0x30 | (qos << 1), &body);
        let nu = r.range(0, 2);
        let user: Vec<OProp> = (0..nu).map(|_| rand_prop_of_kind(r, 22)).collect();
        let mut e = Emit::default();
        e.n(11).bytes(&pkt).props(&user).n(r.below(8));
        out.push(e.line());
    }
    out
}
