//! minimq verification harness: generates test cases (token lines), and executes them against the
//! implementation built from /repo with --cfg minimq_verif.  The same lines are evaluated by the Coq model.
mod codec;
mod gen_codec;
mod gen_sess;
mod rng;
mod sess;
mod tok;

use std::io::{BufRead, Write};

fn seed() -> u64 {
    std::env::var("VERIF_SEED").ok().and_then(|s| s.parse().ok()).unwrap_or(1)
}

pub fn run_line(line: &str) -> String {
    let toks: Result<Vec<u64>, _> = line.split_whitespace().map(|s| s.parse::<u64>()).collect();
    let Ok(toks) = toks else { return "BADCASE parse".into() };
    if toks.is_empty() {
        return "BADCASE empty".into();
    }
    let cmd = toks[0];
    let mut t = tok::Toks::new(&toks[1..]);
    let result = std::panic::catch_unwind(std::panic::AssertUnwindSafe(|| match cmd {
        1..=9 | 11 => codec::exec(cmd, &mut t),
        10 => sess::run(&mut t),
        _ => Err(tok::Bad("cmd")),
    }));
    match result {
        Ok(Ok(s)) => s,
        Ok(Err(tok::Bad(why))) => format!("BADCASE {}", why),
        Err(_) => "PANIC".into(),
    }
}

fn main() {
    let args: Vec<String> = std::env::args().collect();
    std::panic::set_hook(Box::new(|_| {}));
    match args.get(1).map(|s| s.as_str()) {
        Some("gen") => {
            let suite = args.get(2).expect("suite");
            let count: usize = args.get(3).and_then(|s| s.parse().ok()).unwrap_or(1000);
            let mut r = rng::Rng::new(seed());
            let lines = match suite.as_str() {
                "decode_exh" => gen_codec::decode_exhaustive(2),
                "decode_hdr" => gen_codec::decode_headers(),
                "decode_utf8" => gen_codec::decode_utf8(),
                "decode_gen" => gen_codec::decode_generated(&mut r, count),
                "decode_props" => gen_codec::decode_propblocks(&mut r, count),
                "reader" => gen_codec::reader_cases(&mut r, count),
                "valid" => gen_codec::valid_table(),
                "encode" => gen_codec::encode_cases(&mut r, count),
                "reply" => gen_codec::reply_cases(&mut r, count),
                s if s.starts_with("sweep_") => gen_sess::sess_sweep(&mut r, &s[6..], count),
                s if s.starts_with("sess_") => gen_sess::sess_profile(&mut r, &s[5..], count),
                s if s.starts_with("drain_") => gen_sess::sess_drain(&mut r, &s[6..], count),
                _ => panic!("unknown suite"),
            };
            let out = std::io::stdout();
            let mut out = std::io::BufWriter::new(out.lock());
            for l in lines {
                writeln!(out, "{}", l).unwrap();
            }
        }
        Some("run") => {
            let stdin = std::io::stdin();
            let out = std::io::stdout();
            let mut out = std::io::BufWriter::new(out.lock());
            for line in stdin.lock().lines() {
                let line = line.unwrap();
                writeln!(out, "{}", run_line(&line)).unwrap();
                // one flushed line per case: the runner attributes a crash or a stall to the first unanswered case
                out.flush().unwrap();
            }
        }
        _ => {
            eprintln!("usage: harness gen <suite> [count] | run");
            std::process::exit(2);
        }
    }
}
