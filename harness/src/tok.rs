//! Token-stream (space separated integers) case format, mirrored by coq/theories/Model/Parse.v.
use minimq::{Property, QoS};

pub struct Toks<'a> {
    pub t: &'a [u64],
    pub i: usize,
}

#[derive(Debug)]
pub struct Bad(pub &'static str);

impl<'a> Toks<'a> {
    pub fn new(t: &'a [u64]) -> Self {
        Self { t, i: 0 }
    }
    pub fn n(&mut self) -> Result<u64, Bad> {
        let v = *self.t.get(self.i).ok_or(Bad("parse"))?;
        self.i += 1;
        Ok(v)
    }
    pub fn b(&mut self) -> Result<bool, Bad> {
        Ok(self.n()? != 0)
    }
    pub fn bytes(&mut self) -> Result<Vec<u8>, Bad> {
        let n = self.n()? as usize;
        let mut v = Vec::with_capacity(n);
        for _ in 0..n {
            v.push(self.n()? as u8);
        }
        Ok(v)
    }
    pub fn list<T>(&mut self, mut f: impl FnMut(&mut Self) -> Result<T, Bad>) -> Result<Vec<T>, Bad> {
        let n = self.n()? as usize;
        let mut v = Vec::new();
        for _ in 0..n {
            v.push(f(self)?);
        }
        Ok(v)
    }
    pub fn opt<T>(&mut self, f: impl FnOnce(&mut Self) -> Result<T, Bad>) -> Result<Option<T>, Bad> {
        if self.n()? == 0 { Ok(None) } else { Ok(Some(f(self)?)) }
    }
    pub fn done(&self) -> Result<(), Bad> {
        if self.i == self.t.len() { Ok(()) } else { Err(Bad("trailing")) }
    }
    pub fn qos(&mut self) -> Result<QoS, Bad> {
        match self.n()? {
            0 => Ok(QoS::AtMostOnce),
            1 => Ok(QoS::AtLeastOnce),
            2 => Ok(QoS::ExactlyOnce),
            _ => Err(Bad("parse")),
        }
    }
    pub fn prop(&mut self) -> Result<OProp, Bad> {
        let kind = self.n()?;
        if kind >= 27 {
            return Err(Bad("parse"));
        }
        let num = self.n()?;
        let data = self.bytes()?;
        let data2 = self.bytes()?;
        Ok(OProp { kind: kind as u8, num, data, data2 })
    }
}

/// Owned property: kind index in the order of the Rust enum / `all_kinds` of Props.v.
#[derive(Debug, Clone)]
pub struct OProp {
    pub kind: u8,
    pub num: u64,
    pub data: Vec<u8>,
    pub data2: Vec<u8>,
}

impl OProp {
    pub fn utf8_ok(&self) -> bool {
        match kind_shape(self.kind) {
            4 => core::str::from_utf8(&self.data).is_ok(),
            6 => core::str::from_utf8(&self.data).is_ok() && core::str::from_utf8(&self.data2).is_ok(),
            _ => true,
        }
    }
    pub fn to_property(&self) -> Property<'_> {
        let s = || core::str::from_utf8(&self.data).unwrap();
        let s2 = || core::str::from_utf8(&self.data2).unwrap();
        match self.kind {
            0 => Property::PayloadFormatIndicator(self.num as u8),
            1 => Property::MessageExpiryInterval(self.num as u32),
            2 => Property::ContentType(s()),
            3 => Property::ResponseTopic(s()),
            4 => Property::CorrelationData(&self.data),
            5 => Property::SubscriptionIdentifier(self.num as u32),
            6 => Property::SessionExpiryInterval(self.num as u32),
            7 => Property::AssignedClientIdentifier(s()),
            8 => Property::ServerKeepAlive(self.num as u16),
            9 => Property::AuthenticationMethod(s()),
            10 => Property::AuthenticationData(&self.data),
            11 => Property::RequestProblemInformation(self.num as u8),
            12 => Property::WillDelayInterval(self.num as u32),
            13 => Property::RequestResponseInformation(self.num as u8),
            14 => Property::ResponseInformation(s()),
            15 => Property::ServerReference(s()),
            16 => Property::ReasonString(s()),
            17 => Property::ReceiveMaximum(self.num as u16),
            18 => Property::TopicAliasMaximum(self.num as u16),
            19 => Property::TopicAlias(self.num as u16),
            20 => Property::MaximumQoS(self.num as u8),
            21 => Property::RetainAvailable(self.num as u8),
            22 => Property::UserProperty(s(), s2()),
            23 => Property::MaximumPacketSize(self.num as u32),
            24 => Property::WildcardSubscriptionAvailable(self.num as u8),
            25 => Property::SubscriptionIdentifierAvailable(self.num as u8),
            _ => Property::SharedSubscriptionAvailable(self.num as u8),
        }
    }
}

/// Shape of the value carried by a kind: 0 u8, 1 u16, 2 u32, 3 varint, 4 string, 5 binary, 6 pair.
pub fn kind_shape(kind: u8) -> u8 {
    match kind {
        0 | 11 | 13 | 20 | 21 | 24 | 25 | 26 => 0,
        8 | 17 | 18 | 19 => 1,
        1 | 6 | 12 | 23 => 2,
        5 => 3,
        2 | 3 | 7 | 9 | 14 | 15 | 16 => 4,
        4 | 10 => 5,
        _ => 6,
    }
}

pub const KIND_IDS: [u8; 27] = [
    1, 2, 3, 8, 9, 11, 17, 18, 19, 21, 22, 23, 24, 25, 26, 28, 31, 33, 34, 35, 36, 37, 38, 39, 40, 41, 42,
];

/// Token emitter used by the generators.
#[derive(Default, Clone)]
pub struct Emit(pub Vec<u64>);

impl Emit {
    pub fn n(&mut self, v: u64) -> &mut Self {
        self.0.push(v);
        self
    }
    pub fn b(&mut self, v: bool) -> &mut Self {
        self.0.push(v as u64);
        self
    }
    pub fn bytes(&mut self, v: &[u8]) -> &mut Self {
        self.0.push(v.len() as u64);
        self.0.extend(v.iter().map(|b| *b as u64));
        self
    }
    pub fn prop(&mut self, p: &OProp) -> &mut Self {
        self.n(p.kind as u64).n(p.num).bytes(&p.data).bytes(&p.data2)
    }
    pub fn props(&mut self, ps: &[OProp]) -> &mut Self {
        self.n(ps.len() as u64);
        for p in ps {
            self.prop(p);
        }
        self
    }
    pub fn line(&self) -> String {
        let mut s = String::with_capacity(self.0.len() * 3);
        for (i, v) in self.0.iter().enumerate() {
            if i != 0 {
                s.push(' ');
            }
            s.push_str(&v.to_string());
        }
        s
    }
}
