(* C18 — Operation handles tell the truth about completion and invalidation.  Statements only. *)
From Coq Require Import List NArith.
From Minimq Require Import Bytes Varint Utf8 Props Ser De Reader Arena Core Show Machine Parse Run.
From Minimq Require Import ArenaOps Inv Lts Status Persist Reach.
Import ListNotations.
Open Scope N_scope.

(* invalidated exactly when the generation differs, and the generation changes exactly when a fresh broker
   session is established (by one, modulo 2^32) *)
Theorem C18_invalidated : forall s o, status s o = StInvalidated <-> op_gen o <> s_gen s.
Proof. exact status_invalidated. Qed.
Theorem C18_generation : forall s l s', sstep s l s' ->
  s_gen s' = s_gen s \/ (exists u m, l = LConnack false u m /\ s_gen s' = (s_gen s + 1) mod 4294967296).
Proof. exact gen_step. Qed.

(* pending exactly while the operation's identifier is in flight; complete otherwise *)
Theorem C18_pending : forall s o, op_gen o = s_gen s ->
  (status s o = StPending <->
   (In (op_pid o) (map re_pid (ob_ret (s_ob s))) \/ (op_kind o = 1 /\ In (op_pid o) (map le_pid (ob_rel (s_ob s)))))).
Proof. exact status_pending. Qed.
Theorem C18_complete : forall s o, status s o = StComplete <-> (op_gen o = s_gen s /\ status s o <> StPending).
Proof. exact status_complete. Qed.

(* identifiers in flight are unique in every reachable state, so the entry with the handle's identifier is the
   handle's own operation, and it leaves the lists only through an acknowledgement naming it *)
Theorem C18_unique : forall c : case,
  NoDup (ids (s_ob (w_sess (run_case c)))) /\ Forall (fun i => 1 <= i <= 65535) (ids (s_ob (w_sess (run_case c)))).
Proof. exact reachable_ids. Qed.
Theorem C18_only_its_ack : forall s l s' pid ub, sstep s l s' -> Inv s -> has_entry (s_ob s) pid ub ->
  has_entry (s_ob s') pid ub \/
  (exists p ok, l = LPacket ok /\ names p pid /\ s' = fst (handle_packet s p)) \/
  (exists u m, l = LConnack false u m).
Proof. exact entry_persist. Qed.

(* a failure reason code is surfaced as Rejected by the call that consumed the acknowledgement, after the entry
   has been removed *)
Theorem C18_puback_rejected : forall s pid rc o, ack_packet (s_ob s) pid = (o, true) -> rc_success rc = false ->
  handle_packet s (RPubAck pid rc) = (set_rt (set_ob s o) (quota_inc (s_rt s)), HErr (ERejected rc)).
Proof. exact puback_rejected. Qed.
Theorem C18_pubrec_rejected : forall s pid rc o, ack_packet (s_ob s) pid = (o, true) -> rc_success rc = false ->
  handle_packet s (RPubRec pid rc) = (set_rt (set_ob s o) (quota_inc (s_rt s)), HErr (ERejected rc)).
Proof. exact pubrec_rejected_ends_exchange. Qed.

Print Assumptions C18_invalidated.
Print Assumptions C18_generation.
Print Assumptions C18_pending.
Print Assumptions C18_complete.
Print Assumptions C18_unique.
Print Assumptions C18_only_its_ack.
Print Assumptions C18_puback_rejected.
Print Assumptions C18_pubrec_rejected.
