(* C11 — A dead connection handle stays dead and never touches the transport again.  Statements only. *)
From Coq Require Import List NArith.
From Minimq Require Import Bytes Varint Utf8 Props Ser De Reader Arena Core Show Machine.
From Minimq Require Import Latch.
Import ListNotations.

(* `fatal` are the results of the property's list as they surface in the API: a transport error, the disconnected
   error (end of stream, broker DISCONNECT, keep-alive timeout, or a dead handle) and the invalid-packet error.
   `latched r` says: if operation result r is one of them, the handle is dead afterwards. *)
Theorem C11_latch_poll : forall fuel w, latched (op_poll fuel w).
Proof. exact latched_poll. Qed.
Theorem C11_latch_recv : forall fuel w, latched (op_recv fuel w).
Proof. exact latched_recv. Qed.
Theorem C11_latch_drive : forall fuel w, latched (op_drive fuel w).
Proof. exact latched_drive. Qed.
Theorem C11_latch_publish : forall fuel r w, latched (op_publish fuel r w).
Proof. exact latched_publish. Qed.
Theorem C11_latch_subscribe : forall fuel t ps w, latched (op_subscribe fuel t ps w).
Proof. exact latched_subscribe. Qed.
Theorem C11_latch_unsubscribe : forall fuel t ps w, latched (op_unsubscribe fuel t ps w).
Proof. exact latched_unsubscribe. Qed.
Theorem C11_latch_disconnect : forall fuel d w bs w' r,
  w_live w = true -> disconnect_prepare (w_sess w) d = DPOk bs ->
  op_disconnect fuel d w = (w', r) -> r <> OCancel -> r <> OFuel -> r <> OPanic -> w_live w' = false.
Proof. exact disconnect_latches. Qed.

(* On a dead handle every network operation returns the disconnected error (disconnect returns Ok) and the
   world is returned unchanged: session state, I/O log, script position, clock — so no read, write or flush
   happened and is_connected / can_publish (which are `w_live && ...`) stay false for good. *)
Theorem C11_dead_poll : forall fuel w, w_live w = false -> op_poll (S fuel) w = (w, OFail EDisconnected).
Proof. exact dead_poll. Qed.
Theorem C11_dead_recv : forall fuel w, w_live w = false -> op_recv (S fuel) w = (w, OFail EDisconnected).
Proof. exact dead_recv. Qed.
Theorem C11_dead_drive : forall fuel w, w_live w = false -> op_drive fuel w = (w, OFail EDisconnected).
Proof. exact dead_drive. Qed.
Theorem C11_dead_publish : forall fuel r w, w_live w = false -> op_publish fuel r w = (w, OFail EDisconnected).
Proof. exact dead_publish. Qed.
Theorem C11_dead_subscribe : forall fuel t ps w, w_live w = false -> op_subscribe fuel t ps w = (w, OFail EDisconnected).
Proof. exact dead_subscribe. Qed.
Theorem C11_dead_unsubscribe : forall fuel t ps w, w_live w = false -> op_unsubscribe fuel t ps w = (w, OFail EDisconnected).
Proof. exact dead_unsubscribe. Qed.
Theorem C11_dead_disconnect : forall fuel d w, w_live w = false -> op_disconnect fuel d w = (w, ODone tt).
Proof. exact dead_disconnect. Qed.

Print Assumptions C11_latch_poll.
Print Assumptions C11_latch_recv.
Print Assumptions C11_latch_drive.
Print Assumptions C11_latch_publish.
Print Assumptions C11_latch_subscribe.
Print Assumptions C11_latch_unsubscribe.
Print Assumptions C11_latch_disconnect.
Print Assumptions C11_dead_poll.
Print Assumptions C11_dead_recv.
Print Assumptions C11_dead_drive.
Print Assumptions C11_dead_publish.
Print Assumptions C11_dead_subscribe.
Print Assumptions C11_dead_unsubscribe.
Print Assumptions C11_dead_disconnect.
