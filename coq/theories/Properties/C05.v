(* C05 — Fresh vs. resumed broker session is mirrored in local state and replay.  Statements only. *)
From Coq Require Import List NArith.
From Minimq Require Import Bytes Varint Utf8 Props Ser De Reader Arena Core.
From Minimq Require Import Inv Lts Status.
Import ListNotations.
Open Scope N_scope.

(* CONNECT asks for a clean start exactly while no CONNACK has succeeded, with the configured or assigned id *)
Theorem C05_clean_start : forall s, cq_clean (connect_request s) = negb (s_sp s).
Proof. exact clean_start_mirror. Qed.
Theorem C05_client_id : forall s, cq_client_id (connect_request s) = s_client_id s.
Proof. exact connect_client_id. Qed.
Theorem C05_success_sets : forall s p now r, snd (connack_process s p now) = CAOk r -> s_sp (fst (connack_process s p now)) = true.
Proof. exact connack_sets_sp. Qed.
(* once a CONNACK has succeeded no step of any operation — in particular no rejected, garbled or invalid CONNACK —
   ever makes the client ask for a clean start again *)
Theorem C05_resume_for_good : forall s l s', sstep s l s' -> s_sp s = true -> s_sp s' = true.
Proof. exact sp_monotone. Qed.
Theorem C05_failed_connack_keeps_session : forall s p now s' e d, connack_process s p now = (s', CAErr e d) -> s' = s.
Proof. exact connack_failed_keeps. Qed.

(* broker reports no session: everything in flight is discarded, all earlier handles are invalidated *)
Theorem C05_fresh : forall s p now s', connack_process s p now = (s', CAOk false) ->
  s_ob s' = ob_clear (s_ob s) /\ s_srv s' = [] /\ s_gen s' = (s_gen s + 1) mod 4294967296 /\ s_pid s' = 1 /\
  (forall o, op_gen o = s_gen s -> s_gen s < 4294967296 -> status s' o = StInvalidated).
Proof. exact connack_fresh. Qed.

(* broker reports a session: nothing in flight is touched; the connect prelude has rewound every entry *)
Theorem C05_resumed : forall s p now s', connack_process s p now = (s', CAOk true) ->
  s_ob s' = s_ob s /\ s_srv s' = s_srv s /\ s_gen s' = s_gen s /\ s_pid s' = s_pid s.
Proof. exact connack_resumed. Qed.
Theorem C05_replay_armed : forall o, has_pending_state o = true ->
  Forall (fun e => re_st e = SWrite 0) (ob_ret (arm_replay o)) /\
  Forall (fun e => le_st e = SWrite 0) (ob_rel (arm_replay o)) /\
  Forall (fun e => ce_st e = SWrite 0) (ob_ctl (arm_replay o)) /\
  map re_pid (ob_ret (arm_replay o)) = map re_pid (ob_ret o) /\
  map le_pid (ob_rel (arm_replay o)) = map le_pid (ob_rel o).
Proof. exact arm_replay_states. Qed.

Print Assumptions C05_clean_start.
Print Assumptions C05_client_id.
Print Assumptions C05_success_sets.
Print Assumptions C05_resume_for_good.
Print Assumptions C05_failed_connack_keeps_session.
Print Assumptions C05_fresh.
Print Assumptions C05_resumed.
Print Assumptions C05_replay_armed.
