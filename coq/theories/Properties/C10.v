(* C10 — keep-alive: PINGREQ cadence and dead-peer detection follow the negotiated time.  Statements only.
   Times are virtual milliseconds; K = rt_ka_ms is the effective keep-alive (Server Keep Alive if the CONNACK
   carried one, else the configured value: C09).  The theorems characterise every function the machine calls on
   its timers; which instants the machine calls them at is checked against the implementation by the
   correspondence run and the timing monitor (lib/monitors.py mon_c10). *)
From Coq Require Import List NArith.
From Minimq Require Import Bytes Varint Utf8 Props Ser De Reader Arena Core Show Machine Run.
From Minimq Require Import Lts KeepAlive KeepAliveReach.
Import ListNotations.
Open Scope N_scope.

(* every completed outbound packet (and the CONNACK) schedules the next PINGREQ at  now + K - min(5 s, K/2),
   which is never later than K after the completion *)
Theorem C10_next_ping_within_keepalive : forall r now, 0 < rt_ka_ms r ->
  exists d, rt_next_ping (note_outbound_activity r now) = Some d /\ now <= d /\ d <= now + rt_ka_ms r
            /\ d + ka_lead (rt_ka_ms r) = now + rt_ka_ms r.
Proof. exact activity_deadline. Qed.

(* the PINGREQ is queued at the first service at or after that instant (ties included) unless one is outstanding … *)
Theorem C10_ping_when_due : forall s now d, rt_next_ping (s_rt s) = Some d -> d <= now ->
  rt_ping_timeout (s_rt s) = None -> has_pending_pingreq (s_ob s) = false -> should_queue_pingreq s now = true.
Proof. exact ping_when_due. Qed.

(* … and never before it, never twice *)
Theorem C10_ping_only_when_due : forall s now, should_queue_pingreq s now = true ->
  (exists d, rt_next_ping (s_rt s) = Some d /\ d <= now) /\ rt_ping_timeout (s_rt s) = None
  /\ has_pending_pingreq (s_ob s) = false.
Proof. exact ping_only_when_due. Qed.

(* the wait sleeps until the earlier of the two instants *)
Theorem C10_deadline_is_earliest : forall r d, next_deadline r = Some d ->
  (forall x, rt_next_ping r = Some x -> d <= x) /\ (forall x, rt_ping_timeout r = Some x -> d <= x) /\
  (rt_next_ping r = Some d \/ rt_ping_timeout r = Some d).
Proof. exact deadline_is_earliest. Qed.

(* keep-alive zero: in every reachable world nothing is scheduled and nothing is queued *)
Theorem C10_zero_sends_no_ping : forall c now,
  rt_ka_ms (s_rt (w_sess (run_case c))) = 0 ->
  maybe_queue_pingreq (w_sess (run_case c)) now = (w_sess (run_case c), None) /\
  rt_next_ping (s_rt (w_sess (run_case c))) = None.
Proof. exact reachable_ka0_no_ping. Qed.

(* the timeout is armed by the flush of a PINGREQ, 5 s after it, and by nothing else *)
Theorem C10_pingreq_flush_arms : forall s now,
  rt_ping_timeout (s_rt (fst (complete_flush s (FCtl CPing) now))) = Some (now + ROUND_TRIP_TIMEOUT_MS).
Proof. exact pingreq_flush_arms. Qed.
Theorem C10_other_flush_keeps_timeout : forall s p now, p <> FCtl CPing ->
  rt_ping_timeout (s_rt (fst (complete_flush s p now))) = rt_ping_timeout (s_rt s).
Proof. exact other_flush_keeps_timeout. Qed.
Theorem C10_packets_never_arm : forall s p d,
  rt_ping_timeout (s_rt (fst (handle_packet s p))) = Some d -> rt_ping_timeout (s_rt s) = Some d.
Proof. exact handle_packet_timeout. Qed.

(* disconnect at the bound, not a millisecond earlier *)
Theorem C10_no_timeout_before_bound : forall s tp now, now < tp + ROUND_TRIP_TIMEOUT_MS ->
  ping_timed_out (fst (complete_flush s (FCtl CPing) tp)) now = false.
Proof. exact no_timeout_before_bound. Qed.
Theorem C10_timeout_at_bound : forall s tp now, tp + ROUND_TRIP_TIMEOUT_MS <= now ->
  ping_timed_out (fst (complete_flush s (FCtl CPing) tp)) now = true.
Proof. exact timeout_at_bound. Qed.
Theorem C10_service_disconnects : forall now w,
  ping_timed_out (w_sess w) now = true -> snd (service now w) = OFail EDisconnected.
Proof. exact service_disconnects_iff_timed_out. Qed.

(* a PINGRESP handled before the check clears the timeout for good *)
Theorem C10_pingresp_clears : forall s now,
  rt_ping_timeout (s_rt (fst (handle_packet s RPingResp))) = None /\
  ping_timed_out (fst (handle_packet s RPingResp)) now = false /\
  snd (handle_packet s RPingResp) = HOk false.
Proof. exact pingresp_clears. Qed.

(* K >= 10 s: by the time the next PINGREQ is due the outstanding one is answered or timed out *)
Theorem C10_long_keepalive_never_blocked : forall s tp d,
  2 * ROUND_TRIP_TIMEOUT_MS <= rt_ka_ms (s_rt s) ->
  rt_next_ping (s_rt (fst (complete_flush s (FCtl CPing) tp))) = Some d ->
  tp + ROUND_TRIP_TIMEOUT_MS <= d /\ d <= tp + rt_ka_ms (s_rt s).
Proof. exact long_keepalive_never_blocked. Qed.

(* refuted for K < 5 s (known finding K10): with K = 1 s a client whose PINGREQ completed at t = 1000 neither
   sends nor times out before t = 6000 *)
Theorem C10_gap_refuted_small_keepalive :
  rt_ka_ms (s_rt k10_session) = 1000 /\
  forall now, 1000 <= now -> now < 6000 ->
    should_queue_pingreq k10_session now = false /\ ping_timed_out k10_session now = false
    /\ next_step (s_ob k10_session) = None.
Proof. exact keepalive_gap_refuted_small_k. Qed.

From Minimq Require Import Machine Run WireInv Wire PingQuiet Healthy Owed Framing PingAt.

(* ---- the instants, at the level of the machine (virtual clock) ----
   While the application waits in poll() on a behaving transport with nothing to send and nothing arriving, the wait sleeps
   exactly until the PINGREQ deadline `d` (= last outbound activity + K - min(5 s, K/2) <= last activity + K), and AT `d`
   the PINGREQ is queued, written and flushed (nothing else reaches the wire), the round-trip timer is armed for d + 5 s,
   and no further PINGREQ is due. *)
Theorem C10_poll_pings_at_deadline : forall w d,
  Hc w -> rdata (rd w) = [] -> rplen (rd w) = None -> 1 <= rcap (rd w) ->
  next_step (s_ob (w_sess w)) = None ->
  rt_next_ping (s_rt (w_sess w)) = Some d -> w_now w < d -> rt_ping_timeout (s_rt (w_sess w)) = None ->
  w_inq w = [] -> w_waits w < MAX_WAITS ->
  exists w', op_poll FUEL w = (w', ODone None) /\ w_now w' = d /\ w_wire w' = w_wire w ++ [192; 0] /\
    rt_ping_timeout (s_rt (w_sess w')) = Some (d + ROUND_TRIP_TIMEOUT_MS) /\
    PQ w' /\ next_step (s_ob (w_sess w')) = None.
Proof. exact poll_pings_at_deadline. Qed.

(* An unanswered PINGREQ: the wait ends with the disconnected error exactly when the round-trip bound expires - not
   earlier (the clock reads `t`), not later - the handle is dead and nothing more was written. *)
Theorem C10_poll_times_out_at_bound : forall w t,
  Hc w -> rdata (rd w) = [] -> rplen (rd w) = None -> 1 <= rcap (rd w) ->
  next_step (s_ob (w_sess w)) = None ->
  rt_ping_timeout (s_rt (w_sess w)) = Some t -> w_now w < t ->
  (forall d, rt_next_ping (s_rt (w_sess w)) = Some d -> t <= d) ->
  w_inq w = [] -> w_waits w < MAX_WAITS ->
  exists w', op_poll FUEL w = (w', OFail EDisconnected) /\ w_now w' = t /\ w_live w' = false /\ w_wire w' = w_wire w.
Proof. exact poll_times_out_at_bound. Qed.

(* computed: keep-alive 30 s, a broker that stays silent after CONNACK: PINGREQ at 25 s, disconnected at 30 s *)
Theorem C10_ping_example :
  w_now ex_ka = 0 /\ rt_next_ping (s_rt (w_sess ex_ka)) = Some 25000 /\
  snd (op_poll FUEL ex_ka) = ODone None /\ w_now ex_ka2 = 25000 /\ w_wire ex_ka2 = w_wire ex_ka ++ [192; 0] /\
  rt_ping_timeout (s_rt (w_sess ex_ka2)) = Some 30000 /\ rt_next_ping (s_rt (w_sess ex_ka2)) = Some 50000 /\
  snd (op_poll FUEL ex_ka2) = OFail EDisconnected /\ w_now (fst (op_poll FUEL ex_ka2)) = 30000 /\
  w_live (fst (op_poll FUEL ex_ka2)) = false.
Proof. exact ping_example. Qed.

Theorem C10_ping_hyps_met :
  Hc ex_ka /\ rdata (rd ex_ka) = [] /\ rplen (rd ex_ka) = None /\ 1 <= rcap (rd ex_ka) /\
  next_step (s_ob (w_sess ex_ka)) = None /\ rt_next_ping (s_rt (w_sess ex_ka)) = Some 25000 /\ w_now ex_ka < 25000 /\
  rt_ping_timeout (s_rt (w_sess ex_ka)) = None /\ w_inq ex_ka = [] /\ w_waits ex_ka < MAX_WAITS.
Proof. exact ping_hyps_met. Qed.


(* A PINGRESP received in time never leads to a disconnect: poll() reads it, clears the round-trip timer, writes nothing, and
   the connection stays alive with the next PINGREQ scheduled as before. *)
Theorem C10_pingresp_in_time_keeps_connection : forall w t t0,
  2 <= rcap (rd w) -> w_live w = true -> rdata (rd w) = [] -> rplen (rd w) = None ->
  next_step (s_ob (w_sess w)) = None ->
  rt_ping_timeout (s_rt (w_sess w)) = Some t0 -> w_now w < t0 ->
  (forall d, rt_next_ping (s_rt (w_sess w)) = Some d -> w_now w < d) ->
  w_script w = [] -> w_inq w = [(t, [208; 0])] -> t <= w_now w ->
  exists w', op_poll FUEL w = (w', ODone None) /\ w_live w' = true /\ w_now w' = w_now w /\ w_wire w' = w_wire w /\
    rt_ping_timeout (s_rt (w_sess w')) = None /\ rt_next_ping (s_rt (w_sess w')) = rt_next_ping (s_rt (w_sess w)) /\
    s_ob (w_sess w') = s_ob (w_sess w).
Proof. exact poll_pingresp_clears. Qed.

Theorem C10_pingresp_example :
  snd (op_poll FUEL ex_kb) = ODone None /\ w_now ex_kb2 = 25000 /\ w_inq ex_kb2 = [(25000, [208; 0])] /\
  rt_ping_timeout (s_rt (w_sess ex_kb2)) = Some 30000 /\
  snd (op_poll FUEL ex_kb2) = ODone None /\ rt_ping_timeout (s_rt (w_sess (fst (op_poll FUEL ex_kb2)))) = None /\
  w_live (fst (op_poll FUEL ex_kb2)) = true /\ w_now (fst (op_poll FUEL ex_kb2)) = 25000.
Proof. exact pingresp_example. Qed.

Print Assumptions C10_next_ping_within_keepalive.
Print Assumptions C10_ping_when_due.
Print Assumptions C10_ping_only_when_due.
Print Assumptions C10_deadline_is_earliest.
Print Assumptions C10_zero_sends_no_ping.
Print Assumptions C10_pingreq_flush_arms.
Print Assumptions C10_other_flush_keeps_timeout.
Print Assumptions C10_packets_never_arm.
Print Assumptions C10_no_timeout_before_bound.
Print Assumptions C10_timeout_at_bound.
Print Assumptions C10_service_disconnects.
Print Assumptions C10_pingresp_clears.
Print Assumptions C10_long_keepalive_never_blocked.
Print Assumptions C10_gap_refuted_small_keepalive.
Print Assumptions C10_poll_pings_at_deadline.
Print Assumptions C10_poll_times_out_at_bound.
Print Assumptions C10_ping_example.
Print Assumptions C10_ping_hyps_met.
Print Assumptions C10_pingresp_in_time_keeps_connection.
Print Assumptions C10_pingresp_example.
