(* C09 — What the broker decodes is exactly what the application asked to send.  Statements only. *)
From Coq Require Import List NArith.
From Minimq Require Import Bytes Varint Utf8 Props Ser De Reader Arena Core.
From Minimq Require Import VarintProofs SerLemmas CodecProofs Status.
Import ListNotations.
Open Scope N_scope.

(* Property::size is exactly the number of bytes Property::serialize emits, for all 27 kinds and all values; hence
   the declared property-block length is the length of the block *)
Theorem C09_property_size : forall p bs, prop_encode p = Some bs -> lenN bs = prop_size p.
Proof. exact prop_size_eq. Qed.
Theorem C09_block_size : forall l bs, encode_all l = Some bs -> lenN bs = sumN (map prop_size l).
Proof. exact props_size_eq. Qed.
Theorem C09_varint_length : forall v bs, varint_write v = Some bs -> lenN bs = varint_len v.
Proof. exact varint_write_len_eq. Qed.

(* the serializer writes the concatenation of all fields or fails: nothing truncated is ever produced *)
Theorem C09_nothing_truncated : forall cs cap idx acc idx' body,
  ser_push cap idx cs acc = SOk idx' body -> exists r, concat_chunks cs = Some r /\ body = acc ++ r.
Proof. exact ser_push_content. Qed.
(* a successful encoding fits the buffer it was given: header right-aligned in the 5 reserved bytes, type nibble
   and flags in the first byte *)
Theorem C09_fits : forall cap typ flags cs off bs,
  encode_chunks cap typ flags cs = SOk off bs ->
  off <= 3 /\ off + lenN bs <= cap /\ 2 <= lenN bs /\ exists t, bs = (typ * 16 + flags mod 16) :: t.
Proof. exact encode_chunks_spec. Qed.
Theorem C09_fits_publish : forall cap typ flags cs payload off bs,
  encode_chunks_payload cap typ flags cs payload = SOk off bs ->
  off <= 3 /\ off + lenN bs <= cap /\ 2 <= lenN bs /\ exists t, bs = (typ * 16 + flags mod 16) :: t.
Proof. exact encode_chunks_payload_spec. Qed.

(* PUBLISH: an independent reading of the bytes (the model's decoder, itself validated against the MQTT table)
   returns precisely the request: topic, identifier, QoS, retain, DUP, every property, the payload *)
Theorem C09_publish_decodes_to_request : forall cap r off bs ps block,
  enc_publish cap r = SOk off bs -> pq_props r = PSlice ps -> encode_all ps = Some block ->
  utf8_valid (pq_topic r) = true -> pid_matches_qos (pq_qos r) (pq_pid r) ->
  from_buffer bs = Some (RPublish (pq_topic r) (pq_pid r) (pq_qos r) (pq_retain r) (pq_dup r) block (pq_payload r)).
Proof. exact publish_roundtrip. Qed.
Theorem C09_properties_decode_to_request : forall ps block,
  encode_all ps = Some block -> forallb prop_wf ps = true -> forallb prop_canon ps = true ->
  props_iter_encoded block = map Some ps.
Proof. exact props_iter_roundtrip. Qed.

(* CONNECT: clean start, client id (and the request built by the handshake: keep-alive, session expiry,
   Receive Maximum 8, Maximum Packet Size = receive buffer) *)
Theorem C09_connect_clean_start : forall s, cq_clean (connect_request s) = negb (s_sp s).
Proof. exact clean_start_mirror. Qed.
Theorem C09_connect_client_id : forall s, cq_client_id (connect_request s) = s_client_id s.
Proof. exact connect_client_id. Qed.

Print Assumptions C09_property_size.
Print Assumptions C09_block_size.
Print Assumptions C09_varint_length.
Print Assumptions C09_nothing_truncated.
Print Assumptions C09_fits.
Print Assumptions C09_fits_publish.
Print Assumptions C09_publish_decodes_to_request.
Print Assumptions C09_properties_decode_to_request.
Print Assumptions C09_connect_clean_start.
Print Assumptions C09_connect_client_id.
