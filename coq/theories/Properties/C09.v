(* C09 — What the broker decodes is exactly what the application asked to send.  Statements only. *)
From Coq Require Import List NArith.
From Minimq Require Import Bytes Varint Utf8 Props Ser De Broker Reader Arena Core.
From Minimq Require Import VarintProofs SerLemmas CodecProofs Status BrokerProofs.
Import ListNotations.
Open Scope N_scope.

(* Property::size is exactly the number of bytes Property::serialize emits, for all 27 kinds and all values; hence
   the declared property-block length is the length of the block *)
Theorem C09_property_size : forall p bs, prop_encode p = Some bs -> lenN bs = prop_size p.
Proof. exact prop_size_eq. Qed.
Theorem C09_block_size : forall l bs, encode_all l = Some bs -> lenN bs = sumN (map prop_size l).
Proof. exact props_size_eq. Qed.
Theorem C09_varint_length : forall v bs, varint_write v = Some bs -> lenN bs = varint_len v.
Proof. exact varint_write_len_eq. Qed.

(* the serializer writes the concatenation of all fields or fails: nothing truncated is ever produced *)
Theorem C09_nothing_truncated : forall cs cap idx acc idx' body,
  ser_push cap idx cs acc = SOk idx' body -> exists r, concat_chunks cs = Some r /\ body = acc ++ r.
Proof. exact ser_push_content. Qed.
(* a successful encoding fits the buffer it was given: header right-aligned in the 5 reserved bytes, type nibble
   and flags in the first byte *)
Theorem C09_fits : forall cap typ flags cs off bs,
  encode_chunks cap typ flags cs = SOk off bs ->
  off <= 3 /\ off + lenN bs <= cap /\ 2 <= lenN bs /\ exists t, bs = (typ * 16 + flags mod 16) :: t.
Proof. exact encode_chunks_spec. Qed.
Theorem C09_fits_publish : forall cap typ flags cs payload off bs,
  encode_chunks_payload cap typ flags cs payload = SOk off bs ->
  off <= 3 /\ off + lenN bs <= cap /\ 2 <= lenN bs /\ exists t, bs = (typ * 16 + flags mod 16) :: t.
Proof. exact encode_chunks_payload_spec. Qed.

(* PUBLISH: an independent reading of the bytes (the model's decoder, itself validated against the MQTT table)
   returns precisely the request: topic, identifier, QoS, retain, DUP, every property, the payload *)
Theorem C09_publish_decodes_to_request : forall cap r off bs ps block,
  enc_publish cap r = SOk off bs -> pq_props r = PSlice ps -> encode_all ps = Some block ->
  utf8_valid (pq_topic r) = true -> pid_matches_qos (pq_qos r) (pq_pid r) ->
  from_buffer bs = Some (RPublish (pq_topic r) (pq_pid r) (pq_qos r) (pq_retain r) (pq_dup r) block (pq_payload r)).
Proof. exact publish_roundtrip. Qed.
Theorem C09_properties_decode_to_request : forall ps block,
  encode_all ps = Some block -> forallb prop_wf ps = true -> forallb prop_canon ps = true ->
  props_iter_encoded block = map Some ps.
Proof. exact props_iter_roundtrip. Qed.

(* CONNECT: clean start, client id (and the request built by the handshake: keep-alive, session expiry,
   Receive Maximum 8, Maximum Packet Size = receive buffer) *)
Theorem C09_connect_clean_start : forall s, cq_clean (connect_request s) = negb (s_sp s).
Proof. exact clean_start_mirror. Qed.
Theorem C09_connect_client_id : forall s, cq_client_id (connect_request s) = s_client_id s.
Proof. exact connect_client_id. Qed.

(* ---------------- every other client packet: the broker-side decoder (Model/Broker.v, written from MQTT 5 sections
   3.1, 3.8, 3.10, 3.14) reads from the encoder's output exactly the request — for every request the encoder accepts,
   every buffer size, all lengths symbolic.  `props_ok` = every property value fits its Rust type and uses the
   canonical fields of the model's record (what the harness and the API can build). ---------------- *)
Theorem C09_connect_decodes_to_request : forall cap r off bs,
  enc_connect cap r = SOk off bs -> cq_keepalive r < 65536 -> props_ok (cq_props r) ->
  (forall w, cq_will r = Some w -> props_ok (w_props w)) ->
  broker_decode bs = Some (BConnect r).
Proof. exact connect_roundtrip. Qed.

(* the CONNECT a session sends: client id, clean start, keep-alive, session expiry, Receive Maximum 8, Maximum Packet
   Size = the receive buffer, will, credentials — as configured *)
Theorem C09_session_connect_decodes : forall s cap off bs,
  cf_expiry (s_cfg s) < 4294967296 ->
  (forall w, cf_will (s_cfg s) = Some w -> props_ok (w_props w)) ->
  enc_connect cap (connect_request s) = SOk off bs ->
  broker_decode bs = Some (BConnect (connect_request s)) /\
  cq_keepalive (connect_request s) = cf_keepalive_s (s_cfg s) mod 65536 /\
  cq_clean (connect_request s) = negb (s_sp s) /\ cq_client_id (connect_request s) = s_client_id s /\
  cq_will (connect_request s) = cf_will (s_cfg s) /\ cq_auth (connect_request s) = cf_auth (s_cfg s) /\
  In (mkprop KMaximumPacketSize (rcap (s_reader s) mod 4294967296) [] []) (cq_props (connect_request s)) /\
  In (mkprop KSessionExpiryInterval (cf_expiry (s_cfg s)) [] []) (cq_props (connect_request s)) /\
  In (mkprop KReceiveMaximum 8 [] []) (cq_props (connect_request s)).
Proof. exact session_connect_decodes. Qed.

Theorem C09_subscribe_decodes_to_request : forall cap r off bs,
  enc_subscribe cap r = SOk off bs -> sq_pid r < 65536 -> props_ok (sq_props r) -> sq_topics r <> [] ->
  Forall (fun t : bytes * sub_opts => so_rh (snd t) <= 2) (sq_topics r) ->
  broker_decode bs = Some (BSubscribe r).
Proof. exact subscribe_roundtrip. Qed.

Theorem C09_unsubscribe_decodes_to_request : forall cap r off bs,
  enc_unsubscribe cap r = SOk off bs -> uq_pid r < 65536 -> props_ok (uq_props r) -> uq_topics r <> [] ->
  broker_decode bs = Some (BUnsubscribe r).
Proof. exact unsubscribe_roundtrip. Qed.

(* DISCONNECT: the reason the broker reads is the ReasonCode the request holds (a byte naming no variant is
   ReasonCode::Unknown = 0xFF, rc_norm); properties only together with a reason *)
Theorem C09_disconnect_decodes_to_request : forall cap r off bs,
  enc_disconnect cap r = SOk off bs ->
  (dq_reason r = None -> dq_props r = None) ->
  (forall l, dq_props r = Some l -> props_ok l) ->
  broker_decode bs = Some (BDisconnect {| dq_reason := match dq_reason r with Some c => Some (rc_norm c) | None => None end;
                                          dq_props := dq_props r |}).
Proof. exact disconnect_roundtrip. Qed.

(* acknowledgements: identifier and reason read back by the packet decoder *)
Theorem C09_ack_decodes_to_request : forall typ pid rc off bs, In typ [4; 5; 6; 7] -> pid < 65536 ->
  enc_ack CONTROL_PACKET_LEN typ pid rc = SOk off bs -> from_buffer bs = Some (ack_packet_of typ pid (rc_norm rc)).
Proof. exact ack_roundtrip. Qed.

(* the premises are met by a request with will, credentials, properties and several filters (computed) *)
Theorem C09_roundtrip_examples :
  (exists off bs, enc_connect 100 ex_connect = SOk off bs /\ broker_decode bs = Some (BConnect ex_connect)) /\
  (exists off bs, enc_subscribe 100 ex_subscribe = SOk off bs /\ broker_decode bs = Some (BSubscribe ex_subscribe)) /\
  forallb prop_wf (cq_props ex_connect) = true /\ forallb prop_canon (sq_props ex_subscribe) = true.
Proof. exact roundtrip_examples. Qed.

From Minimq Require Import Machine Run WireInv Wire PingQuiet Healthy Owed Replay Sends.

(* ---- the request on the wire ----
   A publish with QoS 1 or 2 (subscribe, unsubscribe) that returns its handle has put on the wire exactly what the queues
   owed before, followed by the encoding of the request under the identifier of the handle, and nothing else — on ANY
   transport, however it cuts the writes; with the decode theorems above, what the broker reads is the request. *)
Theorem C09_publish_on_wire : forall fuel r w w' op,
  WInv (w_sess w) -> PQ w -> op_publish fuel r w = (w', ODone (Some op)) ->
  exists w1 bs cap off,
    flush_outbound fuel w = (w1, ODone tt) /\
    enc_publish cap (pub_request r (effective_qos (w_sess w1) (pr_qos r)) (op_pid op)) = SOk off bs /\
    w_wire w' = w_wire w ++ owed (s_ob (w_sess w)) ++ bs /\ next_step (s_ob (w_sess w')) = None.
Proof. exact op_publish_wire. Qed.

Theorem C09_subscribe_on_wire : forall fuel topics ps w w' op,
  WInv (w_sess w) -> PQ w -> op_subscribe fuel topics ps w = (w', ODone (Some op)) ->
  exists bs cap off,
    enc_subscribe cap {| sq_pid := op_pid op; sq_props := ps; sq_topics := topics |} = SOk off bs /\
    w_wire w' = w_wire w ++ owed (s_ob (w_sess w)) ++ bs /\ next_step (s_ob (w_sess w')) = None.
Proof. exact op_subscribe_wire. Qed.

Theorem C09_unsubscribe_on_wire : forall fuel topics ps w w' op,
  WInv (w_sess w) -> PQ w -> op_unsubscribe fuel topics ps w = (w', ODone (Some op)) ->
  exists bs cap off,
    enc_unsubscribe cap {| uq_pid := op_pid op; uq_props := ps; uq_topics := topics |} = SOk off bs /\
    w_wire w' = w_wire w ++ owed (s_ob (w_sess w)) ++ bs /\ next_step (s_ob (w_sess w')) = None.
Proof. exact op_unsubscribe_wire. Qed.

(* computed: on the resumed connection of Replay.v (queues owe PUBACK 7, PUBREL 2, PUBLISH 1 DUP), three bytes at a time *)
Theorem C09_publish_on_wire_example :
  snd (op_publish FUEL ex_pub3 ex_frag) = ODone (Some {| op_kind := 0; op_pid := 3; op_gen := 1 |}) /\
  owed (s_ob (w_sess ex_frag)) = [64; 3; 0; 7; 0; 98; 3; 0; 2; 0; 58; 9; 0; 1; 116; 0; 1; 0; 1; 2; 3] /\
  w_wire (fst (op_publish FUEL ex_pub3 ex_frag)) =
    w_wire ex_frag ++ owed (s_ob (w_sess ex_frag)) ++ [51; 8; 0; 1; 118; 0; 3; 0; 7; 7].
Proof. exact publish_wire_example. Qed.


(* QoS 0: written directly, behind the drained queues *)
Theorem C09_publish_q0_on_wire : forall fuel r w w',
  WInv (w_sess w) -> PQ w -> op_publish fuel r w = (w', ODone None) ->
  exists w1 bs cap off,
    flush_outbound fuel w = (w1, ODone tt) /\ effective_qos (w_sess w1) (pr_qos r) = Q0 /\
    enc_publish cap (pub_request0 r) = SOk off bs /\
    w_wire w' = w_wire w ++ owed (s_ob (w_sess w)) ++ bs.
Proof. exact op_publish_q0_wire. Qed.

From Minimq Require Import Pings.

(* ---- and on EVERY transport, with no assumption on the timers or on the time the writes take (`ins X Y`: Y is X, or X with
   one PINGREQ inserted - a PINGREQ that fell due while the operation was draining) ---- *)
Theorem C09_publish_on_wire_every_transport : forall fuel r w w' op,
  WInv (w_sess w) -> op_publish fuel r w = (w', ODone (Some op)) ->
  exists w1 bs cap off Y,
    flush_outbound fuel w = (w1, ODone tt) /\
    enc_publish cap (pub_request r (effective_qos (w_sess w1) (pr_qos r)) (op_pid op)) = SOk off bs /\
    ins (owed (s_ob (w_sess w)) ++ bs) Y /\ w_wire w' = w_wire w ++ Y /\ next_step (s_ob (w_sess w')) = None.
Proof. exact op_publish_wire_every_transport. Qed.

Theorem C09_subscribe_on_wire_every_transport : forall fuel topics ps w w' op,
  WInv (w_sess w) -> op_subscribe fuel topics ps w = (w', ODone (Some op)) ->
  exists bs cap off Y,
    enc_subscribe cap {| sq_pid := op_pid op; sq_props := ps; sq_topics := topics |} = SOk off bs /\
    ins (owed (s_ob (w_sess w)) ++ bs) Y /\ w_wire w' = w_wire w ++ Y /\ next_step (s_ob (w_sess w')) = None.
Proof. exact op_subscribe_wire_every_transport. Qed.

Theorem C09_unsubscribe_on_wire_every_transport : forall fuel topics ps w w' op,
  WInv (w_sess w) -> op_unsubscribe fuel topics ps w = (w', ODone (Some op)) ->
  exists bs cap off Y,
    enc_unsubscribe cap {| uq_pid := op_pid op; uq_props := ps; uq_topics := topics |} = SOk off bs /\
    ins (owed (s_ob (w_sess w)) ++ bs) Y /\ w_wire w' = w_wire w ++ Y /\ next_step (s_ob (w_sess w')) = None.
Proof. exact op_unsubscribe_wire_every_transport. Qed.

Print Assumptions C09_property_size.
Print Assumptions C09_block_size.
Print Assumptions C09_varint_length.
Print Assumptions C09_nothing_truncated.
Print Assumptions C09_fits.
Print Assumptions C09_fits_publish.
Print Assumptions C09_publish_decodes_to_request.
Print Assumptions C09_properties_decode_to_request.
Print Assumptions C09_connect_clean_start.
Print Assumptions C09_connect_client_id.
Print Assumptions C09_connect_decodes_to_request.
Print Assumptions C09_session_connect_decodes.
Print Assumptions C09_subscribe_decodes_to_request.
Print Assumptions C09_unsubscribe_decodes_to_request.
Print Assumptions C09_disconnect_decodes_to_request.
Print Assumptions C09_ack_decodes_to_request.
Print Assumptions C09_roundtrip_examples.
Print Assumptions C09_publish_on_wire.
Print Assumptions C09_subscribe_on_wire.
Print Assumptions C09_unsubscribe_on_wire.
Print Assumptions C09_publish_on_wire_example.
Print Assumptions C09_publish_q0_on_wire.
Print Assumptions C09_publish_on_wire_every_transport.
Print Assumptions C09_subscribe_on_wire_every_transport.
Print Assumptions C09_unsubscribe_on_wire_every_transport.
