(* C17 — Transmit arena: retained packets stay intact and capacity is fully recovered.  Statements only. *)
From Coq Require Import List NArith.
From Minimq Require Import Bytes Varint Utf8 Props Ser De Reader Arena Core Show Machine Parse Run.
From Minimq Require Import ArenaLemmas ArenaOps Inv Cap Reach.
Import ListNotations.
Open Scope N_scope.

(* `abs o` is the abstract view of the arena: the list of (identifier, bytes, send state) of the retained packets,
   the bytes being read from the concrete buffer at the entry's offset.  `arena_wf` is the geometry invariant
   (entries in increasing offset order, pairwise disjoint, inside [0, used), used <= capacity); it holds in
   every reachable state (C17_geometry), so every slice access / copy_within of the Rust code is in bounds. *)
Theorem C17_geometry : forall c : case, arena_wf (s_ob (w_sess (run_case c))).
Proof. exact reachable_arena_wf. Qed.

(* (a) every arena operation leaves the bytes of the packets that stay retained untouched *)
Theorem C17_compact : forall o, arena_wf o ->
  arena_wf (compact o) /\ abs (compact o) = abs o /\
  ob_used (compact o) = used_after_compact o /\ lenN (ob_buf (compact o)) = lenN (ob_buf o) /\
  ob_ctl (compact o) = ob_ctl o /\ ob_rel (compact o) = ob_rel o /\
  map re_pid (ob_ret (compact o)) = map re_pid (ob_ret o) /\
  map re_len (ob_ret (compact o)) = map re_len (ob_ret o) /\
  map re_st (ob_ret (compact o)) = map re_st (ob_ret o) /\
  ob_used (compact o) <= ob_used o.
Proof. exact compact_spec. Qed.

Theorem C17_ack : forall o pid o' found, arena_wf o -> ack_packet o pid = (o', found) ->
  arena_wf o' /\ ob_ctl o' = ob_ctl o /\ ob_rel o' = ob_rel o /\ lenN (ob_buf o') = lenN (ob_buf o) /\
  (if found then abs_remove pid (abs o) = Some (abs o') else o' = o /\ abs_remove pid (abs o) = None).
Proof. exact ack_packet_spec. Qed.

Theorem C17_new_packet : forall o enc o1 off len pid o2,
  arena_wf o ->
  (forall cap off' bs, enc cap = SOk off' bs -> off' + lenN bs <= cap /\ 2 <= lenN bs) ->
  encode_at o enc = (o1, EOk off len) ->
  retain_packet o1 pid off len = Some o2 ->
  exists bs, arena_wf o2 /\ abs o2 = abs o ++ [(pid, bs, SWrite 0)] /\ lenN bs = len /\
    (exists cap off', enc cap = SOk off' bs) /\
    ob_ctl o2 = ob_ctl o /\ ob_rel o2 = ob_rel o /\ lenN (ob_buf o2) = lenN (ob_buf o).
Proof. exact encode_retain_spec. Qed.

(* replay marks DUP (bit 3 of the first byte) and changes nothing else: every retransmission equals the first
   transmission except for the DUP bit *)
Theorem C17_dup_only : forall o, arena_wf o ->
  arena_wf (mark_retained_dup o) /\ abs (mark_retained_dup o) = map dup_aentry (abs o) /\
  ob_ret (mark_retained_dup o) = ob_ret o /\ ob_ctl (mark_retained_dup o) = ob_ctl o /\
  ob_rel (mark_retained_dup o) = ob_rel o /\ ob_used (mark_retained_dup o) = ob_used o /\
  lenN (ob_buf (mark_retained_dup o)) = lenN (ob_buf o).
Proof. exact mark_retained_dup_spec. Qed.

(* (b) neither arena bytes nor in-flight slots leak: the arena never changes size, and with nothing retained a
   session that lived through any history admits and encodes exactly what a brand-new arena does *)
Theorem C17_capacity_constant : forall c : case,
  lenN (ob_buf (s_ob (w_sess (run_case c)))) = cf_tx (c_cfg c).
Proof. exact reachable_Cap. Qed.

Theorem C17_recovered_admission : forall o cap, ob_ret o = [] -> lenN (ob_buf o) = cap ->
  scratch_len o = scratch_len (ob_new cap) /\ can_retain o = can_retain (ob_new cap) /\
  retained_full o = retained_full (ob_new cap).
Proof. exact quiescent_admission_same. Qed.

Theorem C17_recovered_encode : forall o cap enc, ob_ret o = [] -> lenN (ob_buf o) = cap ->
  snd (encode_at o enc) = snd (encode_at (ob_new cap) enc).
Proof. exact quiescent_encode_same. Qed.

Print Assumptions C17_geometry.
Print Assumptions C17_compact.
Print Assumptions C17_ack.
Print Assumptions C17_new_packet.
Print Assumptions C17_dup_only.
Print Assumptions C17_capacity_constant.
Print Assumptions C17_recovered_admission.
Print Assumptions C17_recovered_encode.
