(* C07 — Packet identifiers in flight are non-zero and pairwise distinct.
   Statements only; proofs are in Proofs/Inv.v and Proofs/Reach.v. *)
From Coq Require Import List NArith.
From Minimq Require Import Bytes Varint Utf8 Props Ser De Reader Arena Core Show Machine Parse Run.
From Minimq Require Import Inv Reach AllocExact.
Import ListNotations.

(* the identifiers of the operations still waiting for their final acknowledgement: retained
   PUBLISH / SUBSCRIBE / UNSUBSCRIBE packets and PUBRELs waiting for PUBCOMP *)
Definition in_flight (s : session) : list N := ids (s_ob s).

(* For every program (any number of operations, any history length — in particular more than 65535
   identifier allocations), every script (every schedule of partial writes, faults, cancellations) and every
   broker behaviour: in the reached state all identifiers in flight are in 1..65535 and pairwise distinct. *)
Theorem C07_ids_distinct : forall c : case,
  NoDup (in_flight (w_sess (run_case c))) /\
  Forall (fun i => (1 <= i <= 65535)%N) (in_flight (w_sess (run_case c))).
Proof. exact reachable_ids. Qed.

(* The allocator: from any state satisfying the invariant, the identifier handed to a new
   PUBLISH (QoS>0) / SUBSCRIBE / UNSUBSCRIBE is non-zero and not in flight, however often the 16-bit counter
   has wrapped and however many identifiers refused or failed requests have consumed. *)
Theorem C07_fresh : forall s s' id,
  OInv (s_ob s) -> id_ok (s_pid s) -> next_packet_id s = (s', id) ->
  id_ok id /\ ~ In id (in_flight s) /\ id_ok (s_pid s') /\ s' = set_pid s (s_pid s').
Proof. exact next_packet_id_fresh. Qed.

(* The bounded search of the allocator never gives up (returns 0) on a state satisfying the invariant:
   among 17 consecutive candidates at most 16 can be in use (pigeonhole). *)
Theorem C07_allocator_total : forall s s' id,
  OInv (s_ob s) -> id_ok (s_pid s) -> next_packet_id s = (s', id) -> id <> 0%N.
Proof. exact allocator_total. Qed.

(* The allocator exactly: the identifier handed out is the first candidate, in the cyclic order 1..65535 starting
   at the counter (cand k = k-fold wrapping successor that skips 0), that is not in flight; every earlier candidate
   is in flight; the counter is left at its successor.  So nothing but identifiers in use is ever skipped, and the
   identifier a request receives is a function of the counter and the in-flight set alone. *)
Theorem C07_allocator_exact : forall s s' id,
  OInv (s_ob s) -> id_ok (s_pid s) -> next_packet_id s = (s', id) ->
  exists k, (k < 17)%nat /\ id = cand k (s_pid s) /\ s_pid s' = pid_succ id /\
            ~ In id (in_flight s) /\
            forall j, (j < k)%nat -> In (cand j (s_pid s)) (in_flight s).
Proof. exact next_packet_id_exact. Qed.

(* a counter value that is not in flight is handed out as it is *)
Theorem C07_allocator_no_skip : forall s s' id,
  OInv (s_ob s) -> id_ok (s_pid s) -> next_packet_id s = (s', id) ->
  ~ In (s_pid s) (in_flight s) -> id = s_pid s.
Proof. exact next_packet_id_no_skip. Qed.

(* non-vacuity: a state just before the wrap with identifiers 65535 and 1 in flight: the allocator skips both *)
Example C07_wrap_example :
  let o := {| ob_buf := zerosN 64; ob_used := 8; ob_ctl := [];
              ob_ret := [ {| re_pid := 65535; re_off := 0; re_len := 4; re_st := SSent |};
                          {| re_pid := 1; re_off := 4; re_len := 4; re_st := SSent |} ];
              ob_rel := [] |} in
  next_packet_id_go 17 o 65535 = (3, 2)%N.
Proof. vm_compute. reflexivity. Qed.

Print Assumptions C07_ids_distinct.
Print Assumptions C07_fresh.
Print Assumptions C07_allocator_total.
Print Assumptions C07_allocator_exact.
Print Assumptions C07_allocator_no_skip.
