(* C12 — the session can always be reconnected.  Statements only.
   What connect() does is independent of history except through the session record it is given; the theorems
   are therefore stated for EVERY session value (reachable or not): the preamble wipes all per-transport state,
   the CONNECT is encoded into the free tail of the arena and goes through exactly when it fits, a plain
   successful CONNACK is accepted in every state.  The one way history can defeat connect() — retained packets
   filling the arena — is a reachable state: C12_refuted_full_arena (known finding K12).  In every other state
   connect() runs to completion on a behaving transport answered by a conformant broker:
   C12_connect_succeeds / C12_connect_action_succeeds (the whole of op_connect: one write, flush, the reader
   pulling the CONNACK in three reads, decode, accept), with "resumed" reported exactly when the client held
   session state.  The same is checked on the implementation by the fault sweep (lib/monitors.py mon_c12). *)
From Coq Require Import List NArith.
From Minimq Require Import Bytes Varint Utf8 Props Ser De Reader Arena Core Show Machine Parse Run.
From Minimq Require Import CodecProofs Reconnect ConnectOk Connack ConnectAny.
Import ListNotations.
Open Scope N_scope.

Theorem C12_preamble_clean : forall s0,
  let s1 := connect_preamble s0 in
  rdata (s_reader s1) = [] /\ rplen (s_reader s1) = None /\ rcap (s_reader s1) = rcap (s_reader s0) /\
  rt_next_ping (s_rt s1) = None /\ rt_ping_timeout (s_rt s1) = None /\ rt_resumed (s_rt s1) = false /\
  Forall (fun e => re_st e = SWrite 0) (ob_ret (s_ob s1)) /\
  Forall (fun e => le_st e = SWrite 0) (ob_rel (s_ob s1)) /\
  Forall (fun e => ce_st e = SWrite 0) (ob_ctl (s_ob s1)) /\
  s_sp s1 = s_sp s0 /\ s_srv s1 = s_srv s0 /\ s_gen s1 = s_gen s0 /\ s_client_id s1 = s_client_id s0.
Proof. exact preamble_clean. Qed.

(* connect() = preamble; compact; encode CONNECT behind the retained packets; on encoder failure nothing was written *)
Theorem C12_connect_encode_failure_is_local : forall fuel w,
  let s2 := connect_scratch (w_sess w) in
  match enc_connect (ob_cap (s_ob s2) - ob_used (s_ob s2)) (connect_request s2) with
  | SErr e => op_connect fuel w = (upd_sess w s2, OFail (err_of_serr e))
  | SOk _ _ => True
  end.
Proof. exact op_connect_encode. Qed.

Theorem C12_connect_encodes_iff_room : forall s,
  let s2 := connect_scratch s in
  let free := ob_cap (s_ob s2) - ob_used (s_ob s2) in
  let cs := connect_chunks (connect_request s2) in
  chunks_ok cs = true -> chunks_len cs <= VARINT_MAX ->
  (5 + chunks_len cs <= free -> exists off bs, enc_connect free (connect_request s2) = SOk off bs) /\
  (free < 5 + chunks_len cs -> enc_connect free (connect_request s2) = SErr EMem).
Proof. exact connect_encodes_iff_room. Qed.

Theorem C12_plain_connack_accepted : forall s sp now,
  snd (connack_process s (Some (RConnAck sp 0 [])) now) = CAOk sp.
Proof. exact plain_connack_accepted. Qed.

Theorem C12_refuted_full_arena :
  exists w, k12_world = Some w /\
    w_script w = [] /\ w_broker w = 2 /\ w_conn w = false /\
    (exists e, ob_ret (s_ob (w_sess w)) = [e]) /\
    snd (op_connect FUEL w) = OFail EBufferTooSmall /\
    ob_ret (s_ob (w_sess (fst (op_connect FUEL w)))) = ob_ret (s_ob (connect_scratch (w_sess w))).
Proof. exact reconnect_refuted_full_arena. Qed.

(* the positive half: for EVERY world state (no reachability hypothesis at all) *)
Theorem C12_connect_succeeds : forall w off bs,
  w_script w = [] -> w_broker w = 2 -> w_inq w = [] -> w_txbuf w = [] -> w_last_arrival w <= w_now w ->
  5 <= rcap (s_reader (w_sess w)) ->
  let s2 := connect_scratch (w_sess w) in
  enc_connect (ob_cap (s_ob s2) - ob_used (s_ob s2)) (connect_request s2) = SOk off bs -> lenN bs <= BIG ->
  exists w', op_connect FUEL w = (w', ODone (if s_sp (w_sess w) then 1 else 0)).
Proof. exact connect_succeeds. Qed.

Theorem C12_connect_action_succeeds : forall w,
  w_script w = [] -> w_broker w = 2 -> 5 <= rcap (s_reader (w_sess w)) ->
  let s2 := connect_scratch (w_sess w) in
  let free := ob_cap (s_ob s2) - ob_used (s_ob s2) in
  let cs := connect_chunks (connect_request s2) in
  chunks_ok cs = true -> chunks_len cs <= VARINT_MAX -> 5 + chunks_len cs <= free ->
  let w' := run_action (AConnect []) w in
  w_conn w' = true /\ w_live w' = true /\ w_event w' = (if s_sp (w_sess w) then 1 else 0).
Proof. exact connect_action_succeeds. Qed.

(* non-vacuity: a reachable state with a half-sent retained QoS 1 publish and a dead connection meets them *)
Theorem C12_connect_hyps_met :
  connect_hyps ex_broken = true /\ halted ex_broken = false /\ s_sp (w_sess ex_broken) = true /\
  length (ob_ret (s_ob (w_sess ex_broken))) = 1%nat /\ w_live ex_broken = false.
Proof. exact connect_hyps_broken. Qed.

(* ... and for EVERY conformant answer of the broker: any successful CONNACK the handshake accepts (either
   session-present value; any property list without Receive Maximum 0, Maximum QoS > 2 or an over-long assigned
   identifier - C08_connack_accepted_iff), arriving on a behaving transport: connect() writes the CONNECT, the packet
   reader assembles the CONNACK whatever its length, it is decoded and accepted, `resumed` = session present *)
Theorem C12_connect_succeeds_any : forall w off bs sp ps block szb rl t,
  encode_all ps = Some block -> forallb prop_wf ps = true -> forallb prop_canon ps = true ->
  forallb connack_prop_ok ps = true ->
  varint_write (lenN block) = Some szb -> varint_write (lenN (connack_body sp szb block)) = Some rl ->
  let pkt := 32 :: rl ++ connack_body sp szb block in
  lenN pkt <= rcap (s_reader (w_sess w)) -> lenN pkt <= 29000 ->
  w_script w = [] -> w_broker w = 0 -> w_inq w = [(t, pkt)] -> t <= w_now w ->
  let s2 := connect_scratch (w_sess w) in
  enc_connect (ob_cap (s_ob s2) - ob_used (s_ob s2)) (connect_request s2) = SOk off bs -> lenN bs <= BIG ->
  exists w', op_connect FUEL w = (w', ODone (if sp then 1 else 0)).
Proof. exact connect_succeeds_any. Qed.

Theorem C12_connect_action_succeeds_any : forall w sp ps block szb rl,
  encode_all ps = Some block -> forallb prop_wf ps = true -> forallb prop_canon ps = true ->
  forallb connack_prop_ok ps = true ->
  varint_write (lenN block) = Some szb -> varint_write (lenN (connack_body sp szb block)) = Some rl ->
  let pkt := 32 :: rl ++ connack_body sp szb block in
  lenN pkt <= rcap (s_reader (w_sess w)) -> lenN pkt <= 29000 ->
  w_script w = [] -> w_broker w = 0 ->
  let s2 := connect_scratch (w_sess w) in
  let free := ob_cap (s_ob s2) - ob_used (s_ob s2) in
  let cs := connect_chunks (connect_request s2) in
  chunks_ok cs = true -> chunks_len cs <= VARINT_MAX -> 5 + chunks_len cs <= free ->
  let w' := run_action (AConnect [(0, pkt)]) w in
  w_conn w' = true /\ w_live w' = true /\ w_event w' = (if sp then 1 else 0).
Proof. exact connect_action_succeeds_any. Qed.

(* computed instance: a resumed session with a half-sent retained publish; CONNACK with Receive Maximum 3, an assigned
   client identifier, Server Keep Alive 30 and a user property *)
Theorem C12_connect_any_example :
  forallb connack_prop_ok ex_ck_props = true /\ forallb prop_wf ex_ck_props = true /\ forallb prop_canon ex_ck_props = true /\
  lenN ex_ck_packet = 23 /\
  snd (op_connect FUEL ex_any_world) = ODone 1 /\
  rt_maxquota (s_rt (w_sess (fst (op_connect FUEL ex_any_world)))) = 3 /\
  s_client_id (w_sess (fst (op_connect FUEL ex_any_world))) = [105; 100].
Proof. exact connect_any_example. Qed.

Print Assumptions C12_preamble_clean.
Print Assumptions C12_connect_succeeds.
Print Assumptions C12_connect_action_succeeds.
Print Assumptions C12_connect_hyps_met.
Print Assumptions C12_connect_encode_failure_is_local.
Print Assumptions C12_connect_encodes_iff_room.
Print Assumptions C12_plain_connack_accepted.
Print Assumptions C12_refuted_full_arena.
Print Assumptions C12_connect_succeeds_any.
Print Assumptions C12_connect_any_example.
Print Assumptions C12_connect_action_succeeds_any.
