(* C04 — inbound publishes delivered faithfully, acknowledged in order, QoS 2 only once.  Statements only.
   `handle_packet s p = (s', HOk true)` is "the message is surfaced to the application" (process_received hands
   exactly that decoded packet to poll()/recv()); `ack_appended s s' a` is "acknowledgement a joins the tail of the
   control queue and nothing else in the outbound state changes"; `refused` is the explicit residue: the control
   queue already holds 8 entries, or the acknowledgement alone exceeds the broker's Maximum Packet Size.
   The residue is excluded at the end of the file: the client drains before it reads — in EVERY execution every inbound
   packet was handled with nothing left to write (C04_drained_before_every_inbound_packet, ghost flag w_drained set by
   process_received) — and in such a state, with a broker limit of at least five bytes, the acknowledgement joins an
   EMPTY control queue (C04_drained_not_refused and the *_drained forms of the handling theorems).  As every
   acknowledgement is therefore written and flushed before the next packet is read, acknowledgements reach the wire
   in arrival order. *)
From Coq Require Import List NArith.
From Minimq Require Import Bytes Varint Utf8 Props Ser De Reader Arena Core Show Machine Run.
From Minimq Require Import CodecProofs Lts Inbound InboundReach WireInv Drain Framing Liveness.
Import ListNotations.
Open Scope N_scope.

(* faithful: what the broker encoded is what the client decodes — topic, identifier, QoS, retain, DUP, every
   property (through the lazy iterator), payload; no bound on any length *)
Theorem C04_publish_decoded_as_sent : forall cap r off bs ps block,
  enc_publish cap r = SOk off bs -> pq_props r = PSlice ps -> encode_all ps = Some block ->
  utf8_valid (pq_topic r) = true -> pid_matches_qos (pq_qos r) (pq_pid r) ->
  from_buffer bs = Some (RPublish (pq_topic r) (pq_pid r) (pq_qos r) (pq_retain r) (pq_dup r) block (pq_payload r)).
Proof. exact publish_roundtrip. Qed.
Theorem C04_properties_decoded_as_sent : forall ps block,
  encode_all ps = Some block -> forallb prop_wf ps = true -> forallb prop_canon ps = true ->
  props_iter_encoded block = map Some ps.
Proof. exact props_iter_roundtrip. Qed.

Theorem C04_qos0_delivered : forall s t pid r d ps pl, handle_packet s (RPublish t pid Q0 r d ps pl) = (s, HOk true).
Proof. exact qos0_delivered. Qed.

Theorem C04_qos1_acked_then_delivered : forall s t id r d ps pl s' hr,
  handle_packet s (RPublish t (Some id) Q1 r d ps pl) = (s', hr) ->
  let rc := if mem_id id (s_srv s) then 145 else 0 in
  (hr = HOk true /\ ack_appended s s' (CPubAck id rc) /\ s_srv s' = s_srv s) \/
  (s' = s /\ refused s (CPubAck id rc) hr).
Proof. exact qos1_acked_then_delivered. Qed.

Theorem C04_qos2_first_arrival : forall s t id r d ps pl s' hr,
  handle_packet s (RPublish t (Some id) Q2 r d ps pl) = (s', hr) ->
  mem_id id (s_srv s) = false -> glen (s_srv s) < MAX_INBOUND_QOS2 ->
  (hr = HOk true /\ ack_appended s s' (CPubRec id 0) /\ s_srv s' = s_srv s ++ [id]) \/
  (s' = s /\ refused s (CPubRec id 0) hr).
Proof. exact qos2_first_arrival. Qed.

Theorem C04_qos2_duplicate_not_delivered : forall s t id r d ps pl s' hr,
  handle_packet s (RPublish t (Some id) Q2 r d ps pl) = (s', hr) ->
  mem_id id (s_srv s) = true ->
  s_srv s' = s_srv s /\ hr <> HOk true /\
  ((hr = HOk false /\ ack_appended s s' (CPubRec id 0)) \/ (s' = s /\ refused s (CPubRec id 0) hr)).
Proof. exact qos2_duplicate. Qed.

Theorem C04_pubrel_pending : forall s id rc s' hr,
  handle_packet s (RPubRel id rc) = (s', hr) -> mem_id id (s_srv s) = true ->
  exists l, swap_remove_id id (s_srv s) = Some l /\ s_srv s' = l /\
    ((hr = HOk false /\ ack_appended s s' (CPubComp id 0)) \/
     (s' = set_srv s l /\ refused (set_srv s l) (CPubComp id 0) hr)).
Proof. exact pubrel_pending. Qed.

Theorem C04_pubrel_unknown : forall s id rc s' hr,
  handle_packet s (RPubRel id rc) = (s', hr) -> mem_id id (s_srv s) = false ->
  s_srv s' = s_srv s /\
  ((hr = HOk false /\ ack_appended s s' (CPubComp id 146)) \/ (s' = s /\ refused s (CPubComp id 146) hr)).
Proof. exact pubrel_unknown. Qed.

Theorem C04_pubrel_never_delivers : forall s id rc, snd (handle_packet s (RPubRel id rc)) <> HOk true.
Proof. exact pubrel_never_delivers. Qed.

(* exactly once: through EVERY session step — outbound traffic, handle_disconnect, resumed CONNACK, other
   packets — a pending identifier stays pending, unless the step is a PUBREL naming it or a CONNACK without
   session present (which empties the set) *)
Theorem C04_pending_until_released : forall s l s' id, sstep s l s' -> In id (s_srv s) ->
  In id (s_srv s') \/
  (exists l0, swap_remove_id id (s_srv s) = Some l0 /\ s_srv s' = l0) \/
  (s_srv s' = [] /\ s_sp s' = true).
Proof. exact pending_until_released. Qed.

Theorem C04_released_is_free : forall s id rc, SrvInv s -> mem_id id (s_srv s) = true ->
  mem_id id (s_srv (fst (handle_packet s (RPubRel id rc)))) = false.
Proof. exact released_is_free. Qed.

(* in every reachable world the pending identifiers are pairwise distinct and at most 8 *)
Theorem C04_reachable_pending_distinct : forall c, NoDup (s_srv (w_sess (run_case c))).
Proof. exact reachable_SrvInv. Qed.
Theorem C04_reachable_pending_bound : forall c, glen (s_srv (w_sess (run_case c))) <= 8.
Proof. exact reachable_srv_bound. Qed.

(* order: the engine begins the first fresh acknowledgement of the queue *)
Theorem C04_first_fresh_ack_first : forall l e, find (fun e => matches_priority (ce_st e) false) l = Some e ->
  exists pre post, l = pre ++ e :: post /\ Forall (fun x => is_fresh (ce_st x) = false) pre.
Proof. exact first_fresh_ack_first. Qed.

(* ---------------- the residue `refused` is excluded ---------------- *)
(* every execution: whenever process_received handed a packet to handle_packet, next_step was None *)
Theorem C04_drained_before_every_inbound_packet : forall c, w_drained (run_case c) = true.
Proof. exact reachable_drained. Qed.

(* the flag is not constant: a reachable run that handled a QoS 2 PUBLISH keeps it, a hand-made world with a packet in
   the reader and a half-written publish loses it *)
Theorem C04_drained_flag_not_vacuous :
  w_drained ex_q2 = true /\ s_srv (w_sess ex_q2) = [7] /\ w_live ex_q2 = true /\
  w_drained ex_undrained = true /\ w_drained (fst (process_received ex_undrained)) = false.
Proof. exact drained_examples. Qed.

Theorem C04_drained_not_refused : forall s a hr, Drained s -> AckFits s -> ~ refused s a hr.
Proof. exact drained_not_refused. Qed.

Theorem C04_qos1_acked_then_delivered_drained : forall s t id r d ps pl s' hr, Drained s -> AckFits s ->
  handle_packet s (RPublish t (Some id) Q1 r d ps pl) = (s', hr) ->
  let rc := if mem_id id (s_srv s) then 145 else 0 in
  hr = HOk true /\ ack_appended s s' (CPubAck id rc) /\ s_srv s' = s_srv s /\ ob_ctl (s_ob s') = [fresh_ctl (CPubAck id rc)].
Proof. exact qos1_acked_then_delivered_drained. Qed.

Theorem C04_qos2_first_arrival_drained : forall s t id r d ps pl s' hr, Drained s -> AckFits s ->
  handle_packet s (RPublish t (Some id) Q2 r d ps pl) = (s', hr) ->
  mem_id id (s_srv s) = false -> glen (s_srv s) < MAX_INBOUND_QOS2 ->
  s_srv s' = s_srv s ++ [id] /\ hr = HOk true /\ ack_appended s s' (CPubRec id 0) /\ ob_ctl (s_ob s') = [fresh_ctl (CPubRec id 0)].
Proof. exact qos2_first_arrival_drained. Qed.

Theorem C04_qos2_duplicate_drained : forall s t id r d ps pl s' hr, Drained s -> AckFits s ->
  handle_packet s (RPublish t (Some id) Q2 r d ps pl) = (s', hr) -> mem_id id (s_srv s) = true ->
  s_srv s' = s_srv s /\ hr = HOk false /\ ack_appended s s' (CPubRec id 0).
Proof. exact qos2_duplicate_drained. Qed.

Theorem C04_pubrel_pending_drained : forall s id rc s' hr, Drained s -> AckFits s ->
  handle_packet s (RPubRel id rc) = (s', hr) -> mem_id id (s_srv s) = true ->
  exists l, swap_remove_id id (s_srv s) = Some l /\ s_srv s' = l /\ hr = HOk false /\ ack_appended s s' (CPubComp id 0).
Proof. exact pubrel_pending_drained. Qed.

Theorem C04_pubrel_unknown_drained : forall s id rc s' hr, Drained s -> AckFits s ->
  handle_packet s (RPubRel id rc) = (s', hr) -> mem_id id (s_srv s) = false ->
  s_srv s' = s_srv s /\ hr = HOk false /\ ack_appended s s' (CPubComp id 146).
Proof. exact pubrel_unknown_drained. Qed.

(* delivery, end to end for QoS 0: an inbound QoS 0 PUBLISH that has arrived on a behaving transport (nothing left to
   write, no PINGREQ due or outstanding) is returned by ONE poll(), exactly as decoded *)
Theorem C04_poll_delivers_qos0 : forall w h rl body t topic r dp props payload,
  varint_write (lenN body) = Some rl ->
  let pkt := h :: rl ++ body in
  lenN pkt <= rcap (rd w) -> lenN pkt <= 29000 ->
  w_live w = true -> rdata (rd w) = [] -> rplen (rd w) = None ->
  next_step (s_ob (w_sess w)) = None ->
  (forall dd, rt_next_ping (s_rt (w_sess w)) = Some dd -> w_now w < dd) -> rt_ping_timeout (s_rt (w_sess w)) = None ->
  w_script w = [] -> w_inq w = [(t, pkt)] -> t <= w_now w ->
  from_buffer pkt = Some (RPublish topic None Q0 r dp props payload) ->
  exists w', op_poll FUEL w = (w', ODone (Some (RPublish topic None Q0 r dp props payload))) /\ w_live w' = true.
Proof. exact poll_delivers_qos0. Qed.

Print Assumptions C04_publish_decoded_as_sent.
Print Assumptions C04_properties_decoded_as_sent.
Print Assumptions C04_qos0_delivered.
Print Assumptions C04_qos1_acked_then_delivered.
Print Assumptions C04_qos2_first_arrival.
Print Assumptions C04_qos2_duplicate_not_delivered.
Print Assumptions C04_pubrel_pending.
Print Assumptions C04_pubrel_unknown.
Print Assumptions C04_pubrel_never_delivers.
Print Assumptions C04_pending_until_released.
Print Assumptions C04_released_is_free.
Print Assumptions C04_reachable_pending_distinct.
Print Assumptions C04_reachable_pending_bound.
Print Assumptions C04_first_fresh_ack_first.
Print Assumptions C04_drained_before_every_inbound_packet.
Print Assumptions C04_drained_flag_not_vacuous.
Print Assumptions C04_drained_not_refused.
Print Assumptions C04_qos1_acked_then_delivered_drained.
Print Assumptions C04_qos2_first_arrival_drained.
Print Assumptions C04_qos2_duplicate_drained.
Print Assumptions C04_pubrel_pending_drained.
Print Assumptions C04_pubrel_unknown_drained.
Print Assumptions C04_poll_delivers_qos0.
