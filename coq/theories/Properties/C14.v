(* C14 — Maximum Packet Size is honoured in both directions.  Statements only. *)
From Coq Require Import List NArith.
From Minimq Require Import Bytes Varint Utf8 Props Ser De Reader Arena Core Show Machine.
From Minimq Require Import Limits.
Import ListNotations.
Open Scope N_scope.

(* `within (Maximum Packet Size of the current CONNACK) len`: len <= limit (no limit: always).
   Transmit sites.  The engine: whatever it hands to write() belongs to a packet within the limit; the length
   compared is the length written (exact boundary: len = limit passes, limit + 1 is refused). *)
Theorem C14_engine : forall s st p bs w len,
  prepare_step s st = PWrite p bs w len ->
  within (rt_mps (s_rt s)) len /\ (forall a, p = FCtl a -> lenN bs = len) /\ (forall pid, p = FRel pid -> lenN bs = len).
Proof. exact prepare_step_within. Qed.

(* a retained packet accepted under a larger limit is never sent under a smaller one *)
Theorem C14_replay_refused : forall s st,
  (exists pid off len w m, st = StRet pid off len (SWrite w) /\ rt_mps (s_rt s) = Some m /\ m < len) ->
  prepare_step s st = PErr EPacketTooLarge.
Proof. exact prepare_step_refuses. Qed.

(* publish: what is written directly (QoS 0) or retained (QoS 1/2) is within the limit; otherwise the
   request fails and nothing is retained *)
Theorem C14_publish : forall s live r s' m,
  publish_middle s live r = (s', m) ->
  match m with
  | MDirect bs => within (rt_mps (s_rt s')) (lenN bs)
  | MRetained o => exists e, In e (ob_ret (s_ob s')) /\ re_pid e = op_pid o /\ within (rt_mps (s_rt s')) (re_len e)
  | MErr _ => True
  end.
Proof. exact publish_middle_within. Qed.

Theorem C14_subscribe_unsubscribe : forall s k enc s' o,
  enqueue_middle s k enc = (s', MRetained o) ->
  exists e, In e (ob_ret (s_ob s')) /\ re_pid e = op_pid o /\ within (rt_mps (s_rt s')) (re_len e).
Proof. exact enqueue_middle_within. Qed.

Theorem C14_disconnect : forall s d bs, disconnect_prepare s d = DPOk bs -> within (rt_mps (s_rt s)) (lenN bs).
Proof. exact disconnect_prepare_within. Qed.

(* an owed acknowledgement that would not fit closes the connection instead of being sent *)
Theorem C14_ack_closes : forall w r' pl p s2 e,
  take_packet (s_reader (w_sess w)) = Some (r', pl, Some p) ->
  packet_available (s_reader (w_sess w)) = true ->
  handle_packet (set_reader (w_sess w) r') p = (s2, HErr EPacketTooLarge) ->
  e = EPacketTooLarge ->
  w_live (fst (process_received w)) = false /\ snd (process_received w) = OFail EPacketTooLarge.
Proof. exact ack_too_large_closes. Qed.

(* receive side *)
Theorem C14_connect_advertises_rx : forall s,
  In (mkprop KMaximumPacketSize (rcap (s_reader s) mod 4294967296) [] []) (cq_props (connect_request s)).
Proof. exact connect_advertises_rx. Qed.

Theorem C14_window_in_buffer : forall r r' win, receive_buffer r = (r', Some win) ->
  (exists e, e <= rcap r' /\ win = e - read_bytes r') /\ rdata r' = rdata r /\ rcap r' = rcap r.
Proof. exact window_in_buffer. Qed.

Theorem C14_oversize_inbound : forall r pl, rplen r = Some pl -> rcap r < pl -> snd (receive_buffer r) = None.
Proof. exact oversize_inbound_refused. Qed.

Print Assumptions C14_engine.
Print Assumptions C14_replay_refused.
Print Assumptions C14_publish.
Print Assumptions C14_subscribe_unsubscribe.
Print Assumptions C14_disconnect.
Print Assumptions C14_ack_closes.
Print Assumptions C14_connect_advertises_rx.
Print Assumptions C14_window_in_buffer.
Print Assumptions C14_oversize_inbound.
