(* C13 — cancelling a cancel-safe operation loses, duplicates and corrupts nothing.  Statements only.
   In the model a dropped future IS the prefix of the uncancelled execution up to an await (direct style: every
   await is an io_* call that may answer "dropped"), so what has to be shown is that nothing the continuation
   would need lives outside the session and the transport:
   - inbound: the unconsumed broker stream (reader buffer ++ transport queue) is the same byte sequence after a
     read that was dropped, timed out, failed or delivered;
   - outbound: a dropped engine step leaves the session untouched (the write was dropped) or records the step
     in full (written = length, awaiting flush);
   - requests: a dropped publish/subscribe is either the dropped pre-flush alone (request not applied, no trace)
     or the request applied in full by the pure function publish_middle/enqueue_middle followed by a dropped flush.
   The equality of whole executions (outbound packet sequence, delivered messages of a cancelled run and its
   uncancelled twin) is checked on the implementation and the model by the twin runs.
   disconnect() is refuted: C13_disconnect_cancel_refuted (known finding K13d). *)
From Coq Require Import List NArith String.
From Minimq Require Import Bytes Varint Utf8 Props Ser De Reader Arena Core Show Machine Parse Run.
From Minimq Require Import Cancel.
Import ListNotations.
Open Scope N_scope.

Theorem C13_inbound_bytes_conserved : forall fuel dl w,
  inbound_stream (fst (fill_packet_reader fuel dl w)) = inbound_stream w.
Proof. exact fill_conserves_inbound. Qed.

Theorem C13_engine_step_all_or_nothing : forall st now w w',
  perform_outbound_step st now w = (w', OCancel) ->
  w_sess w' = w_sess w \/
  (exists p bs written len n, prepare_step (w_sess w) st = PWrite p bs written len /\ len <= written + n /\
     w_sess w' = fst (set_written (w_sess w) p (written + n) len)).
Proof. exact step_cancel_recorded. Qed.

Theorem C13_publish_not_applied_or_applied : forall fuel r w w',
  op_publish fuel r w = (w', OCancel) ->
  flush_outbound fuel w = (w', OCancel) \/
  (exists w1 s2 m, flush_outbound fuel w = (w1, ODone tt) /\ publish_middle (w_sess w1) (w_live w1) r = (s2, m) /\
     finish_mid fuel (upd_sess w1 s2) m = (w', OCancel) /\
     match m with MErr _ => False | _ => True end).
Proof. exact publish_cancel_cases. Qed.

Theorem C13_subscribe_not_applied_or_applied : forall fuel t ps w w',
  op_subscribe fuel t ps w = (w', OCancel) ->
  flush_outbound fuel w = (w', OCancel) \/
  (exists w1 s2 o, flush_outbound fuel w = (w1, ODone tt) /\ subscribe_middle (w_sess w1) t ps = (s2, MRetained o) /\
     flush_outbound fuel (upd_sess w1 s2) = (w', OCancel)).
Proof. exact subscribe_cancel_cases. Qed.

Theorem C13_applied_request_is_retained : forall s k enc s' o,
  enqueue_middle s k enc = (s', MRetained o) ->
  exists e, In e (ob_ret (s_ob s')) /\ re_pid e = op_pid o.
Proof. exact applied_request_is_retained. Qed.

Theorem C13_disconnect_cancel_refuted :
  exists w, k13_world = Some w /\
    w_live w = true /\ In (s2t "w 2 1 e0"%string) (w_log w) /\ In (s2t "= cancelled"%string) (w_log w) /\
    next_step (s_ob (w_sess w)) = None.
Proof. exact disconnect_cancel_refuted. Qed.

From Minimq Require Import WireInv Wire PingQuiet Healthy Owed Sends.

(* ---- the outbound drain dropped at any await point ----
   `total w = wire ++ owed`: what is on the wire followed by what the queues still owe it.  A drain that ends in any way
   but an error — completed, future dropped inside a write or a flush, watchdog — leaves `total` unchanged and the
   invariants in place; run again to its end it completes the byte stream as if it had never been interrupted. *)
Theorem C13_dropped_drain_conserves : forall fuel w w' r,
  WInv (w_sess w) -> PQ w -> flush_outbound fuel w = (w', r) -> not_failed r ->
  total w' = total w /\ WInv (w_sess w') /\ PQ w' /\ w_now w' = w_now w.
Proof. exact flush_outbound_total. Qed.

Theorem C13_dropped_drain_resumes : forall f1 f2 w w1 r w2,
  WInv (w_sess w) -> PQ w -> flush_outbound f1 w = (w1, r) -> not_failed r -> flush_outbound f2 w1 = (w2, ODone tt) ->
  w_wire w2 = w_wire w ++ owed (s_ob (w_sess w)) /\ next_step (s_ob (w_sess w2)) = None.
Proof. exact flush_outbound_resumes. Qed.

Theorem C13_dropped_engine_step_conserves : forall st now w w',
  WInv (w_sess w) -> next_step (s_ob (w_sess w)) = Some st -> perform_outbound_step st now w = (w', OCancel) ->
  total w' = total w.
Proof. exact step_cancel_conserves. Qed.

From Minimq Require Import Replay.

(* ---- the operations themselves, dropped at any await point, on any transport ----
   Either no trace (`total` unchanged: dropped while the queues were still being drained, the request was never enqueued) or the
   whole request enqueued (`total` = old total ++ its encoding, whatever part of it was already written); invariants and timers
   in place; continuing to drain completes exactly that byte stream (C13_dropped_drain_resumes).  QoS 0 is the documented
   exception (first disjunct). *)
Theorem C13_publish_cancel_safe : forall fuel r w w',
  WInv (w_sess w) -> PQ w -> op_publish fuel r w = (w', OCancel) ->
  (exists w1, flush_outbound fuel w = (w1, ODone tt) /\ effective_qos (w_sess w1) (pr_qos r) = Q0) \/
  (WInv (w_sess w') /\ PQ w' /\
   (total w' = total w \/
    exists w1 bs cap off id, flush_outbound fuel w = (w1, ODone tt) /\
      enc_publish cap (pub_request r (effective_qos (w_sess w1) (pr_qos r)) id) = SOk off bs /\ total w' = total w ++ bs)).
Proof. exact op_publish_cancel_safe. Qed.

Theorem C13_subscribe_cancel_safe : forall fuel topics ps w w',
  WInv (w_sess w) -> PQ w -> op_subscribe fuel topics ps w = (w', OCancel) ->
  WInv (w_sess w') /\ PQ w' /\
  (total w' = total w \/
   exists bs cap off id, enc_subscribe cap {| sq_pid := id; sq_props := ps; sq_topics := topics |} = SOk off bs /\ total w' = total w ++ bs).
Proof. exact op_subscribe_cancel_safe. Qed.

Theorem C13_unsubscribe_cancel_safe : forall fuel topics ps w w',
  WInv (w_sess w) -> PQ w -> op_unsubscribe fuel topics ps w = (w', OCancel) ->
  WInv (w_sess w') /\ PQ w' /\
  (total w' = total w \/
   exists bs cap off id, enc_unsubscribe cap {| uq_pid := id; uq_props := ps; uq_topics := topics |} = SOk off bs /\ total w' = total w ++ bs).
Proof. exact op_unsubscribe_cancel_safe. Qed.

Theorem C13_publish_cancel_example :
  snd (op_publish FUEL ex_pub3 (ex_drop 9)) = OCancel /\ total (ex_dropped 9) = total ex_conn /\
  w_wire (ex_resumed 9) = w_wire ex_conn ++ owed (s_ob (w_sess ex_conn)) /\
  snd (op_publish FUEL ex_pub3 (ex_drop 14)) = OCancel /\
  total (ex_dropped 14) = total ex_conn ++ [51; 8; 0; 1; 118; 0; 3; 0; 7; 7] /\ owed (s_ob (w_sess (ex_dropped 14))) = [7] /\
  w_wire (ex_resumed 14) = w_wire ex_conn ++ owed (s_ob (w_sess ex_conn)) ++ [51; 8; 0; 1; 118; 0; 3; 0; 7; 7].
Proof. exact publish_cancel_example. Qed.

Print Assumptions C13_inbound_bytes_conserved.
Print Assumptions C13_engine_step_all_or_nothing.
Print Assumptions C13_publish_not_applied_or_applied.
Print Assumptions C13_subscribe_not_applied_or_applied.
Print Assumptions C13_applied_request_is_retained.
Print Assumptions C13_disconnect_cancel_refuted.
Print Assumptions C13_dropped_drain_conserves.
Print Assumptions C13_dropped_drain_resumes.
Print Assumptions C13_dropped_engine_step_conserves.
Print Assumptions C13_publish_cancel_safe.
Print Assumptions C13_subscribe_cancel_safe.
Print Assumptions C13_unsubscribe_cancel_safe.
Print Assumptions C13_publish_cancel_example.
