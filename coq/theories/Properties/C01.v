(* C01 — the outbound byte stream is whole, well-formed MQTT 5 packets.  Statements only.
   Packet level (all inputs): every encoder output is exactly one control packet — first byte, canonical
   Remaining Length, exactly that many bytes — with a first byte a client may send (MQTT 5 tables 2-1, 2-2);
   a stream of such packets is framed back into exactly those packets.
   Engine level: write() is handed the unwritten rest of one entry, from its recorded offset; a fresh entry
   is begun only when no entry is in progress.
   Whole executions: C01_wire_is_whole_packets — for every case (program, script, broker), in the final world the
   bytes accepted by the current transport are whole packets followed by at most the beginning of one packet, and
   on a live handle that beginning is exactly the written prefix of the one queued entry in progress — unless the
   ghost flag w_poison is set, which happens exactly in the three recorded ways (C01_known_findings_witnessed).
   `w_wire` and `w_poison` are ghost fields of the machine's world: w_wire collects what io_write accepts, w_poison
   is set by a direct write (QoS 0 PUBLISH, DISCONNECT) that stops half way with the handle still live and by
   disconnect() called while a queued packet is half written.  The tie of this model to the code, byte for byte, is
   the correspondence check; the independent stream decoder of lib/monitors.py mon_c01 watches the implementation. *)
From Coq Require Import List NArith.
From Minimq Require Import Bytes Varint Utf8 Props Ser De Reader Spec Arena Core.
From Minimq Require Import Show Machine Parse Run.
From Minimq Require Import Status Frames WireInv Wire.
Import ListNotations.
Open Scope N_scope.

Theorem C01_connect_is_one_packet : forall cap r off bs, enc_connect cap r = SOk off bs ->
  frame 16 bs /\ spec_client_first_byte 16 = true.
Proof. exact enc_connect_frame. Qed.

Theorem C01_publish_is_one_packet : forall cap r off bs, enc_publish cap r = SOk off bs ->
  frame (48 + publish_flags r mod 16) bs /\
  ((pq_qos r = Q0 -> pq_dup r = false) -> spec_client_first_byte (48 + publish_flags r mod 16) = true).
Proof. exact enc_publish_frame. Qed.

Theorem C01_subscribe_is_one_packet : forall cap r off bs, enc_subscribe cap r = SOk off bs ->
  frame 130 bs /\ spec_client_first_byte 130 = true.
Proof. exact enc_subscribe_frame. Qed.

Theorem C01_unsubscribe_is_one_packet : forall cap r off bs, enc_unsubscribe cap r = SOk off bs ->
  frame 162 bs /\ spec_client_first_byte 162 = true.
Proof. exact enc_unsubscribe_frame. Qed.

Theorem C01_disconnect_is_one_packet : forall cap r off bs, enc_disconnect cap r = SOk off bs ->
  frame 224 bs /\ spec_client_first_byte 224 = true.
Proof. exact enc_disconnect_frame. Qed.

Theorem C01_acks_and_ping_are_one_packet : forall a off bs, encode_control_packet a = SOk off bs ->
  exists first, frame first bs /\ spec_client_first_byte first = true /\
    first = match a with CPubAck _ _ => 64 | CPubRec _ _ => 80 | CPubComp _ _ => 112 | CPing => 192 end.
Proof. exact control_packet_frame. Qed.

Theorem C01_pubrel_is_one_packet : forall pid rc off bs, encode_pubrel pid rc = SOk off bs ->
  frame 98 bs /\ spec_client_first_byte 98 = true.
Proof. exact pubrel_frame. Qed.

(* the standard's framing rule recovers exactly the packets written, whatever follows *)
Theorem C01_framing_recovers_packet : forall first bs rest, frame first bs -> take_frame (bs ++ rest) = Some (bs, rest).
Proof. exact take_frame_app. Qed.

Theorem C01_framing_recovers_stream : forall fs, Forall (fun f => exists first, frame first f) fs ->
  forall fuel, (length fs < fuel)%nat -> split_frames fuel (concat fs) = Some fs.
Proof. exact split_frames_concat. Qed.

(* engine *)
Theorem C01_engine_resumes_at_offset : forall s st p bs written len,
  prepare_step s st = PWrite p bs written len ->
  step_state st = SWrite written /\
  match st with StCtl a _ => p = FCtl a | StRel pid _ _ => p = FRel pid | StRet pid off l _ => p = FRet pid /\ len = l end.
Proof. exact engine_resumes_at_offset. Qed.

Theorem C01_engine_control_bytes : forall s a w p bs written len,
  prepare_step s (StCtl a (SWrite w)) = PWrite p bs written len ->
  p = FCtl a /\ written = w /\ len = lenN bs /\ exists first, frame first bs /\ spec_client_first_byte first = true.
Proof. exact engine_ctl_bytes. Qed.

Theorem C01_engine_release_bytes : forall s pid rc w p bs written len,
  prepare_step s (StRel pid rc (SWrite w)) = PWrite p bs written len ->
  p = FRel pid /\ written = w /\ len = lenN bs /\ frame 98 bs.
Proof. exact engine_rel_bytes. Qed.

Theorem C01_fresh_only_when_nothing_in_progress : forall o st,
  next_step o = Some st -> is_in_progress (step_state st) = false ->
  (forall e, In e (ob_ctl o) -> is_in_progress (ce_st e) = false) /\
  (forall e, In e (ob_rel o) -> is_in_progress (le_st e) = false) /\
  (forall e, In e (ob_ret o) -> is_in_progress (re_st e) = false).
Proof. exact fresh_only_when_nothing_in_progress. Qed.

(* ---------- whole executions ---------- *)
Theorem C01_wire_is_whole_packets : forall c,
  let w := run_case c in
  w_poison w = false ->
  exists fs t, Forall is_frame fs /\ w_wire w = concat fs ++ t /\ prefix_of_frame t /\
               (w_live w = true -> t = tail_of (s_ob (w_sess w))).
Proof. exact wire_is_whole_packets. Qed.

(* with nothing half written the standard's framing rule recovers exactly those packets from the stream *)
Theorem C01_wire_frames_split : forall c,
  let w := run_case c in
  w_poison w = false -> w_live w = true -> npart (s_ob (w_sess w)) = 0%nat ->
  exists fs, Forall is_frame fs /\ split_frames (S (length fs)) (w_wire w) = Some fs.
Proof. exact wire_frames_split. Qed.

(* the invariants behind it, each closed under every session step *)
Theorem C01_session_invariants_step : forall s l s', Lts.sstep s l s' -> WInv s -> WInv s'.
Proof. exact WInv_step. Qed.

(* an engine step: the queues own exactly the prefix written so far, before and after *)
Theorem C01_engine_tail : forall s st p bs w len n,
  WInv s -> next_step (s_ob s) = Some st -> prepare_step s st = PWrite p bs w len ->
  tail_of (s_ob s) = takeN w bs /\ lenN bs = len /\ is_frame bs /\
  tail_of (s_ob (fst (set_written s p (w + n) len))) = st_prefix (set_written_state (w + n) len) bs /\
  (len <= w + n -> npart (s_ob (fst (set_written s p (w + n) len))) = 0%nat).
Proof. exact engine_tail. Qed.

(* the flag is set by the recorded findings and only concerns them: K01a leaves it clear (whole packet, illegal
   first byte 0x8a), K01b and K01c set it *)
Theorem C01_known_findings_witnessed :
  (exists w, world_of k01a_tokens = Some w /\ w_poison w = false /\
     ends_with (w_wire w) [138; 7; 0; 1; 0; 0; 1; 97; 0] /\ spec_client_first_byte 138 = false) /\
  (exists w, world_of k01b_tokens = Some w /\ w_poison w = true /\ ends_with (w_wire w) [50; 11; 0; 224; 0]) /\
  (exists w, world_of k01c_tokens = Some w /\ w_poison w = true /\ w_live w = true /\
     ends_with (w_wire w) [224; 48; 5; 0; 1; 97; 0; 120]).
Proof. exact known_findings_witnessed. Qed.

Print Assumptions C01_connect_is_one_packet.
Print Assumptions C01_publish_is_one_packet.
Print Assumptions C01_subscribe_is_one_packet.
Print Assumptions C01_unsubscribe_is_one_packet.
Print Assumptions C01_disconnect_is_one_packet.
Print Assumptions C01_acks_and_ping_are_one_packet.
Print Assumptions C01_pubrel_is_one_packet.
Print Assumptions C01_framing_recovers_packet.
Print Assumptions C01_framing_recovers_stream.
Print Assumptions C01_engine_resumes_at_offset.
Print Assumptions C01_engine_control_bytes.
Print Assumptions C01_engine_release_bytes.
Print Assumptions C01_fresh_only_when_nothing_in_progress.
Print Assumptions C01_wire_is_whole_packets.
Print Assumptions C01_wire_frames_split.
Print Assumptions C01_session_invariants_step.
Print Assumptions C01_engine_tail.
Print Assumptions C01_known_findings_witnessed.
