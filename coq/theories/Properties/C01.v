(* C01 — the outbound byte stream is whole, well-formed MQTT 5 packets.  Statements only.
   Packet level (all inputs): every encoder output is exactly one control packet — first byte, canonical
   Remaining Length, exactly that many bytes — with a first byte a client may send (MQTT 5 tables 2-1, 2-2);
   a stream of such packets is framed back into exactly those packets.
   Engine level: write() is handed the unwritten rest of one entry, from its recorded offset; a fresh entry
   is begun only when no entry is in progress.
   The lift to whole executions (partial writes x cancellation x faults) is the correspondence check plus the
   independent stream decoder on every transport (lib/monitors.py mon_c01). *)
From Coq Require Import List NArith.
From Minimq Require Import Bytes Varint Utf8 Props Ser De Reader Spec Arena Core.
From Minimq Require Import Status Frames.
Import ListNotations.
Open Scope N_scope.

Theorem C01_connect_is_one_packet : forall cap r off bs, enc_connect cap r = SOk off bs ->
  frame 16 bs /\ spec_client_first_byte 16 = true.
Proof. exact enc_connect_frame. Qed.

Theorem C01_publish_is_one_packet : forall cap r off bs, enc_publish cap r = SOk off bs ->
  frame (48 + publish_flags r mod 16) bs /\
  ((pq_qos r = Q0 -> pq_dup r = false) -> spec_client_first_byte (48 + publish_flags r mod 16) = true).
Proof. exact enc_publish_frame. Qed.

Theorem C01_subscribe_is_one_packet : forall cap r off bs, enc_subscribe cap r = SOk off bs ->
  frame 130 bs /\ spec_client_first_byte 130 = true.
Proof. exact enc_subscribe_frame. Qed.

Theorem C01_unsubscribe_is_one_packet : forall cap r off bs, enc_unsubscribe cap r = SOk off bs ->
  frame 162 bs /\ spec_client_first_byte 162 = true.
Proof. exact enc_unsubscribe_frame. Qed.

Theorem C01_disconnect_is_one_packet : forall cap r off bs, enc_disconnect cap r = SOk off bs ->
  frame 224 bs /\ spec_client_first_byte 224 = true.
Proof. exact enc_disconnect_frame. Qed.

Theorem C01_acks_and_ping_are_one_packet : forall a off bs, encode_control_packet a = SOk off bs ->
  exists first, frame first bs /\ spec_client_first_byte first = true /\
    first = match a with CPubAck _ _ => 64 | CPubRec _ _ => 80 | CPubComp _ _ => 112 | CPing => 192 end.
Proof. exact control_packet_frame. Qed.

Theorem C01_pubrel_is_one_packet : forall pid rc off bs, encode_pubrel pid rc = SOk off bs ->
  frame 98 bs /\ spec_client_first_byte 98 = true.
Proof. exact pubrel_frame. Qed.

(* the standard's framing rule recovers exactly the packets written, whatever follows *)
Theorem C01_framing_recovers_packet : forall first bs rest, frame first bs -> take_frame (bs ++ rest) = Some (bs, rest).
Proof. exact take_frame_app. Qed.

Theorem C01_framing_recovers_stream : forall fs, Forall (fun f => exists first, frame first f) fs ->
  forall fuel, (length fs < fuel)%nat -> split_frames fuel (concat fs) = Some fs.
Proof. exact split_frames_concat. Qed.

(* engine *)
Theorem C01_engine_resumes_at_offset : forall s st p bs written len,
  prepare_step s st = PWrite p bs written len ->
  step_state st = SWrite written /\
  match st with StCtl a _ => p = FCtl a | StRel pid _ _ => p = FRel pid | StRet pid off l _ => p = FRet pid /\ len = l end.
Proof. exact engine_resumes_at_offset. Qed.

Theorem C01_engine_control_bytes : forall s a w p bs written len,
  prepare_step s (StCtl a (SWrite w)) = PWrite p bs written len ->
  p = FCtl a /\ written = w /\ len = lenN bs /\ exists first, frame first bs /\ spec_client_first_byte first = true.
Proof. exact engine_ctl_bytes. Qed.

Theorem C01_engine_release_bytes : forall s pid rc w p bs written len,
  prepare_step s (StRel pid rc (SWrite w)) = PWrite p bs written len ->
  p = FRel pid /\ written = w /\ len = lenN bs /\ frame 98 bs.
Proof. exact engine_rel_bytes. Qed.

Theorem C01_fresh_only_when_nothing_in_progress : forall o st,
  next_step o = Some st -> is_in_progress (step_state st) = false ->
  (forall e, In e (ob_ctl o) -> is_in_progress (ce_st e) = false) /\
  (forall e, In e (ob_rel o) -> is_in_progress (le_st e) = false) /\
  (forall e, In e (ob_ret o) -> is_in_progress (re_st e) = false).
Proof. exact fresh_only_when_nothing_in_progress. Qed.

Print Assumptions C01_connect_is_one_packet.
Print Assumptions C01_publish_is_one_packet.
Print Assumptions C01_subscribe_is_one_packet.
Print Assumptions C01_unsubscribe_is_one_packet.
Print Assumptions C01_disconnect_is_one_packet.
Print Assumptions C01_acks_and_ping_are_one_packet.
Print Assumptions C01_pubrel_is_one_packet.
Print Assumptions C01_framing_recovers_packet.
Print Assumptions C01_framing_recovers_stream.
Print Assumptions C01_engine_resumes_at_offset.
Print Assumptions C01_engine_control_bytes.
Print Assumptions C01_engine_release_bytes.
Print Assumptions C01_fresh_only_when_nothing_in_progress.
