(* C20 — Reply helpers address exactly the requester.  Statements only. *)
From Coq Require Import List NArith.
From Minimq Require Import Bytes Varint Utf8 Props Ser De Reply CodecProofs ReplyProofs.
Import ListNotations.
Open Scope N_scope.

Theorem C20_targets : forall ps block,
  encode_all ps = Some block -> forallb prop_wf ps = true -> forallb prop_canon ps = true ->
  response_topic (PEncoded block) = option_map pdata (find (is_kind KResponseTopic) ps) /\
  correlation_data (PEncoded block) = option_map pdata (find (is_kind KCorrelationData) ps).
Proof. exact inbound_targets. Qed.

Theorem C20_reply : forall inbound user,
  match response_topic inbound with
  | None => reply_with inbound user = None
  | Some t =>
      reply_with inbound user =
      Some {| rp_topic := t;
              rp_props := match correlation_data inbound with
                          | Some c => PWithCorr (mkprop KCorrelationData 0 c []) user
                          | None => PSlice user
                          end |}
  end.
Proof. exact reply_spec. Qed.

Theorem C20_reply_on_the_wire : forall t c user cap off bs block,
  enc_publish cap {| pq_topic := t; pq_pid := None; pq_props := PWithCorr (mkprop KCorrelationData 0 c []) user;
                     pq_retain := false; pq_qos := Q0; pq_dup := false; pq_payload := [114] |} = SOk off bs ->
  encode_all (mkprop KCorrelationData 0 c [] :: user) = Some block -> utf8_valid t = true ->
  from_buffer bs = Some (RPublish t None Q0 false false block [114]).
Proof. exact reply_on_the_wire. Qed.

Theorem C20_owned : forall inbound T C,
  match response_topic inbound with
  | None => reply_owned inbound T C = OwnNone
  | Some t =>
      if (lenN t <=? T) && match correlation_data inbound with Some c => lenN c <=? C | None => true end
      then reply_owned inbound T C = OwnOk t (correlation_data inbound)
      else reply_owned inbound T C = OwnErr
  end.
Proof. exact reply_owned_spec. Qed.

Theorem C20_owned_publication : forall inbound T C t c user,
  reply_owned inbound T C = OwnOk t c ->
  reply_with inbound user = Some (owned_publication t c user).
Proof. exact owned_publication_is_reply. Qed.

(* non-vacuity: correlation data BEFORE the response topic, among other properties *)
Example C20_nonvacuous :
  let ps := [mkprop KCorrelationData 0 [1; 2] []; mkprop KUserProperty 0 [107] [118]; mkprop KResponseTopic 0 [114; 47; 116] []] in
  match encode_all ps with
  | Some block => response_topic (PEncoded block) = Some [114; 47; 116] /\ correlation_data (PEncoded block) = Some [1; 2]
                  /\ reply_owned (PEncoded block) 2 8 = OwnErr /\ reply_owned (PEncoded block) 3 2 = OwnOk [114; 47; 116] (Some [1; 2])
  | None => False
  end.
Proof. vm_compute. repeat split; reflexivity. Qed.

Print Assumptions C20_targets.
Print Assumptions C20_reply.
Print Assumptions C20_reply_on_the_wire.
Print Assumptions C20_owned.
Print Assumptions C20_owned_publication.
