(* C16 — with a responsive broker every accepted operation completes; the session quiesces.  Statements only.
   Step-level facts about the engine (all states): poll()/recv() never return "idle"; an entry already sent on this
   connection is never picked again; a write step moves the recorded offset strictly forward or completes the entry,
   a completed entry is flushed next, a flushed acknowledgement leaves its queue.  The machine's engine loops
   (drive(), and the flush loop inside publish / subscribe / unsubscribe) end without exhausting their fuel on EVERY
   transport — no packet is written for ever or twice — within work + 5 engine steps (C16_drive_loop_terminates,
   C16_flush_outbound_terminates, C16_op_drive_terminates).  That these steps add up to
   quiescence within a bounded number of polls and I/O calls from every reachable state is checked on the
   implementation and the model by the drain suites (any generated history, then: transport healed, broker
   answering everything, reconnect, 40 polls) with an I/O watchdog. *)
From Coq Require Import List NArith.
From Minimq Require Import Bytes Varint Utf8 Props Ser De Reader Arena Core Machine.
From Minimq Require Import Status Progress WireInv Wire Measure Wire Terminate Run.
Import ListNotations.
Open Scope N_scope.

Theorem C16_poll_never_returns_idle : forall fuel w w' p, wait_for_progress fuel w = (w', ODone p) -> p <> PrIdle.
Proof. exact wait_never_returns_idle. Qed.

Theorem C16_sent_entries_not_resent : forall o st, next_step o = Some st -> step_state st <> SSent.
Proof. exact next_step_not_sent. Qed.

Theorem C16_write_step_advances : forall w n len, 1 <= n ->
  set_written_state (w + n) len = SFlush \/ (set_written_state (w + n) len = SWrite (w + n) /\ w < w + n /\ w + n < len).
Proof. exact written_advances. Qed.

Theorem C16_complete_entry_is_flushed_next : forall s a w,
  prepare_step s (StCtl a SFlush) = PFlush (FCtl a) /\
  (forall pid rc, prepare_step s (StRel pid rc SFlush) = PFlush (FRel pid)) /\
  (forall pid off len, prepare_step s (StRet pid off len SFlush) = PFlush (FRet pid)) /\
  set_written_state (w + 0) w = SFlush.
Proof. exact complete_entry_is_flushed_next. Qed.

Theorem C16_flushed_control_leaves : forall o a o', flush_control o a = (o', true) -> glen (ob_ctl o') < glen (ob_ctl o).
Proof. exact flushed_control_leaves. Qed.

(* a weight on the three queues — per entry: 2 + unwritten bytes while being written, 1 while awaiting its flush,
   0 once sent — that every engine step strictly decreases: between two enqueues, within one connection, the engine
   performs at most `work` steps, and a packet is never written for ever or twice *)
Theorem C16_write_step_decreases_work : forall s st p bs w len n,
  WInv s -> next_step (s_ob s) = Some st -> prepare_step s st = PWrite p bs w len -> 1 <= n ->
  work (s_ob (fst (set_written s p (w + n) len))) < work (s_ob s).
Proof. exact write_step_decreases. Qed.

Theorem C16_flush_step_decreases_work : forall s st p now,
  WInv s -> next_step (s_ob s) = Some st -> prepare_step s st = PFlush p ->
  work (s_ob (fst (complete_flush s p now))) < work (s_ob s).
Proof. exact flush_step_decreases. Qed.

(* the machine: whenever an engine step reports progress the work of the session has strictly decreased *)
Theorem C16_progress_decreases_work : forall st now w w',
  WInv (w_sess w) -> next_step (s_ob (w_sess w)) = Some st ->
  perform_outbound_step st now w = (w', ODone true) ->
  work (s_ob (w_sess w')) < work (s_ob (w_sess w)).
Proof. exact progress_decreases_work. Qed.

(* the invariant WInv holds in every reachable world *)
Theorem C16_reachable_invariant : forall c, WInv (w_sess (Run.run_case c)).
Proof. exact reachable_WInv. Qed.

(* the engine loops terminate, whatever the transport does: with fuel above work + PINGREQ budget (at most 5) the
   loop never runs out — every iteration either ends the loop (idle, error, cancelled) or strictly lowers the measure *)
Theorem C16_drive_loop_terminates : forall fuel adv w,
  WInv (w_sess w) -> NA w -> M (w_sess w) < N.of_nat fuel -> snd (drive_loop fuel adv w) <> OFuel.
Proof. exact drive_loop_terminates. Qed.

Theorem C16_flush_outbound_terminates : forall fuel w,
  WInv (w_sess w) -> M (w_sess w) < N.of_nat fuel -> snd (flush_outbound fuel w) <> OFuel.
Proof. exact flush_outbound_terminates. Qed.

Theorem C16_op_drive_terminates : forall fuel w,
  WInv (w_sess w) -> NAl w -> M (w_sess w) < N.of_nat fuel -> snd (op_drive fuel w) <> OFuel.
Proof. exact op_drive_terminates. Qed.

(* the measure is bounded by the arena (at most 8 entries per queue, control packets of at most 5 bytes, retained
   packets inside the arena), so the model's fuel of 30 000 is never reached by drive() in any reachable world of a
   client whose transmit arena is at most 29 000 bytes: for every program, script and broker *)
Theorem C16_measure_bounded : forall s, Inv.Inv s -> M s <= lenN (ob_buf (s_ob s)) + 133.
Proof. exact M_bounded. Qed.

Theorem C16_reachable_drive_terminates : forall c, cf_tx (c_cfg c) <= 29000 ->
  let w := run_case c in halted w = false -> snd (op_drive FUEL w) <> OFuel.
Proof. exact reachable_drive_terminates. Qed.

(* a resumed connection with a retained publish to replay: the premises hold, drive() sends it and the work is 0 *)
Theorem C16_terminate_example :
  w_live ex_resumed = true /\ work (s_ob (w_sess ex_resumed)) = 13 /\ M (w_sess ex_resumed) < N.of_nat FUEL /\
  packet_available (s_reader (w_sess ex_resumed)) = false /\
  snd (op_drive FUEL ex_resumed) = ODone None /\ work (s_ob (w_sess (fst (op_drive FUEL ex_resumed)))) = 0.
Proof. exact terminate_example. Qed.

Print Assumptions C16_poll_never_returns_idle.
Print Assumptions C16_sent_entries_not_resent.
Print Assumptions C16_write_step_advances.
Print Assumptions C16_complete_entry_is_flushed_next.
Print Assumptions C16_flushed_control_leaves.
Print Assumptions C16_write_step_decreases_work.
Print Assumptions C16_flush_step_decreases_work.
Print Assumptions C16_progress_decreases_work.
Print Assumptions C16_reachable_invariant.
Print Assumptions C16_drive_loop_terminates.
Print Assumptions C16_flush_outbound_terminates.
Print Assumptions C16_op_drive_terminates.
Print Assumptions C16_terminate_example.
Print Assumptions C16_measure_bounded.
Print Assumptions C16_reachable_drive_terminates.
