(* C16 — with a responsive broker every accepted operation completes; the session quiesces.  Statements only.
   Step-level facts about the engine (all states): poll()/recv() never return "idle"; an entry already sent on this
   connection is never picked again; a write step moves the recorded offset strictly forward or completes the entry,
   a completed entry is flushed next, a flushed acknowledgement leaves its queue.  The machine's engine loops
   (drive(), and the flush loop inside publish / subscribe / unsubscribe) end without exhausting their fuel on EVERY
   transport — no packet is written for ever or twice — within work + 5 engine steps (C16_drive_loop_terminates,
   C16_flush_outbound_terminates, C16_op_drive_terminates).  That these steps add up to
   quiescence within a bounded number of polls and I/O calls from every reachable state is checked on the
   implementation and the model by the drain suites (any generated history, then: transport healed, broker
   answering everything, reconnect, 40 polls) with an I/O watchdog. *)
From Coq Require Import List NArith.
From Minimq Require Import Bytes Varint Utf8 Props Ser De Reader Arena Core Machine.
From Minimq Require Import Status Progress WireInv Wire Measure Wire Terminate Run.
From Minimq Require Import Varint De ArenaOps ConnectOk ReaderInv Framing FillWhole PollReads Liveness PingQuiet Healthy.
Import ListNotations.
Open Scope N_scope.

Theorem C16_poll_never_returns_idle : forall fuel w w' p, wait_for_progress fuel w = (w', ODone p) -> p <> PrIdle.
Proof. exact wait_never_returns_idle. Qed.

Theorem C16_sent_entries_not_resent : forall o st, next_step o = Some st -> step_state st <> SSent.
Proof. exact next_step_not_sent. Qed.

Theorem C16_write_step_advances : forall w n len, 1 <= n ->
  set_written_state (w + n) len = SFlush \/ (set_written_state (w + n) len = SWrite (w + n) /\ w < w + n /\ w + n < len).
Proof. exact written_advances. Qed.

Theorem C16_complete_entry_is_flushed_next : forall s a w,
  prepare_step s (StCtl a SFlush) = PFlush (FCtl a) /\
  (forall pid rc, prepare_step s (StRel pid rc SFlush) = PFlush (FRel pid)) /\
  (forall pid off len, prepare_step s (StRet pid off len SFlush) = PFlush (FRet pid)) /\
  set_written_state (w + 0) w = SFlush.
Proof. exact complete_entry_is_flushed_next. Qed.

Theorem C16_flushed_control_leaves : forall o a o', flush_control o a = (o', true) -> glen (ob_ctl o') < glen (ob_ctl o).
Proof. exact flushed_control_leaves. Qed.

(* a weight on the three queues — per entry: 2 + unwritten bytes while being written, 1 while awaiting its flush,
   0 once sent — that every engine step strictly decreases: between two enqueues, within one connection, the engine
   performs at most `work` steps, and a packet is never written for ever or twice *)
Theorem C16_write_step_decreases_work : forall s st p bs w len n,
  WInv s -> next_step (s_ob s) = Some st -> prepare_step s st = PWrite p bs w len -> 1 <= n ->
  work (s_ob (fst (set_written s p (w + n) len))) < work (s_ob s).
Proof. exact write_step_decreases. Qed.

Theorem C16_flush_step_decreases_work : forall s st p now,
  WInv s -> next_step (s_ob s) = Some st -> prepare_step s st = PFlush p ->
  work (s_ob (fst (complete_flush s p now))) < work (s_ob s).
Proof. exact flush_step_decreases. Qed.

(* the machine: whenever an engine step reports progress the work of the session has strictly decreased *)
Theorem C16_progress_decreases_work : forall st now w w',
  WInv (w_sess w) -> next_step (s_ob (w_sess w)) = Some st ->
  perform_outbound_step st now w = (w', ODone true) ->
  work (s_ob (w_sess w')) < work (s_ob (w_sess w)).
Proof. exact progress_decreases_work. Qed.

(* the invariant WInv holds in every reachable world *)
Theorem C16_reachable_invariant : forall c, WInv (w_sess (Run.run_case c)).
Proof. exact reachable_WInv. Qed.

(* the engine loops terminate, whatever the transport does: with fuel above work + PINGREQ budget (at most 5) the
   loop never runs out — every iteration either ends the loop (idle, error, cancelled) or strictly lowers the measure *)
Theorem C16_drive_loop_terminates : forall fuel adv w,
  WInv (w_sess w) -> NA w -> M (w_sess w) < N.of_nat fuel -> snd (drive_loop fuel adv w) <> OFuel.
Proof. exact drive_loop_terminates. Qed.

Theorem C16_flush_outbound_terminates : forall fuel w,
  WInv (w_sess w) -> M (w_sess w) < N.of_nat fuel -> snd (flush_outbound fuel w) <> OFuel.
Proof. exact flush_outbound_terminates. Qed.

Theorem C16_op_drive_terminates : forall fuel w,
  WInv (w_sess w) -> NAl w -> M (w_sess w) < N.of_nat fuel -> snd (op_drive fuel w) <> OFuel.
Proof. exact op_drive_terminates. Qed.

(* the measure is bounded by the arena (at most 8 entries per queue, control packets of at most 5 bytes, retained
   packets inside the arena), so the model's fuel of 30 000 is never reached by drive() in any reachable world of a
   client whose transmit arena is at most 29 000 bytes: for every program, script and broker *)
Theorem C16_measure_bounded : forall s, Inv.Inv s -> M s <= lenN (ob_buf (s_ob s)) + 133.
Proof. exact M_bounded. Qed.

Theorem C16_reachable_drive_terminates : forall c, cf_tx (c_cfg c) <= 29000 ->
  let w := run_case c in halted w = false -> snd (op_drive FUEL w) <> OFuel.
Proof. exact reachable_drive_terminates. Qed.

(* a resumed connection with a retained publish to replay: the premises hold, drive() sends it and the work is 0 *)
Theorem C16_terminate_example :
  w_live ex_resumed = true /\ work (s_ob (w_sess ex_resumed)) = 13 /\ M (w_sess ex_resumed) < N.of_nat FUEL /\
  packet_available (s_reader (w_sess ex_resumed)) = false /\
  snd (op_drive FUEL ex_resumed) = ODone None /\ work (s_ob (w_sess (fst (op_drive FUEL ex_resumed)))) = 0.
Proof. exact terminate_example. Qed.

(* ---------------- the outbound half of quiescence ---------------- *)
(* Hd: a behaving transport (script []), a live handle, no broker size limit, no PINGREQ due, no half-written entry (as
   after every (re)connect: arm_replay puts every entry back at byte 0).  On such a connection one engine step takes the
   entry it selected all the way: written whole, flushed, marked sent - never an error, a dropped future or a lost entry *)
Theorem C16_healthy_step : forall st w, Hd w -> next_step (s_ob (w_sess w)) = Some st ->
  exists w', perform_outbound_step st (w_now w) w = (w', ODone true) /\ Hd w' /\
    s_reader (w_sess w') = s_reader (w_sess w) /\ w_now w' = w_now w.
Proof. exact healthy_perform. Qed.

(* and drive() sends EVERYTHING that is queued - owed acknowledgements, pending PUBRELs, retained packets to (re)send -
   and returns with nothing left to write: every entry is marked sent, the control queue is empty *)
Theorem C16_drive_sends_all : forall fuel w, Hd w -> NA w -> M (w_sess w) < N.of_nat fuel ->
  exists w', op_drive fuel w = (w', ODone None) /\ next_step (s_ob (w_sess w')) = None /\ Hd w' /\ NA w'.
Proof. exact drive_sends_all. Qed.

Theorem C16_poll_sends_all : forall fuel w st, Hd w -> NA w -> next_step (s_ob (w_sess w)) = Some st -> M (w_sess w) < N.of_nat (S fuel) ->
  exists w', op_poll (S fuel) w = (w', ODone None) /\ next_step (s_ob (w_sess w')) = None /\ Hd w' /\ NA w'.
Proof. exact poll_sends_all. Qed.

Theorem C16_drained_all_sent : forall o, Fr o -> next_step o = None ->
  Forall (fun e => ce_st e = SSent) (ob_ctl o) /\ Forall (fun e => le_st e = SSent) (ob_rel o) /\ Forall (fun e => re_st e = SSent) (ob_ret o).
Proof. exact drained_all_sent. Qed.

(* a resumed connection with a retained publish at byte 0: the premises hold, drive() replays it *)
Theorem C16_healthy_example :
  w_script ex_replay = [] /\ w_live ex_replay = true /\ rt_mps (s_rt (w_sess ex_replay)) = None /\
  rt_next_ping (s_rt (w_sess ex_replay)) = None /\ rt_ka_ms (s_rt (w_sess ex_replay)) = 0 /\
  rt_ping_timeout (s_rt (w_sess ex_replay)) = None /\
  map re_st (ob_ret (s_ob (w_sess ex_replay))) = [SWrite 0] /\ ob_ctl (s_ob (w_sess ex_replay)) = [] /\ ob_rel (s_ob (w_sess ex_replay)) = [] /\
  packet_available (s_reader (w_sess ex_replay)) = false /\ M (w_sess ex_replay) < N.of_nat FUEL /\
  snd (op_drive FUEL ex_replay) = ODone None /\
  map re_st (ob_ret (s_ob (w_sess (fst (op_drive FUEL ex_replay))))) = [SSent].
Proof. exact healthy_example. Qed.

(* ---------------- towards the broker: liveness of reading, and one exchange end to end ---------------- *)
(* the packet reader on a behaving transport: when the bytes of a whole canonically framed packet that fits the receive
   buffer have arrived, it assembles exactly that packet and stops with the packet available (any window sequence) *)
Theorem C16_reader_completes_arrived_packet : forall h rl body, varint_write (lenN body) = Some rl ->
  forall m fuel w k t,
  at_k h rl body (rd w) k -> lenN (h :: rl ++ body) - k <= N.of_nat m -> (m + 2 <= fuel)%nat -> w_script w = [] ->
  lenN (h :: rl ++ body) <= BIG ->
  (k < lenN (h :: rl ++ body) -> w_inq w = [(t, dropN k (h :: rl ++ body))] /\ t <= w_now w) ->
  (k = lenN (h :: rl ++ body) -> w_inq w = []) ->
  exists w', fill_packet_reader fuel None w = (w', FillOk) /\
    rdata (rd w') = h :: rl ++ body /\ rplen (rd w') = Some (lenN (h :: rl ++ body)) /\ rcap (rd w') = rcap (rd w) /\
    w_sess w' = set_reader (w_sess w) (rd w') /\ w_inq w' = [] /\ w_script w' = [] /\ w_now w' = w_now w.
Proof. exact fill_whole. Qed.

(* poll() with nothing left to write, no PINGREQ due or outstanding, one whole packet arrived: it behaves like poll() on the world
   in which that packet already sits complete in the reader *)
Theorem C16_poll_reads_arrived_packet : forall f w h rl body t,
  varint_write (lenN body) = Some rl ->
  let pkt := h :: rl ++ body in
  lenN pkt <= rcap (rd w) -> (N.to_nat (lenN pkt) + 2 <= f)%nat -> lenN pkt <= BIG ->
  w_live w = true -> rdata (rd w) = [] -> rplen (rd w) = None ->
  next_step (s_ob (w_sess w)) = None ->
  (forall d, rt_next_ping (s_rt (w_sess w)) = Some d -> w_now w < d) -> rt_ping_timeout (s_rt (w_sess w)) = None ->
  w_script w = [] -> w_inq w = [(t, pkt)] -> t <= w_now w ->
  exists w3, wait_for_progress (S f) w = wait_for_progress f w3 /\
    rdata (rd w3) = pkt /\ rplen (rd w3) = Some (lenN pkt) /\ rcap (rd w3) = rcap (rd w) /\
    w_sess w3 = set_reader (w_sess w) (rd w3) /\ w_inq w3 = [] /\ w_script w3 = [] /\ w_now w3 = w_now w /\ w_live w3 = true.
Proof. exact wait_reads_arrived_packet. Qed.

(* a PUBACK that has arrived completes its QoS 1 publish in ONE poll(): read, decoded, the retained PUBLISH released
   (every other retained packet untouched), the quota slot returned, progress reported, still nothing to write *)
Theorem C16_poll_completes_puback : forall w pid t,
  pid < 65536 -> 4 <= rcap (rd w) ->
  w_live w = true -> rdata (rd w) = [] -> rplen (rd w) = None ->
  arena_wf (s_ob (w_sess w)) -> next_step (s_ob (w_sess w)) = None ->
  (forall d, rt_next_ping (s_rt (w_sess w)) = Some d -> w_now w < d) -> rt_ping_timeout (s_rt (w_sess w)) = None ->
  w_script w = [] -> w_inq w = [(t, 64 :: [2] ++ u16_be pid)] -> t <= w_now w ->
  has_retained (s_ob (w_sess w)) pid = true ->
  exists w', op_poll FUEL w = (w', ODone None) /\ w_live w' = true /\ w_inq w' = [] /\
    (exists l', abs_remove pid (abs (s_ob (w_sess w))) = Some l' /\ abs (s_ob (w_sess w')) = l') /\
    ob_ctl (s_ob (w_sess w')) = ob_ctl (s_ob (w_sess w)) /\ ob_rel (s_ob (w_sess w')) = ob_rel (s_ob (w_sess w)) /\
    rt_quota (s_rt (w_sess w')) = N.min (N.min (rt_quota (s_rt (w_sess w)) + 1) 65535) (rt_maxquota (s_rt (w_sess w))) /\
    next_step (s_ob (w_sess w')) = None /\ packet_available (rd w') = false.
Proof. exact poll_completes_puback. Qed.

(* the general form: the arrived packet is decoded and handed to the session; if it is a message for the application
   poll() returns it, otherwise (and if nothing became writable) poll() reports progress - the session state is what
   handle_packet makes of it *)
Theorem C16_poll_handles_arrived : forall w h rl body t p s4 d,
  varint_write (lenN body) = Some rl ->
  let pkt := h :: rl ++ body in
  lenN pkt <= rcap (rd w) -> lenN pkt <= 29000 ->
  w_live w = true -> rdata (rd w) = [] -> rplen (rd w) = None ->
  next_step (s_ob (w_sess w)) = None ->
  (forall dd, rt_next_ping (s_rt (w_sess w)) = Some dd -> w_now w < dd) -> rt_ping_timeout (s_rt (w_sess w)) = None ->
  w_script w = [] -> w_inq w = [(t, pkt)] -> t <= w_now w ->
  from_buffer pkt = Some p ->
  handle_packet (set_reader (w_sess w) (reader_reset (rd w))) p = (s4, HOk d) ->
  (d = false -> next_step (s_ob s4) = None) ->
  exists w', op_poll FUEL w = (w', ODone (if d then Some p else None)) /\
    w_sess w' = s4 /\ w_live w' = true /\ w_inq w' = [] /\ w_now w' = w_now w.
Proof. exact poll_handles_arrived. Qed.

Theorem C16_puback_example :
  w_live ex_inflight = true /\ rdata (rd ex_inflight) = [] /\ rplen (rd ex_inflight) = None /\
  next_step (s_ob (w_sess ex_inflight)) = None /\
  rt_next_ping (s_rt (w_sess ex_inflight)) = None /\ rt_ping_timeout (s_rt (w_sess ex_inflight)) = None /\
  w_script ex_inflight = [] /\ w_inq ex_inflight = [(0, 64 :: [2] ++ [0; 1])] /\
  has_retained (s_ob (w_sess ex_inflight)) 1 = true /\ rt_quota (s_rt (w_sess ex_inflight)) = 7 /\
  snd (op_poll FUEL ex_inflight) = ODone None /\
  ob_ret (s_ob (w_sess (fst (op_poll FUEL ex_inflight)))) = [] /\
  rt_quota (s_rt (w_sess (fst (op_poll FUEL ex_inflight)))) = 8.
Proof. exact puback_example. Qed.

From Minimq Require Import Owed Replay.

(* what the healthy drive puts on the wire: exactly what the queues owed, nothing else *)
Theorem C16_drive_writes_owed : forall fuel adv w w' pr, Hd w -> NA w -> drive_loop fuel adv w = (w', ODone pr) ->
  w_wire w' = w_wire w ++ owed (s_ob (w_sess w)).
Proof. exact drive_loop_wire. Qed.

From Minimq Require Import Sends PingAt.

(* the same with no assumption on the keep-alive timer: a PINGREQ that falls due joins the queue before the first step (`s1`),
   and drive() sends everything, PINGREQ included *)
Theorem C16_drive_sends_all_any_timer : forall fuel w s1,
  Hc w -> NA w -> maybe_queue_pingreq (w_sess w) (w_now w) = (s1, None) -> M s1 < N.of_nat (S fuel) ->
  exists w', op_drive (S fuel) w = (w', ODone None) /\ next_step (s_ob (w_sess w')) = None /\ Hd w' /\ NA w' /\
    w_now w' = w_now w /\ w_wire w' = w_wire w ++ owed (s_ob s1).
Proof. exact drive_sends_all_any. Qed.

From Minimq Require Import Exchange.

(* ---- one whole QoS 1 exchange against the answering broker (mode 1: replies as MQTT prescribes), as ONE statement ----
   On a quiescent healthy connection without keep-alive: publish() (QoS 1 or 2; `ack_head`: PUBACK resp. PUBREC) returns its handle with exactly the encoded PUBLISH on the wire;
   the broker reads that packet whole and answers with the PUBACK of its identifier; the next poll() reads the PUBACK, completes
   the handle (nothing retained any more), returns the quota slot and leaves the session quiescent with nothing to write. *)
Theorem C16_publish_is_sent_and_answered : forall w r s2 op ps q,
  Hc w ->
  ob_ctl (s_ob (w_sess w)) = [] -> ob_rel (s_ob (w_sess w)) = [] -> ob_ret (s_ob (w_sess w)) = [] ->
  rt_ka_ms (s_rt (w_sess w)) = 0 -> rt_next_ping (s_rt (w_sess w)) = None -> rt_ping_timeout (s_rt (w_sess w)) = None ->
  w_broker w = 1 -> w_txbuf w = [] -> w_inq w = [] -> w_last_arrival w <= w_now w ->
  publish_middle (w_sess w) true r = (s2, MRetained op) ->
  effective_qos (w_sess w) (pr_qos r) = q -> q <> Q0 -> pr_props r = PSlice ps -> op_pid op < 65536 ->
  exists w1 bs cap off e,
    op_publish FUEL r w = (w1, ODone (Some op)) /\
    enc_publish cap (pub_request r q (op_pid op)) = SOk off bs /\
    w_wire w1 = w_wire w ++ bs /\
    w_inq w1 = [(w_now w, ack_head q :: [2] ++ u16_be (op_pid op))] /\
    Hc w1 /\ s_reader (w_sess w1) = s_reader (w_sess w) /\ w_now w1 = w_now w /\
    w_broker w1 = 1 /\ w_txbuf w1 = [] /\ w_last_arrival w1 = w_now w /\ rt_ka_ms (s_rt (w_sess w1)) = 0 /\
    rt_next_ping (s_rt (w_sess w1)) = None /\ rt_ping_timeout (s_rt (w_sess w1)) = None /\
    ob_ctl (s_ob (w_sess w1)) = [] /\ ob_rel (s_ob (w_sess w1)) = [] /\
    ob_ret (s_ob (w_sess w1)) = [sent_entry e] /\ re_pid e = op_pid op.
Proof. exact publish_is_sent_and_answered. Qed.

Theorem C16_qos1_exchange_completes : forall w r s2 op ps,
  Hc w ->
  ob_ctl (s_ob (w_sess w)) = [] -> ob_rel (s_ob (w_sess w)) = [] -> ob_ret (s_ob (w_sess w)) = [] ->
  rt_ka_ms (s_rt (w_sess w)) = 0 -> rt_next_ping (s_rt (w_sess w)) = None -> rt_ping_timeout (s_rt (w_sess w)) = None ->
  w_broker w = 1 -> w_txbuf w = [] -> w_inq w = [] -> w_last_arrival w <= w_now w ->
  rdata (rd w) = [] -> rplen (rd w) = None -> 4 <= rcap (rd w) ->
  publish_middle (w_sess w) true r = (s2, MRetained op) ->
  effective_qos (w_sess w) (pr_qos r) = Q1 -> pr_props r = PSlice ps -> op_pid op < 65536 ->
  exists w1 w2 bs cap off,
    op_publish FUEL r w = (w1, ODone (Some op)) /\
    enc_publish cap (pub_request r Q1 (op_pid op)) = SOk off bs /\ w_wire w1 = w_wire w ++ bs /\
    op_poll FUEL w1 = (w2, ODone None) /\ w_live w2 = true /\ w_inq w2 = [] /\
    ob_ctl (s_ob (w_sess w2)) = [] /\ ob_rel (s_ob (w_sess w2)) = [] /\ ob_ret (s_ob (w_sess w2)) = [] /\
    next_step (s_ob (w_sess w2)) = None /\
    rt_quota (s_rt (w_sess w2)) = N.min (N.min (rt_quota (s_rt (w_sess w1)) + 1) 65535) (rt_maxquota (s_rt (w_sess w1))).
Proof. exact qos1_exchange_completes. Qed.

Theorem C16_exchange_example :
  snd (publish_middle (w_sess ex_b1) true ex_pub) = MRetained ex_op1 /\
  snd (op_publish FUEL ex_pub ex_b1) = ODone (Some ex_op1) /\
  w_wire (fst (op_publish FUEL ex_pub ex_b1)) = w_wire ex_b1 ++ [50; 9; 0; 1; 116; 0; 1; 0; 1; 2; 3] /\
  w_inq (fst (op_publish FUEL ex_pub ex_b1)) = [(0, [64; 2; 0; 1])] /\
  snd (op_poll FUEL (fst (op_publish FUEL ex_pub ex_b1))) = ODone None /\
  ob_ret (s_ob (w_sess (fst (op_poll FUEL (fst (op_publish FUEL ex_pub ex_b1)))))) = [].
Proof. exact exchange_example. Qed.

Theorem C16_exchange_hyps_met :
  Hc ex_b1 /\
  ob_ctl (s_ob (w_sess ex_b1)) = [] /\ ob_rel (s_ob (w_sess ex_b1)) = [] /\ ob_ret (s_ob (w_sess ex_b1)) = [] /\
  rt_ka_ms (s_rt (w_sess ex_b1)) = 0 /\ rt_next_ping (s_rt (w_sess ex_b1)) = None /\ rt_ping_timeout (s_rt (w_sess ex_b1)) = None /\
  w_broker ex_b1 = 1 /\ w_txbuf ex_b1 = [] /\ w_inq ex_b1 = [] /\ w_last_arrival ex_b1 <= w_now ex_b1 /\
  rdata (rd ex_b1) = [] /\ rplen (rd ex_b1) = None /\ 4 <= rcap (rd ex_b1) /\
  publish_middle (w_sess ex_b1) true ex_pub = (fst (publish_middle (w_sess ex_b1) true ex_pub), MRetained ex_op1) /\
  effective_qos (w_sess ex_b1) (pr_qos ex_pub) = Q1 /\ pr_props ex_pub = PSlice [] /\ op_pid ex_op1 < 65536.
Proof. exact exchange_hyps_met. Qed.

From Minimq Require Import Exchange2.

(* ---- and one whole QoS 2 exchange: publish(), poll() (PUBREC in, the retained PUBLISH dropped, PUBREL written and flushed, the
   broker answers PUBCOMP), poll() (PUBCOMP in): nothing retained, nothing to release, the quota slot returned ---- *)
Theorem C16_poll_pubrec_sends_pubrel : forall w pid e t,
  Hc w -> pid < 65536 -> 4 <= rcap (rd w) -> rdata (rd w) = [] -> rplen (rd w) = None ->
  ob_ctl (s_ob (w_sess w)) = [] -> ob_rel (s_ob (w_sess w)) = [] -> ob_ret (s_ob (w_sess w)) = [sent_entry e] -> re_pid e = pid ->
  rt_ka_ms (s_rt (w_sess w)) = 0 -> rt_next_ping (s_rt (w_sess w)) = None -> rt_ping_timeout (s_rt (w_sess w)) = None ->
  w_broker w = 1 -> w_txbuf w = [] -> w_inq w = [(t, 80 :: [2] ++ u16_be pid)] -> t <= w_now w -> w_last_arrival w <= w_now w ->
  exists w',
    op_poll FUEL w = (w', ODone None) /\ w_wire w' = w_wire w ++ rel_bytes pid 0 /\
    w_inq w' = [(w_now w, 112 :: [2] ++ u16_be pid)] /\
    Hc w' /\ rdata (rd w') = [] /\ rplen (rd w') = None /\ rcap (rd w') = rcap (rd w) /\ w_now w' = w_now w /\
    ob_ctl (s_ob (w_sess w')) = [] /\ ob_ret (s_ob (w_sess w')) = [] /\ ob_rel (s_ob (w_sess w')) = [rel_entry pid SSent] /\
    rt_ka_ms (s_rt (w_sess w')) = 0 /\ rt_next_ping (s_rt (w_sess w')) = None /\ rt_ping_timeout (s_rt (w_sess w')) = None /\
    w_broker w' = 1 /\ w_txbuf w' = [] /\ w_last_arrival w' = w_now w /\
    rt_quota (s_rt (w_sess w')) = rt_quota (s_rt (w_sess w)) /\ rt_maxquota (s_rt (w_sess w')) = rt_maxquota (s_rt (w_sess w)).
Proof. exact poll_pubrec_sends_pubrel. Qed.

Theorem C16_qos2_exchange_completes : forall w r s2 op ps,
  Hc w ->
  ob_ctl (s_ob (w_sess w)) = [] -> ob_rel (s_ob (w_sess w)) = [] -> ob_ret (s_ob (w_sess w)) = [] ->
  rt_ka_ms (s_rt (w_sess w)) = 0 -> rt_next_ping (s_rt (w_sess w)) = None -> rt_ping_timeout (s_rt (w_sess w)) = None ->
  w_broker w = 1 -> w_txbuf w = [] -> w_inq w = [] -> w_last_arrival w <= w_now w ->
  rdata (rd w) = [] -> rplen (rd w) = None -> 4 <= rcap (rd w) ->
  publish_middle (w_sess w) true r = (s2, MRetained op) ->
  effective_qos (w_sess w) (pr_qos r) = Q2 -> pr_props r = PSlice ps -> op_pid op < 65536 ->
  exists w1 w2 w3 bs cap off,
    op_publish FUEL r w = (w1, ODone (Some op)) /\
    enc_publish cap (pub_request r Q2 (op_pid op)) = SOk off bs /\ w_wire w1 = w_wire w ++ bs /\
    op_poll FUEL w1 = (w2, ODone None) /\ w_wire w2 = w_wire w1 ++ rel_bytes (op_pid op) 0 /\
    op_poll FUEL w2 = (w3, ODone None) /\ w_live w3 = true /\ w_inq w3 = [] /\
    ob_ctl (s_ob (w_sess w3)) = [] /\ ob_rel (s_ob (w_sess w3)) = [] /\ ob_ret (s_ob (w_sess w3)) = [] /\
    next_step (s_ob (w_sess w3)) = None /\
    rt_quota (s_rt (w_sess w3)) = N.min (N.min (rt_quota (s_rt (w_sess w1)) + 1) 65535) (rt_maxquota (s_rt (w_sess w1))).
Proof. exact qos2_exchange_completes. Qed.

Theorem C16_exchange2_example :
  publish_middle (w_sess ex_b1) true ex_pubq2 = (fst (publish_middle (w_sess ex_b1) true ex_pubq2), MRetained ex_op2) /\
  effective_qos (w_sess ex_b1) (pr_qos ex_pubq2) = Q2 /\
  snd (op_publish FUEL ex_pubq2 ex_b1) = ODone (Some ex_op2) /\
  w_wire ex_q2a = w_wire ex_b1 ++ [52; 7; 0; 1; 117; 0; 1; 0; 9] /\ w_inq ex_q2a = [(0, [80; 2; 0; 1])] /\
  snd (op_poll FUEL ex_q2a) = ODone None /\ w_wire ex_q2b = w_wire ex_q2a ++ [98; 3; 0; 1; 0] /\ w_inq ex_q2b = [(0, [112; 2; 0; 1])] /\
  snd (op_poll FUEL ex_q2b) = ODone None /\ ob_ret (s_ob (w_sess ex_q2c)) = [] /\ ob_rel (s_ob (w_sess ex_q2c)) = [] /\
  rt_quota (s_rt (w_sess ex_q2c)) = rt_quota (s_rt (w_sess ex_b1)).
Proof. exact exchange2_example. Qed.

From Minimq Require Import Exchange3.

(* ---- and SUBSCRIBE / UNSUBSCRIBE: the request on the wire, the broker's SUBACK / UNSUBACK, the handle completed by one poll() ---- *)
Theorem C16_subscribe_exchange_completes : forall w topics ps s2 op,
  Hc w ->
  ob_ctl (s_ob (w_sess w)) = [] -> ob_rel (s_ob (w_sess w)) = [] -> ob_ret (s_ob (w_sess w)) = [] ->
  rt_ka_ms (s_rt (w_sess w)) = 0 -> rt_next_ping (s_rt (w_sess w)) = None -> rt_ping_timeout (s_rt (w_sess w)) = None ->
  w_broker w = 1 -> w_txbuf w = [] -> w_inq w = [] -> w_last_arrival w <= w_now w ->
  rdata (rd w) = [] -> rplen (rd w) = None -> 6 <= rcap (rd w) ->
  topics <> [] -> props_valid_for (PSlice ps) CtxSubscribe = true ->
  subscribe_middle (w_sess w) topics ps = (s2, MRetained op) -> op_pid op < 65536 ->
  exists w1 w2 bs cap off,
    op_subscribe FUEL topics ps w = (w1, ODone (Some op)) /\
    enc_subscribe cap {| sq_pid := op_pid op; sq_props := ps; sq_topics := topics |} = SOk off bs /\ w_wire w1 = w_wire w ++ bs /\
    w_inq w1 = [(w_now w, 144 :: [4] ++ u16_be (op_pid op) ++ [0; 0])] /\
    op_poll FUEL w1 = (w2, ODone None) /\ w_live w2 = true /\ w_inq w2 = [] /\
    ob_ctl (s_ob (w_sess w2)) = [] /\ ob_rel (s_ob (w_sess w2)) = [] /\ ob_ret (s_ob (w_sess w2)) = [] /\
    next_step (s_ob (w_sess w2)) = None.
Proof. exact subscribe_exchange_completes. Qed.

Theorem C16_unsubscribe_exchange_completes : forall w topics ps s2 op,
  Hc w ->
  ob_ctl (s_ob (w_sess w)) = [] -> ob_rel (s_ob (w_sess w)) = [] -> ob_ret (s_ob (w_sess w)) = [] ->
  rt_ka_ms (s_rt (w_sess w)) = 0 -> rt_next_ping (s_rt (w_sess w)) = None -> rt_ping_timeout (s_rt (w_sess w)) = None ->
  w_broker w = 1 -> w_txbuf w = [] -> w_inq w = [] -> w_last_arrival w <= w_now w ->
  rdata (rd w) = [] -> rplen (rd w) = None -> 6 <= rcap (rd w) ->
  topics <> [] -> props_valid_for (PSlice ps) CtxUnsubscribe = true ->
  unsubscribe_middle (w_sess w) topics ps = (s2, MRetained op) -> op_pid op < 65536 ->
  exists w1 w2 bs cap off,
    op_unsubscribe FUEL topics ps w = (w1, ODone (Some op)) /\
    enc_unsubscribe cap {| uq_pid := op_pid op; uq_props := ps; uq_topics := topics |} = SOk off bs /\ w_wire w1 = w_wire w ++ bs /\
    w_inq w1 = [(w_now w, 176 :: [4] ++ u16_be (op_pid op) ++ [0; 0])] /\
    op_poll FUEL w1 = (w2, ODone None) /\ w_live w2 = true /\ w_inq w2 = [] /\
    ob_ctl (s_ob (w_sess w2)) = [] /\ ob_rel (s_ob (w_sess w2)) = [] /\ ob_ret (s_ob (w_sess w2)) = [] /\
    next_step (s_ob (w_sess w2)) = None.
Proof. exact unsubscribe_exchange_completes. Qed.

Theorem C16_exchange3_example :
  snd (subscribe_middle (w_sess ex_b1) [(ex_filter, ex_so1)] []) = MRetained {| op_kind := 2; op_pid := 1; op_gen := 1 |} /\
  snd (op_subscribe FUEL [(ex_filter, ex_so1)] [] ex_b1) = ODone (Some {| op_kind := 2; op_pid := 1; op_gen := 1 |}) /\
  w_wire ex_sub_a = w_wire ex_b1 ++ [130; 9; 0; 1; 0; 0; 3; 102; 47; 97; 1] /\ w_inq ex_sub_a = [(0, [144; 4; 0; 1; 0; 0])] /\
  snd (op_poll FUEL ex_sub_a) = ODone None /\ ob_ret (s_ob (w_sess (fst (op_poll FUEL ex_sub_a)))) = [] /\
  snd (op_unsubscribe FUEL [ex_filter] [] ex_b1) = ODone (Some {| op_kind := 3; op_pid := 1; op_gen := 1 |}) /\
  w_wire ex_unsub_a = w_wire ex_b1 ++ [162; 8; 0; 1; 0; 0; 3; 102; 47; 97] /\ w_inq ex_unsub_a = [(0, [176; 4; 0; 1; 0; 0])] /\
  snd (op_poll FUEL ex_unsub_a) = ODone None /\ ob_ret (s_ob (w_sess (fst (op_poll FUEL ex_unsub_a)))) = [].
Proof. exact exchange3_example. Qed.

Print Assumptions C16_poll_never_returns_idle.
Print Assumptions C16_sent_entries_not_resent.
Print Assumptions C16_write_step_advances.
Print Assumptions C16_complete_entry_is_flushed_next.
Print Assumptions C16_flushed_control_leaves.
Print Assumptions C16_write_step_decreases_work.
Print Assumptions C16_flush_step_decreases_work.
From Minimq Require Import History.

(* ---- histories of any length.  `Idle`: a healthy connection without keep-alive with nothing queued, nothing half read, nothing
   in flight between client and broker.  One complete QoS 1 exchange leads from idle to idle, so every history of QoS 1 publishes,
   each followed by one poll(), completes every one of them: publish() returns its handle having put exactly the encoded PUBLISH
   on the wire, the broker answers, poll() writes nothing and leaves the handle complete, window and arena as before. ---- *)
Theorem C16_publish_accepted_when_idle : forall s r q,
  ob_ret (s_ob s) = [] -> rt_mps (s_rt s) = None -> rt_quota (s_rt s) <> 0 -> 5 <= ob_cap (s_ob s) ->
  props_valid_for (pr_props r) CtxPublish = true -> effective_qos s (pr_qos r) = q -> q <> Q0 ->
  (forall id, exists off bs, enc_publish (ob_cap (s_ob s)) (pub_request r q id) = SOk off bs) ->
  exists s2 op, publish_middle s true r = (s2, MRetained op).
Proof. exact publish_accepted_idle. Qed.

Theorem C16_qos1_exchange_idle_to_idle : forall w r s2 op ps,
  Idle w ->
  publish_middle (w_sess w) true r = (s2, MRetained op) ->
  effective_qos (w_sess w) (pr_qos r) = Q1 -> pr_props r = PSlice ps -> op_pid op < 65536 ->
  exists w1 w2 bs cap off,
    op_publish FUEL r w = (w1, ODone (Some op)) /\
    enc_publish cap (pub_request r Q1 (op_pid op)) = SOk off bs /\ w_wire w1 = w_wire w ++ bs /\
    op_poll FUEL w1 = (w2, ODone None) /\ w_wire w2 = w_wire w1 /\ w_now w2 = w_now w /\
    has_retained (s_ob (w_sess w2)) (op_pid op) = false /\
    rt_quota (s_rt (w_sess w2)) = N.min (N.min (rt_quota (s_rt (w_sess w)) - 1 + 1) 65535) (rt_maxquota (s_rt (w_sess w))) /\
    rt_maxquota (s_rt (w_sess w2)) = rt_maxquota (s_rt (w_sess w)) /\ rt_quota (s_rt (w_sess w)) <> 0 /\
    ob_cap (s_ob (w_sess w2)) = ob_cap (s_ob (w_sess w)) /\
    rt_maxqos (s_rt (w_sess w2)) = rt_maxqos (s_rt (w_sess w)) /\
    Idle w2.
Proof. exact qos1_exchange_idle. Qed.

Theorem C16_qos1_history_completes : forall rs w,
  IdleQ w -> wanted (ob_cap (s_ob (w_sess w))) rs w ->
  exists w', q1_history w rs w' /\ IdleQ w' /\ w_now w' = w_now w.
Proof. exact qos1_history_completes. Qed.

Theorem C16_history_hyps_met :
  IdleQ ex_b1 /\ wanted (ob_cap (s_ob (w_sess ex_b1))) [ex_pub; ex_pub] ex_b1.
Proof. exact history_hyps_met. Qed.

(* ---- the same for all four acknowledged operations, mixed in any order: SUBSCRIBE, UNSUBSCRIBE, QoS 1 and QoS 2 publishes (the
   latter with two polls).  `request_ok`: the request is valid, fits the transmit buffer and (publishes) is not QoS 0 for the
   session it meets; `exchange`: the operation returns its handle, then poll() is called once (twice for QoS 2);
   `history`: after each exchange the handle is neither retained nor awaiting release. ---- *)
Theorem C16_exchange_idle_to_idle : forall w q,
  IdleQ w -> request_ok (ob_cap (s_ob (w_sess w))) w q ->
  exists op w2, exchange w q op w2 /\
    has_retained (s_ob (w_sess w2)) (op_pid op) = false /\ has_pending_release (s_ob (w_sess w2)) (op_pid op) = false /\
    w_now w2 = w_now w /\ ob_cap (s_ob (w_sess w2)) = ob_cap (s_ob (w_sess w)) /\ IdleQ w2 /\
    rt_maxqos (s_rt (w_sess w2)) = rt_maxqos (s_rt (w_sess w)).
Proof. exact exchange_idle. Qed.

Theorem C16_history_completes : forall qs w,
  IdleQ w -> wanted_all (ob_cap (s_ob (w_sess w))) qs w ->
  exists w', history w qs w' /\ IdleQ w' /\ w_now w' = w_now w.
Proof. exact history_completes. Qed.

(* the requests judged once, against the initial session: no exchange changes the configuration (`C16_exchange_keeps_config`: no
   step of the session LTS does, `CfgFrame.v`) or the broker's Maximum QoS, so a request is the same QoS all along *)
Theorem C16_exchange_keeps_config : forall w q op w2, exchange w q op w2 -> s_cfg (w_sess w2) = s_cfg (w_sess w).
Proof. exact exchange_cfg. Qed.

Theorem C16_history_completes_static : forall qs w,
  IdleQ w -> Forall (request_ok (ob_cap (s_ob (w_sess w))) w) qs ->
  exists w', history w qs w' /\ IdleQ w' /\ w_now w' = w_now w.
Proof. exact history_completes_static. Qed.

Theorem C16_static_history_hyps_met :
  IdleQ ex_b1 /\
  Forall (request_ok (ob_cap (s_ob (w_sess ex_b1))) ex_b1) [ex_req_sub; ex_req_q2; ReqPublish ex_pub; ReqUnsubscribe [ex_filter] []; ex_req_q2].
Proof. exact static_history_hyps_met. Qed.

Theorem C16_qos2_exchange_idle_to_idle : forall w r s2 op ps,
  Idle w ->
  publish_middle (w_sess w) true r = (s2, MRetained op) ->
  effective_qos (w_sess w) (pr_qos r) = Q2 -> pr_props r = PSlice ps -> op_pid op < 65536 ->
  exists w1 w2 w3 bs cap off,
    op_publish FUEL r w = (w1, ODone (Some op)) /\
    enc_publish cap (pub_request r Q2 (op_pid op)) = SOk off bs /\ w_wire w1 = w_wire w ++ bs /\
    op_poll FUEL w1 = (w2, ODone None) /\ w_wire w2 = w_wire w1 ++ rel_bytes (op_pid op) 0 /\
    op_poll FUEL w2 = (w3, ODone None) /\ w_wire w3 = w_wire w2 /\ w_now w3 = w_now w /\
    has_retained (s_ob (w_sess w3)) (op_pid op) = false /\ has_pending_release (s_ob (w_sess w3)) (op_pid op) = false /\
    rt_quota (s_rt (w_sess w3)) = N.min (N.min (rt_quota (s_rt (w_sess w)) - 1 + 1) 65535) (rt_maxquota (s_rt (w_sess w))) /\
    rt_maxquota (s_rt (w_sess w3)) = rt_maxquota (s_rt (w_sess w)) /\ rt_quota (s_rt (w_sess w)) <> 0 /\
    ob_cap (s_ob (w_sess w3)) = ob_cap (s_ob (w_sess w)) /\
    rt_maxqos (s_rt (w_sess w3)) = rt_maxqos (s_rt (w_sess w)) /\
    Idle w3.
Proof. exact qos2_exchange_idle. Qed.

Theorem C16_subscribe_exchange_idle_to_idle : forall w topics ps s2 op,
  Idle w -> topics <> [] -> props_valid_for (PSlice ps) CtxSubscribe = true ->
  subscribe_middle (w_sess w) topics ps = (s2, MRetained op) -> op_pid op < 65536 ->
  exists w1 w2 bs cap off,
    op_subscribe FUEL topics ps w = (w1, ODone (Some op)) /\
    enc_subscribe cap {| sq_pid := op_pid op; sq_props := ps; sq_topics := topics |} = SOk off bs /\ w_wire w1 = w_wire w ++ bs /\
    op_poll FUEL w1 = (w2, ODone None) /\ w_wire w2 = w_wire w1 /\ w_now w2 = w_now w /\
    has_retained (s_ob (w_sess w2)) (op_pid op) = false /\
    s_rt (w_sess w2) = s_rt (w_sess w) /\ ob_cap (s_ob (w_sess w2)) = ob_cap (s_ob (w_sess w)) /\
    Idle w2.
Proof. exact subscribe_exchange_idle. Qed.

Theorem C16_unsubscribe_exchange_idle_to_idle : forall w topics ps s2 op,
  Idle w -> topics <> [] -> props_valid_for (PSlice ps) CtxUnsubscribe = true ->
  unsubscribe_middle (w_sess w) topics ps = (s2, MRetained op) -> op_pid op < 65536 ->
  exists w1 w2 bs cap off,
    op_unsubscribe FUEL topics ps w = (w1, ODone (Some op)) /\
    enc_unsubscribe cap {| uq_pid := op_pid op; uq_props := ps; uq_topics := topics |} = SOk off bs /\ w_wire w1 = w_wire w ++ bs /\
    op_poll FUEL w1 = (w2, ODone None) /\ w_wire w2 = w_wire w1 /\ w_now w2 = w_now w /\
    has_retained (s_ob (w_sess w2)) (op_pid op) = false /\
    s_rt (w_sess w2) = s_rt (w_sess w) /\ ob_cap (s_ob (w_sess w2)) = ob_cap (s_ob (w_sess w)) /\
    Idle w2.
Proof. exact unsubscribe_exchange_idle. Qed.

Theorem C16_mixed_history_hyps_met :
  IdleQ ex_b1 /\ wanted_all (ob_cap (s_ob (w_sess ex_b1))) [ex_req_sub; ex_req_q2] ex_b1.
Proof. exact mixed_history_hyps_met. Qed.

From Minimq Require Import Reconnect ConnectIdle.

(* ---- where those histories start: connect() of a client without keep-alive and with nothing in flight — a client that has
   never connected as well as one resuming its session — on a behaving transport answered by a conformant broker succeeds and
   ends in `IdleQ` (once the application holds the handle), for every configuration in which the CONNECT fits.  Hence: connect,
   then any list of acknowledged requests that are valid, not QoS 0 and fit the transmit buffer, each followed by its poll():
   the connect succeeds, every request completes, and the session ends idle. ---- *)
(* an inbound QoS 0 message arriving between two exchanges is delivered by one poll(), exactly as decoded, and leaves the
   connection idle: nothing written, queues, window and timers untouched *)
Theorem C16_inbound_qos0_idle : forall w h rl body t topic r dp props payload,
  Hc w ->
  ob_ctl (s_ob (w_sess w)) = [] -> ob_rel (s_ob (w_sess w)) = [] -> ob_ret (s_ob (w_sess w)) = [] ->
  rt_ka_ms (s_rt (w_sess w)) = 0 -> rt_next_ping (s_rt (w_sess w)) = None -> rt_ping_timeout (s_rt (w_sess w)) = None ->
  w_broker w = 1 -> w_txbuf w = [] -> w_last_arrival w <= w_now w ->
  rdata (rd w) = [] -> rplen (rd w) = None -> 6 <= rcap (rd w) ->
  varint_write (lenN body) = Some rl ->
  let pkt := h :: rl ++ body in
  w_inq w = [(t, pkt)] -> t <= w_now w -> lenN pkt <= rcap (rd w) -> lenN pkt <= 29000 ->
  from_buffer pkt = Some (RPublish topic None Q0 r dp props payload) ->
  exists w', op_poll FUEL w = (w', ODone (Some (RPublish topic None Q0 r dp props payload))) /\
    w_wire w' = w_wire w /\ w_now w' = w_now w /\ s_rt (w_sess w') = s_rt (w_sess w) /\ s_ob (w_sess w') = s_ob (w_sess w) /\
    Idle w'.
Proof. exact inbound_qos0_idle. Qed.

(* ---- histories that interleave the application's requests with inbound QoS 0 messages (`Mixed.v`): an event is a request
   (one complete exchange, `History.exchange`) or the arrival of one whole PUBLISH from the broker (`Run.feed`, no delay)
   followed by one poll().  From idle, for every list of events of any length and in any order: every request completes with
   its identifier released, every message is returned by its poll() exactly as decoded with nothing written to the wire, and
   the connection ends idle at the same instant. ---- *)
From Minimq Require Import Mixed.
Theorem C16_message_idle : forall w pkt,
  IdleQ w -> msg_ok w pkt ->
  exists w2, estep w (EvMsg pkt) w2 /\ IdleQ w2 /\ w_now w2 = w_now w /\
    ob_cap (s_ob (w_sess w2)) = ob_cap (s_ob (w_sess w)).
Proof. exact message_idle. Qed.

Theorem C16_mixed_history_completes : forall es w,
  IdleQ w -> wanted_events (ob_cap (s_ob (w_sess w))) es w ->
  exists w', mixed_history w es w' /\ IdleQ w' /\ w_now w' = w_now w.
Proof. exact mixed_history_completes. Qed.

(* what a step of such a history is, spelled out (the definitions are in Mixed.v; these pin them) *)
Theorem C16_estep_msg : forall w pkt w2, estep w (EvMsg pkt) w2 ->
  exists p, from_buffer pkt = Some p /\ op_poll FUEL (feed w 0 pkt) = (w2, ODone (Some p)) /\ w_wire w2 = w_wire w.
Proof. exact estep_msg_inv. Qed.
Theorem C16_estep_req : forall w q w2, estep w (EvReq q) w2 ->
  exists op, exchange w q op w2 /\
    has_retained (s_ob (w_sess w2)) (op_pid op) = false /\ has_pending_release (s_ob (w_sess w2)) (op_pid op) = false.
Proof. exact estep_req_inv. Qed.

Theorem C16_mixed_events_hyps_met :
  IdleQ ex_b1 /\ wanted_events (ob_cap (s_ob (w_sess ex_b1))) [EvMsg ex_msg; EvReq ex_req_sub] ex_b1.
Proof. exact mixed_events_hyps_met. Qed.

Theorem C16_connect_establishes_idle : forall w off bs,
  w_script w = [] -> w_broker w = 2 -> w_inq w = [] -> w_txbuf w = [] -> w_last_arrival w <= w_now w ->
  6 <= rcap (s_reader (w_sess w)) ->
  let s2 := connect_scratch (w_sess w) in
  enc_connect (ob_cap (s_ob s2) - ob_used (s_ob s2)) (connect_request s2) = SOk off bs -> lenN bs <= BIG ->
  WInv (w_sess w) ->
  ob_ctl (s_ob (w_sess w)) = [] -> ob_rel (s_ob (w_sess w)) = [] -> ob_ret (s_ob (w_sess w)) = [] ->
  (cf_keepalive_s (s_cfg (w_sess w)) mod 65536) * 1000 = 0 ->
  5 <= ob_cap (s_ob (w_sess w)) -> ob_cap (s_ob (w_sess w)) <= BIG ->
  exists w1 ev,
    op_connect FUEL w = (w1, ODone ev) /\ ev = (if s_sp (w_sess w) then 1 else 0) /\
    w_wire w1 = w_wire w ++ bs /\ w_now w1 = w_now w /\
    ob_cap (s_ob (w_sess w1)) = ob_cap (s_ob (w_sess w)) /\ s_cfg (w_sess w1) = s_cfg (w_sess w) /\
    rt_maxqos (s_rt (w_sess w1)) = None /\
    IdleQ (upd_broker (upd_live w1 true true ev) 1).
Proof. exact connect_establishes_idle. Qed.

Theorem C16_connect_then_history_completes : forall w off bs qs,
  w_script w = [] -> w_broker w = 2 -> w_inq w = [] -> w_txbuf w = [] -> w_last_arrival w <= w_now w ->
  6 <= rcap (s_reader (w_sess w)) ->
  let s2 := connect_scratch (w_sess w) in
  enc_connect (ob_cap (s_ob s2) - ob_used (s_ob s2)) (connect_request s2) = SOk off bs -> lenN bs <= BIG ->
  WInv (w_sess w) ->
  ob_ctl (s_ob (w_sess w)) = [] -> ob_rel (s_ob (w_sess w)) = [] -> ob_ret (s_ob (w_sess w)) = [] ->
  (cf_keepalive_s (s_cfg (w_sess w)) mod 65536) * 1000 = 0 ->
  5 <= ob_cap (s_ob (w_sess w)) -> ob_cap (s_ob (w_sess w)) <= BIG ->
  Forall (request_plain (ob_cap (s_ob (w_sess w)))) qs ->
  exists w1 ev w',
    op_connect FUEL w = (w1, ODone ev) /\ w_wire w1 = w_wire w ++ bs /\
    history (upd_broker (upd_live w1 true true ev) 1) qs w' /\ IdleQ w' /\ w_now w' = w_now w.
Proof. exact connect_then_history_completes. Qed.

Theorem C16_connect_then_history_hyps_met :
  w_script ex_pre = [] /\ w_broker ex_pre = 2 /\ w_inq ex_pre = [] /\ w_txbuf ex_pre = [] /\ w_last_arrival ex_pre <= w_now ex_pre /\
  6 <= rcap (s_reader (w_sess ex_pre)) /\
  (exists off, enc_connect (ob_cap (s_ob (connect_scratch (w_sess ex_pre))) - ob_used (s_ob (connect_scratch (w_sess ex_pre))))
                           (connect_request (connect_scratch (w_sess ex_pre))) = SOk off ex_connect_bytes) /\
  lenN ex_connect_bytes <= BIG /\ WInv (w_sess ex_pre) /\
  ob_ctl (s_ob (w_sess ex_pre)) = [] /\ ob_rel (s_ob (w_sess ex_pre)) = [] /\ ob_ret (s_ob (w_sess ex_pre)) = [] /\
  (cf_keepalive_s (s_cfg (w_sess ex_pre)) mod 65536) * 1000 = 0 /\
  5 <= ob_cap (s_ob (w_sess ex_pre)) /\ ob_cap (s_ob (w_sess ex_pre)) <= BIG /\
  Forall (request_plain (ob_cap (s_ob (w_sess ex_pre)))) [ex_req_sub; ex_req_q2; ReqPublish ex_pub; ReqUnsubscribe [ex_filter] []].
Proof. exact connect_then_history_hyps_met. Qed.

Print Assumptions C16_progress_decreases_work.
Print Assumptions C16_reachable_invariant.
Print Assumptions C16_drive_loop_terminates.
Print Assumptions C16_flush_outbound_terminates.
Print Assumptions C16_op_drive_terminates.
Print Assumptions C16_terminate_example.
Print Assumptions C16_measure_bounded.
Print Assumptions C16_reachable_drive_terminates.
Print Assumptions C16_reader_completes_arrived_packet.
Print Assumptions C16_poll_reads_arrived_packet.
Print Assumptions C16_poll_completes_puback.
Print Assumptions C16_puback_example.
Print Assumptions C16_poll_handles_arrived.
Print Assumptions C16_healthy_step.
Print Assumptions C16_drive_sends_all.
Print Assumptions C16_drained_all_sent.
Print Assumptions C16_healthy_example.
Print Assumptions C16_poll_sends_all.
Print Assumptions C16_drive_writes_owed.
Print Assumptions C16_drive_sends_all_any_timer.
Print Assumptions C16_publish_is_sent_and_answered.
Print Assumptions C16_qos1_exchange_completes.
Print Assumptions C16_exchange_example.
Print Assumptions C16_exchange_hyps_met.
Print Assumptions C16_poll_pubrec_sends_pubrel.
Print Assumptions C16_qos2_exchange_completes.
Print Assumptions C16_exchange2_example.
Print Assumptions C16_subscribe_exchange_completes.
Print Assumptions C16_unsubscribe_exchange_completes.
Print Assumptions C16_exchange3_example.
Print Assumptions C16_publish_accepted_when_idle.
Print Assumptions C16_qos1_exchange_idle_to_idle.
Print Assumptions C16_qos1_history_completes.
Print Assumptions C16_history_hyps_met.
Print Assumptions C16_exchange_idle_to_idle.
Print Assumptions C16_history_completes.
Print Assumptions C16_qos2_exchange_idle_to_idle.
Print Assumptions C16_subscribe_exchange_idle_to_idle.
Print Assumptions C16_unsubscribe_exchange_idle_to_idle.
Print Assumptions C16_mixed_history_hyps_met.
Print Assumptions C16_exchange_keeps_config.
Print Assumptions C16_history_completes_static.
Print Assumptions C16_static_history_hyps_met.
Print Assumptions C16_connect_establishes_idle.
Print Assumptions C16_connect_then_history_completes.
Print Assumptions C16_connect_then_history_hyps_met.
Print Assumptions C16_inbound_qos0_idle.
Print Assumptions C16_message_idle.
Print Assumptions C16_mixed_history_completes.
Print Assumptions C16_estep_msg.
Print Assumptions C16_estep_req.
Print Assumptions C16_mixed_events_hyps_met.
