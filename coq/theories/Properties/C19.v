(* C19 — Invalid requests are refused locally, leave no trace; QoS capped when asked.
   This file contains statements only; every proof is `exact` of a lemma from Proofs/. *)
From Minimq Require Import Bytes Varint Utf8 Props Ser De Reader Arena Core Spec Show Machine.
From Minimq Require Import C19_proofs.

(* (a) the validity table equals MQTT 5's table for client packets: 27 kinds x 5 contexts *)
Theorem C19_table : forall k c, kind_valid_for k c = client_may_send k c.
Proof. exact table_eq. Qed.

Theorem C19_values : forall p, has_valid_value p = legal_value p.
Proof. exact values_eq. Qed.

(* a property list handed to the API is accepted iff every element is legal and allowed *)
Theorem C19_accept_iff : forall l c,
  props_valid_for (PSlice l) c = forallb (fun p => legal_value p && client_may_send (pk p) c) l.
Proof. exact props_valid_for_slice. Qed.

(* (b) refusal: the world (session state, wire, log of I/O, handles) is unchanged *)
Theorem C19_publish_refused : forall fuel r w w1,
  w_live w = true -> props_valid_for (pr_props r) CtxPublish = false ->
  flush_outbound fuel w = (w1, ODone tt) ->
  op_publish fuel r w = (w1, OFail EInvalidRequest).
Proof. exact op_publish_invalid. Qed.

Theorem C19_subscribe_refused : forall fuel topics ps w,
  w_live w = true -> topics = [] \/ props_valid_for (PSlice ps) CtxSubscribe = false ->
  op_subscribe fuel topics ps w = (w, OFail EInvalidRequest).
Proof. exact op_subscribe_invalid. Qed.

Theorem C19_unsubscribe_refused : forall fuel topics ps w,
  w_live w = true -> topics = [] \/ props_valid_for (PSlice ps) CtxUnsubscribe = false ->
  op_unsubscribe fuel topics ps w = (w, OFail EInvalidRequest).
Proof. exact op_unsubscribe_invalid. Qed.

Theorem C19_disconnect_refused : forall fuel r l w,
  w_live w = true -> props_valid_for (PSlice l) CtxDisconnect = false ->
  op_disconnect fuel {| dq_reason := r; dq_props := Some l |} w = (w, OFail EInvalidRequest).
Proof. exact op_disconnect_invalid. Qed.

Theorem C19_dead_handle : forall fuel w, w_live w = false ->
  (forall r, op_publish fuel r w = (w, OFail EDisconnected)) /\
  (forall t ps, op_subscribe fuel t ps w = (w, OFail EDisconnected)) /\
  (forall t ps, op_unsubscribe fuel t ps w = (w, OFail EDisconnected)) /\
  (forall d, op_disconnect fuel d w = (w, ODone tt)).
Proof. exact dead_handle_refused. Qed.

(* (c) downgrade *)
Theorem C19_downgrade_caps : forall s q m,
  cf_downgrade (s_cfg s) = true -> rt_maxqos (s_rt s) = Some m -> (qos_n (effective_qos s q) <= qos_n m)%N.
Proof. exact downgrade_caps. Qed.

Theorem C19_no_downgrade : forall s q, cf_downgrade (s_cfg s) = false -> effective_qos s q = q.
Proof. exact no_downgrade_unchanged. Qed.

Theorem C19_handle_matches : forall s live r s' o,
  publish_middle s live r = (s', MRetained o) ->
  op_kind o = match effective_qos s (pr_qos r) with Q2 => 1%N | _ => 0%N end
  /\ effective_qos s (pr_qos r) <> Q0.
Proof. exact handle_matches_qos. Qed.

(* non-vacuity: a legal WillDelayInterval on the will is accepted, TopicAlias 0 is refused, and a
   publish with an illegal property in a live world is refused *)
Example C19_nonvacuous :
  is_valid_for (mkprop KWillDelayInterval 5 [] []) CtxWill = true /\
  is_valid_for (mkprop KTopicAlias 0 [] []) CtxPublish = false /\
  props_valid_for (PSlice [mkprop KReceiveMaximum 3 [] []]) CtxPublish = false.
Proof. vm_compute. auto. Qed.

Print Assumptions C19_table.
Print Assumptions C19_values.
Print Assumptions C19_accept_iff.
Print Assumptions C19_publish_refused.
Print Assumptions C19_subscribe_refused.
Print Assumptions C19_unsubscribe_refused.
Print Assumptions C19_disconnect_refused.
Print Assumptions C19_dead_handle.
Print Assumptions C19_downgrade_caps.
Print Assumptions C19_no_downgrade.
Print Assumptions C19_handle_matches.
