(* C08 — Any inbound bytes: valid packets accepted verbatim, malformed rejected, no panic.  Statements only. *)
From Coq Require Import List NArith.
From Minimq Require Import Bytes Varint Utf8 Props Ser De Reader Arena Core Show Machine.
From Minimq Require Import VarintProofs CodecProofs Limits Connack.
Import ListNotations.
Open Scope N_scope.

(* The decoder of the model, `from_buffer : bytes -> option rpacket`, the packet reader and the lazy property
   iterator are total functions over all byte lists: there is no input on which they are undefined, and every slice
   they take is guarded (C08_window: the read window handed to the transport lies inside the receive buffer). *)

(* variable byte integers: round trip, and the reader accepts only what the writer produces (canonical, at most
   four bytes, at most 268435455) *)
Theorem C08_varint_roundtrip : forall v bs rest, varint_write v = Some bs -> varint_read (bs ++ rest) = VOk v rest.
Proof. exact varint_roundtrip. Qed.
Theorem C08_varint_canonical : forall l v rest, Forall (fun b => b < 256) l -> varint_read l = VOk v rest ->
  exists bs, varint_write v = Some bs /\ l = bs ++ rest.
Proof. exact varint_canonical. Qed.
(* the reader's lax length probe agrees with the canonical reader wherever that one accepts *)
Theorem C08_probe_agrees : forall l v rest, varint_read l = VOk v rest ->
  probe_len (takeN 4 l) = Some (1 + (lenN l - lenN rest) + v).
Proof. exact probe_agrees. Qed.

(* the first byte: accepted exactly for the packet types and flag nibbles MQTT 5 lets a server send (all 256
   values), everything else — type 0, client-only types 1/8/10/12, AUTH, wrong flags, QoS 3 — is rejected *)
Theorem C08_first_byte : forall hdr, hdr < 256 -> hdr_gate hdr = spec_server_first_byte hdr.
Proof. exact gate_is_spec. Qed.
Theorem C08_illegal_first_byte : forall hdr t, hdr < 256 -> spec_server_first_byte hdr = false -> from_buffer (hdr :: t) = None.
Proof. exact illegal_first_byte_rejected. Qed.
Theorem C08_bad_remaining_length : forall hdr t, (forall v r, varint_read t <> VOk v r) -> from_buffer (hdr :: t) = None.
Proof. exact bad_remaining_length_rejected. Qed.
Theorem C08_trailing_garbage : forall hdr t n body p x rest,
  varint_read t = VOk n body -> de_body hdr body = Some (p, x :: rest) ->
  match p with RPublish _ _ _ _ _ _ _ | RSubAck _ _ _ | RUnsubAck _ _ _ => False | _ => True end ->
  from_buffer (hdr :: t) = None.
Proof. exact trailing_garbage_rejected. Qed.
Theorem C08_invalid_topic : forall hdr topic rest x t,
  hdr / 16 = 3 -> len_prefixed topic = Some x -> utf8_valid topic = false ->
  varint_read t = VOk (lenN (x ++ rest)) (x ++ rest) -> from_buffer (hdr :: t) = None.
Proof. exact invalid_topic_rejected. Qed.
Theorem C08_oversize : forall r pl, rplen r = Some pl -> rcap r < pl -> snd (receive_buffer r) = None.
Proof. exact oversize_inbound_refused. Qed.
Theorem C08_window : forall r r' win, receive_buffer r = (r', Some win) ->
  (exists e, e <= rcap r' /\ win = e - read_bytes r') /\ rdata r' = rdata r /\ rcap r' = rcap r.
Proof. exact window_in_buffer. Qed.

(* valid packets are accepted with exactly the field values sent: every PUBLISH (any topic, payload, QoS, retain,
   DUP, identifier, any list of well-formed properties, no bound on any length) decodes to itself ... *)
Theorem C08_publish_verbatim : forall cap r off bs ps block,
  enc_publish cap r = SOk off bs -> pq_props r = PSlice ps -> encode_all ps = Some block ->
  utf8_valid (pq_topic r) = true -> pid_matches_qos (pq_qos r) (pq_pid r) ->
  from_buffer bs = Some (RPublish (pq_topic r) (pq_pid r) (pq_qos r) (pq_retain r) (pq_dup r) block (pq_payload r)).
Proof. exact publish_roundtrip. Qed.
(* ... and its property block, read through the lazy iterator, yields exactly the properties, in order *)
Theorem C08_properties_verbatim : forall ps block,
  encode_all ps = Some block -> forallb prop_wf ps = true -> forallb prop_canon ps = true ->
  props_iter_encoded block = map Some ps.
Proof. exact props_iter_roundtrip. Qed.

(* a successful CONNACK is accepted exactly when none of its properties is Receive Maximum 0, a Maximum QoS above 2
   (protocol errors of the broker) or an Assigned Client Identifier longer than 64 bytes; every other property list
   that decodes - any order, any user properties, unknown-to-the-client server properties - is accepted *)
Theorem C08_connack_accepted_iff : forall s sp ps block now,
  encode_all ps = Some block -> forallb prop_wf ps = true -> forallb prop_canon ps = true ->
  snd (connack_process s (Some (RConnAck sp 0 block)) now) =
    if forallb connack_prop_ok ps then CAOk sp else CAErr EInvalidPacket true.
Proof. exact connack_accepted_iff. Qed.

(* REFUTED for one class of valid packets (known finding K08a): a CONNACK whose Assigned Client Identifier has 65
   bytes is well-formed MQTT 5, decodes, fits a 128-byte receive buffer - and is refused with the invalid-packet error
   in every state, because the session keeps the identifier in 64 bytes *)
Theorem C08_assigned_client_id_refuted :
  forallb prop_wf k08a_props = true /\ forallb prop_canon k08a_props = true /\
  lenN k08a_packet = 73 /\
  (exists block, from_buffer k08a_packet = Some (RConnAck false 0 block) /\ encode_all k08a_props = Some block) /\
  forall s now, snd (connack_process s (from_buffer k08a_packet) now) = CAErr EInvalidPacket true.
Proof. exact assigned_client_id_refuted. Qed.

Print Assumptions C08_varint_roundtrip.
Print Assumptions C08_varint_canonical.
Print Assumptions C08_probe_agrees.
Print Assumptions C08_first_byte.
Print Assumptions C08_illegal_first_byte.
Print Assumptions C08_bad_remaining_length.
Print Assumptions C08_trailing_garbage.
Print Assumptions C08_invalid_topic.
Print Assumptions C08_oversize.
Print Assumptions C08_window.
Print Assumptions C08_publish_verbatim.
Print Assumptions C08_properties_verbatim.
Print Assumptions C08_connack_accepted_iff.
Print Assumptions C08_assigned_client_id_refuted.
