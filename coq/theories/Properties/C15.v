(* C15 — behaviour does not depend on how the transport fragments reads and writes.  Statements only.
   Reads: the packet reader driven by ANY fragmentation (the transport hands over 1 <= cnt <= window bytes per read,
   chosen freely at every read) yields the same sequence of packets (length and decode), the same final reader and the
   same unread rest: the big-step relation RRun is a function of (reader, stream).  Stated for the executable loop.
   Writes: the pieces the engine writes from its recorded offset concatenate to the packet.
   The machine: in every reachable world the reader holds a prefix of the inbound stream no longer than the packet
   being assembled, so every packet the session handles is the next frame of the stream and handling it consumes
   exactly that frame - inbound framing is a function of the byte stream alone (second half of the file).
   Whole executions (results, deliveries, outbound stream of the same program under two fragmentations) are compared
   on the implementation and on the model by the twin runs of the check. *)
From Coq Require Import List NArith.
From Minimq Require Import Bytes Varint Utf8 Props Ser De Reader Arena Core Machine Run.
From Minimq Require Import Chunking ReaderInv Cancel Framing Drain.
Import ListNotations.
Open Scope N_scope.

Theorem C15_reader_relation_is_a_function : forall n input, lenN input <= n -> forall r ps1 fin1 ps2 fin2,
  RRun r input ps1 fin1 -> RRun r input ps2 fin2 -> ps1 = ps2 /\ fin1 = fin2.
Proof. exact reader_deterministic. Qed.

Theorem C15_reader_chunking_independent : forall f1 f2 r input frags1 frags2 ps1 fin1 ps2 fin2,
  rloop f1 r input frags1 = (ps1, Some fin1) -> rloop f2 r input frags2 = (ps2, Some fin2) ->
  ps1 = ps2 /\ fin1 = fin2.
Proof. exact reader_chunking_independent. Qed.

Theorem C15_loop_refines_relation : forall fuel r input frags ps fin,
  rloop fuel r input frags = (ps, Some fin) -> RRun r input ps fin.
Proof. exact rloop_sound. Qed.

Theorem C15_written_pieces_concatenate : forall ns bs written,
  pieces bs written ns = takeN (sumN ns) (dropN written bs).
Proof. exact pieces_concat. Qed.

Theorem C15_written_pieces_are_the_packet : forall ns bs, sumN ns = lenN bs -> pieces bs 0 ns = bs.
Proof. exact pieces_whole. Qed.

(* ---------------- the machine: inbound framing is a function of the byte stream ---------------- *)
(* RInv: the packet reader never holds more than the packet it is assembling, and its recorded length is what the
   header bytes it holds say; true in EVERY reachable world - any program, any script of read sizes (down to one byte,
   splits inside the fixed header), read timing, faults, dropped futures, reconnects *)
Theorem C15_reader_invariant_reachable : forall c, RInv (rd (run_case c)).
Proof. exact reachable_RInv. Qed.

(* so the packet handed to the session is exactly the first pl bytes of the inbound stream (what the reader holds ++
   what is still queued on the transport), pl being announced by the stream's own header ... *)
Theorem C15_handled_packet_is_next_frame : forall w, RInv (rd w) -> packet_available (rd w) = true ->
  exists pl, rplen (rd w) = Some pl /\ pl <= lenN (inbound_stream w) /\
    rdata (rd w) = takeN pl (inbound_stream w) /\
    take_packet (rd w) = Some (reader_reset (rd w), pl, from_buffer (takeN pl (inbound_stream w))).
Proof. exact handled_packet_is_next_frame. Qed.

Theorem C15_frame_length_from_stream : forall w pl, RInv (rd w) -> rplen (rd w) = Some pl ->
  probe_len (takeN 4 (dropN 1 (inbound_stream w))) = Some pl.
Proof. exact frame_length_from_stream. Qed.

(* ... handling it removes exactly those bytes from the stream (nothing skipped, nothing read twice) ... *)
Theorem C15_process_consumes_frame : forall w pl, RInv (rd w) -> packet_available (rd w) = true -> rplen (rd w) = Some pl ->
  inbound_stream (fst (process_received w)) = dropN pl (inbound_stream w).
Proof. exact process_consumes_frame. Qed.

(* ... and reading, however fragmented, timed, failed or dropped, never changes the stream *)
Theorem C15_reads_conserve_stream : forall fuel dl w,
  inbound_stream (fst (fill_packet_reader fuel dl w)) = inbound_stream w.
Proof. exact fill_conserves_inbound. Qed.

(* the same QoS 2 PUBLISH read whole and read one byte at a time: same pending set, same bytes written, same reader *)
Theorem C15_framing_example :
  s_srv (w_sess ex_q2_frag) = s_srv (w_sess ex_q2) /\ s_srv (w_sess ex_q2) = [7] /\
  w_wire ex_q2_frag = w_wire ex_q2 /\ w_live ex_q2_frag = true /\ rd ex_q2_frag = rd ex_q2.
Proof. exact framing_example. Qed.

Print Assumptions C15_reader_relation_is_a_function.
Print Assumptions C15_reader_chunking_independent.
Print Assumptions C15_loop_refines_relation.
Print Assumptions C15_written_pieces_concatenate.
Print Assumptions C15_written_pieces_are_the_packet.
Print Assumptions C15_reader_invariant_reachable.
Print Assumptions C15_handled_packet_is_next_frame.
Print Assumptions C15_frame_length_from_stream.
Print Assumptions C15_process_consumes_frame.
Print Assumptions C15_reads_conserve_stream.
Print Assumptions C15_framing_example.
