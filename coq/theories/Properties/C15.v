(* C15 — behaviour does not depend on how the transport fragments reads and writes.  Statements only.
   Reads: the packet reader driven by ANY fragmentation (the transport hands over 1 <= cnt <= window bytes per read,
   chosen freely at every read) yields the same sequence of packets (length and decode), the same final reader and the
   same unread rest: the big-step relation RRun is a function of (reader, stream).  Stated for the executable loop.
   Writes: the pieces the engine writes from its recorded offset concatenate to the packet.
   The machine: in every reachable world the reader holds a prefix of the inbound stream no longer than the packet
   being assembled, so every packet the session handles is the next frame of the stream and handling it consumes
   exactly that frame - inbound framing is a function of the byte stream alone (second half of the file).
   Whole executions (results, deliveries, outbound stream of the same program under two fragmentations) are compared
   on the implementation and on the model by the twin runs of the check. *)
From Coq Require Import List NArith.
From Minimq Require Import Bytes Varint Utf8 Props Ser De Reader Arena Core Machine Run.
From Minimq Require Import Chunking ReaderInv Cancel Framing Drain.
Import ListNotations.
Open Scope N_scope.

Theorem C15_reader_relation_is_a_function : forall n input, lenN input <= n -> forall r ps1 fin1 ps2 fin2,
  RRun r input ps1 fin1 -> RRun r input ps2 fin2 -> ps1 = ps2 /\ fin1 = fin2.
Proof. exact reader_deterministic. Qed.

Theorem C15_reader_chunking_independent : forall f1 f2 r input frags1 frags2 ps1 fin1 ps2 fin2,
  rloop f1 r input frags1 = (ps1, Some fin1) -> rloop f2 r input frags2 = (ps2, Some fin2) ->
  ps1 = ps2 /\ fin1 = fin2.
Proof. exact reader_chunking_independent. Qed.

Theorem C15_loop_refines_relation : forall fuel r input frags ps fin,
  rloop fuel r input frags = (ps, Some fin) -> RRun r input ps fin.
Proof. exact rloop_sound. Qed.

Theorem C15_written_pieces_concatenate : forall ns bs written,
  pieces bs written ns = takeN (sumN ns) (dropN written bs).
Proof. exact pieces_concat. Qed.

Theorem C15_written_pieces_are_the_packet : forall ns bs, sumN ns = lenN bs -> pieces bs 0 ns = bs.
Proof. exact pieces_whole. Qed.

(* ---------------- the machine: inbound framing is a function of the byte stream ---------------- *)
(* RInv: the packet reader never holds more than the packet it is assembling, and its recorded length is what the
   header bytes it holds say; true in EVERY reachable world - any program, any script of read sizes (down to one byte,
   splits inside the fixed header), read timing, faults, dropped futures, reconnects *)
Theorem C15_reader_invariant_reachable : forall c, RInv (rd (run_case c)).
Proof. exact reachable_RInv. Qed.

(* so the packet handed to the session is exactly the first pl bytes of the inbound stream (what the reader holds ++
   what is still queued on the transport), pl being announced by the stream's own header ... *)
Theorem C15_handled_packet_is_next_frame : forall w, RInv (rd w) -> packet_available (rd w) = true ->
  exists pl, rplen (rd w) = Some pl /\ pl <= lenN (inbound_stream w) /\
    rdata (rd w) = takeN pl (inbound_stream w) /\
    take_packet (rd w) = Some (reader_reset (rd w), pl, from_buffer (takeN pl (inbound_stream w))).
Proof. exact handled_packet_is_next_frame. Qed.

Theorem C15_frame_length_from_stream : forall w pl, RInv (rd w) -> rplen (rd w) = Some pl ->
  probe_len (takeN 4 (dropN 1 (inbound_stream w))) = Some pl.
Proof. exact frame_length_from_stream. Qed.

(* ... handling it removes exactly those bytes from the stream (nothing skipped, nothing read twice) ... *)
Theorem C15_process_consumes_frame : forall w pl, RInv (rd w) -> packet_available (rd w) = true -> rplen (rd w) = Some pl ->
  inbound_stream (fst (process_received w)) = dropN pl (inbound_stream w).
Proof. exact process_consumes_frame. Qed.

(* ... and reading, however fragmented, timed, failed or dropped, never changes the stream *)
Theorem C15_reads_conserve_stream : forall fuel dl w,
  inbound_stream (fst (fill_packet_reader fuel dl w)) = inbound_stream w.
Proof. exact fill_conserves_inbound. Qed.

(* the same QoS 2 PUBLISH read whole and read one byte at a time: same pending set, same bytes written, same reader *)
Theorem C15_framing_example :
  s_srv (w_sess ex_q2_frag) = s_srv (w_sess ex_q2) /\ s_srv (w_sess ex_q2) = [7] /\
  w_wire ex_q2_frag = w_wire ex_q2 /\ w_live ex_q2_frag = true /\ rd ex_q2_frag = rd ex_q2.
Proof. exact framing_example. Qed.

From Minimq Require Import WireInv Wire PingQuiet Healthy Owed.

(* ---- the outbound side: what reaches the transport does not depend on how the transport cuts the writes ----
   `owed o` is a function of the queues alone (Owed.v): the unwritten rest of the half-written entry, then every unsent
   entry in service order.  One engine step, whatever number of bytes the transport accepts, moves bytes from the front
   of `owed` to the end of the wire:  wire' ++ owed' = wire ++ owed  (every outcome except an error). *)
Theorem C15_engine_step_conserves : forall st now w w' r,
  WInv (w_sess w) -> next_step (s_ob (w_sess w)) = Some st ->
  perform_outbound_step st now w = (w', r) -> not_failed r ->
  w_wire w' ++ owed (s_ob (w_sess w')) = w_wire w ++ owed (s_ob (w_sess w)).
Proof. exact step_conserves. Qed.

(* at session level: accepting `n` more bytes of the entry in progress *)
Theorem C15_written_prefix_leaves_owed : forall s st p bs w len n now,
  WInv s -> next_step (s_ob s) = Some st -> prepare_step s st = PWrite p bs w len -> n <> 0 -> n <= len - w ->
  let s2 := fst (set_written s p (w + n) len) in
  owed (s_ob s) = takeN n (dropN w bs) ++ owed (s_ob s2) /\
  (len <= w + n -> owed (s_ob (fst (complete_flush s2 p now))) = owed (s_ob s2)).
Proof. exact engine_owed. Qed.

(* hence a drain that comes to its end has put exactly `owed` on the wire — for EVERY script of partial writes *)
Theorem C15_drain_writes_owed_any_fragmentation : forall fuel w w',
  WInv (w_sess w) -> PQ w -> flush_outbound fuel w = (w', ODone tt) ->
  w_wire w' = w_wire w ++ owed (s_ob (w_sess w)) /\ next_step (s_ob (w_sess w')) = None.
Proof. exact flush_outbound_wire. Qed.

Theorem C15_nothing_to_do_nothing_owed : forall o, next_step o = None -> owed o = [].
Proof. exact owed_no_step. Qed.

From Minimq Require Import Sends.

(* and with no assumption on the timers, for every transport whose writes take no time (`Calm`: no slow-write event left in
   its script — the fragmentation is arbitrary): the drain decides once, before its first step, whether a PINGREQ joins the queue *)
Theorem C15_drain_writes_owed_every_state : forall fuel w w',
  WInv (w_sess w) -> Calm w -> flush_outbound fuel w = (w', ODone tt) ->
  w_wire w' = w_wire w ++ owed (s_ob (fst (maybe_queue_pingreq (w_sess w) (w_now w)))) /\ next_step (s_ob (w_sess w')) = None.
Proof. exact flush_outbound_wire_any. Qed.

From Minimq Require Import ConnectOk Pings.

(* ---- EVERY transport, slow writes included (script kinds 4 / 5: time passes inside write()) ----
   When the clock moves inside the drain a PINGREQ can fall due in the middle of it, even in the middle of a packet.  It joins
   the control queue, the entry in progress is finished first, and at most one joins.  What a completed drain has written is
   `owed` with at most one PINGREQ inserted (that the insertion point is a packet boundary is C01_wire_is_whole_packets). *)
Theorem C15_engine_step_prefix : forall st now w w' r,
  WInv (w_sess w) -> next_step (s_ob (w_sess w)) = Some st ->
  perform_outbound_step st now w = (w', r) -> not_failed r ->
  exists P, w_wire w' = w_wire w ++ P /\ owed (s_ob (w_sess w)) = P ++ owed (s_ob (w_sess w')).
Proof. exact step_prefix. Qed.

Theorem C15_drain_every_transport : forall fuel w w',
  WInv (w_sess w) -> flush_outbound fuel w = (w', ODone tt) ->
  (w_wire w' = w_wire w ++ owed (s_ob (w_sess w)) \/
   exists A B, owed (s_ob (w_sess w)) = A ++ B /\ w_wire w' = w_wire w ++ A ++ PINGREQ_BYTES ++ B) /\
  next_step (s_ob (w_sess w')) = None.
Proof. exact flush_outbound_wire_every_transport. Qed.

(* once a PINGREQ is queued or outstanding, no other joins: exactly `owed`, whatever time the writes take *)
Theorem C15_drain_no_more_ping : forall fuel w w',
  WInv (w_sess w) -> NoMorePing (w_sess w) -> flush_outbound fuel w = (w', ODone tt) ->
  w_wire w' = w_wire w ++ owed (s_ob (w_sess w)) /\ next_step (s_ob (w_sess w')) = None.
Proof. exact flush_outbound_wire_nmp. Qed.

Theorem C15_slow_write_example :
  rt_next_ping (s_rt (w_sess ex_slow)) = Some 500 /\
  snd (op_publish FUEL ex_pub ex_slow) = ODone (Some {| op_kind := 0; op_pid := 1; op_gen := 1 |}) /\
  w_now (fst (op_publish FUEL ex_pub ex_slow)) = 800 /\
  w_wire (fst (op_publish FUEL ex_pub ex_slow)) = w_wire ex_slow ++ [50; 9; 0; 1; 116; 0; 1; 0; 1; 2; 3] ++ PINGREQ_BYTES.
Proof. exact slow_write_example. Qed.

Print Assumptions C15_reader_relation_is_a_function.
Print Assumptions C15_reader_chunking_independent.
Print Assumptions C15_loop_refines_relation.
Print Assumptions C15_written_pieces_concatenate.
Print Assumptions C15_written_pieces_are_the_packet.
Print Assumptions C15_reader_invariant_reachable.
Print Assumptions C15_handled_packet_is_next_frame.
Print Assumptions C15_frame_length_from_stream.
Print Assumptions C15_process_consumes_frame.
Print Assumptions C15_reads_conserve_stream.
Print Assumptions C15_framing_example.
Print Assumptions C15_engine_step_conserves.
Print Assumptions C15_written_prefix_leaves_owed.
Print Assumptions C15_drain_writes_owed_any_fragmentation.
Print Assumptions C15_nothing_to_do_nothing_owed.
Print Assumptions C15_drain_writes_owed_every_state.
Print Assumptions C15_engine_step_prefix.
Print Assumptions C15_drain_every_transport.
Print Assumptions C15_drain_no_more_ping.
Print Assumptions C15_slow_write_example.
