(* C15 — behaviour does not depend on how the transport fragments reads and writes.  Statements only.
   Reads: the packet reader driven by ANY fragmentation (the transport hands over 1 <= cnt <= window bytes per read,
   chosen freely at every read) yields the same sequence of packets (length and decode), the same final reader and the
   same unread rest: the big-step relation RRun is a function of (reader, stream).  Stated for the executable loop.
   Writes: the pieces the engine writes from its recorded offset concatenate to the packet.
   Whole executions (results, deliveries, outbound stream of the same program under two fragmentations) are compared
   on the implementation and on the model by the twin runs of the check. *)
From Coq Require Import List NArith.
From Minimq Require Import Bytes Varint Utf8 Props Ser De Reader.
From Minimq Require Import Chunking.
Import ListNotations.
Open Scope N_scope.

Theorem C15_reader_relation_is_a_function : forall n input, lenN input <= n -> forall r ps1 fin1 ps2 fin2,
  RRun r input ps1 fin1 -> RRun r input ps2 fin2 -> ps1 = ps2 /\ fin1 = fin2.
Proof. exact reader_deterministic. Qed.

Theorem C15_reader_chunking_independent : forall f1 f2 r input frags1 frags2 ps1 fin1 ps2 fin2,
  rloop f1 r input frags1 = (ps1, Some fin1) -> rloop f2 r input frags2 = (ps2, Some fin2) ->
  ps1 = ps2 /\ fin1 = fin2.
Proof. exact reader_chunking_independent. Qed.

Theorem C15_loop_refines_relation : forall fuel r input frags ps fin,
  rloop fuel r input frags = (ps, Some fin) -> RRun r input ps fin.
Proof. exact rloop_sound. Qed.

Theorem C15_written_pieces_concatenate : forall ns bs written,
  pieces bs written ns = takeN (sumN ns) (dropN written bs).
Proof. exact pieces_concat. Qed.

Theorem C15_written_pieces_are_the_packet : forall ns bs, sumN ns = lenN bs -> pieces bs 0 ns = bs.
Proof. exact pieces_whole. Qed.

Print Assumptions C15_reader_relation_is_a_function.
Print Assumptions C15_reader_chunking_independent.
Print Assumptions C15_loop_refines_relation.
Print Assumptions C15_written_pieces_concatenate.
Print Assumptions C15_written_pieces_are_the_packet.
