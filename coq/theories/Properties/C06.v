(* C06 — The broker's Receive Maximum is never exceeded.  Statements only. *)
From Coq Require Import List NArith.
From Minimq Require Import QuotaRefuted.
From Minimq Require Import Bytes Varint Utf8 Props Ser De Reader Arena Core Show Machine Parse Run.
From Minimq Require Import Lts Inv Quota Reach.
Import ListNotations.
Open Scope N_scope.

(* unresolved_publishes = retained QoS 1/2 PUBLISH packets (no PUBACK / PUBREC yet) plus PUBRELs waiting for
   PUBCOMP: every QoS>0 PUBLISH the client has sent and that is not yet resolved is counted here.
   w_envok is the ghost flag of the environment assumptions: every resumed CONNACK announced a Receive Maximum
   that covers the publishes carried over (retransmission is mandatory), and PUBACK / PUBREC packets name
   retained PUBLISH packets (never a SUBSCRIBE / UNSUBSCRIBE). *)
Theorem C06_window : forall c : case,
  w_envok (run_case c) = true ->
  rt_quota (s_rt (w_sess (run_case c))) <= rt_maxquota (s_rt (w_sess (run_case c))) /\
  unresolved_publishes (s_ob (w_sess (run_case c))) + rt_quota (s_rt (w_sess (run_case c)))
    <= rt_maxquota (s_rt (w_sess (run_case c))).
Proof. exact reachable_Q. Qed.

(* the accounting invariant is inductive over every step of every operation *)
Theorem C06_step : forall s l s', sstep s l s' -> Inv s -> Q s -> label_ok l = true -> Q s'.
Proof. exact Q_step. Qed.

(* max_send_quota is at most the local limit 8 after any successful CONNACK, and stays so *)
Theorem C06_limit_established : forall s p now resumed,
  snd (connack_process s p now) = CAOk resumed -> rt_maxquota (s_rt (fst (connack_process s p now))) <= 8.
Proof. exact connack_establishes_P8. Qed.
Theorem C06_limit_kept : forall s l s', sstep s l s' -> rt_maxquota (s_rt s) <= 8 -> rt_maxquota (s_rt s') <= 8.
Proof. exact P8_step. Qed.

(* a publish beyond the window is refused with NotReady; outbound state, quota and handles are unchanged
   (only the identifier counter has advanced) *)
Theorem C06_refused : forall s r,
  props_valid_for (pr_props r) CtxPublish = true -> effective_qos s (pr_qos r) <> Q0 ->
  retained_full (s_ob s) = false -> rt_quota (s_rt s) = 0 ->
  exists p, publish_middle s true r = (set_pid s p, MErr ENotReady).
Proof. exact publish_refused_no_quota. Qed.

(* no QoS 2 exchange is ever dropped because too many of them are waiting for PUBCOMP *)
Theorem C06_no_exchange_dropped : forall s pid rc,
  Inv s -> Q s -> rt_maxquota (s_rt s) <= 8 -> ack_type_ok s (RPubRec pid rc) = true ->
  snd (handle_packet s (RPubRec pid rc)) <> HErr EInflightExhausted.
Proof. exact pubrec_never_exhausted. Qed.

(* outside the environment assumption (known finding K06r): the window the broker grants on a resumed connection is
   smaller than the number of publishes the client holds, one of which never reached the wire; all are sent *)
Theorem C06_refuted_unsent_beyond_window :
  exists w, k06r_world = Some w /\
    w_envok w = false /\ rt_maxquota (s_rt (w_sess w)) = 1 /\
    unresolved_publishes (s_ob (w_sess w)) = 2 /\
    Forall (fun e => re_st e = SSent) (ob_ret (s_ob (w_sess w))).
Proof. exact window_refuted_unsent_publish. Qed.

Print Assumptions C06_window.
Print Assumptions C06_step.
Print Assumptions C06_limit_established.
Print Assumptions C06_limit_kept.
Print Assumptions C06_refused.
Print Assumptions C06_no_exchange_dropped.
Print Assumptions C06_refuted_unsent_beyond_window.
