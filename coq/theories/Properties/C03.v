(* C03 — QoS 2 outbound exchange is exactly-once.  Statements only. *)
From Coq Require Import List NArith.
From Minimq Require Import Bytes Varint Utf8 Props Ser De Reader Arena Core.
From Minimq Require Import ArenaOps Inv Lts Quota Status Persist.
Import ListNotations.
Open Scope N_scope.

(* a successful PUBREC moves the exchange from the retained list to the release list in ONE step: afterwards
   the PUBLISH can never be written again (it is no longer retained) and the PUBREL is owed *)
Theorem C03_pubrec_atomic : forall s pid rc o o2, Inv s ->
  ack_packet (s_ob s) pid = (o, true) -> rc_success rc = true ->
  check_pubrel_size (rt_mps (s_rt s)) pid 0 = None -> queue_release o pid 0 = Some o2 ->
  handle_packet s (RPubRec pid rc) = (set_ob (set_ob s o) o2, HOk false) /\
  ~ In pid (map re_pid (ob_ret o2)) /\ In pid (map le_pid (ob_rel o2)).
Proof. exact pubrec_moves. Qed.

(* the release list always has room for it (no exchange is dropped) *)
Theorem C03_release_has_room : forall s pid rc,
  Inv s -> Q s -> rt_maxquota (s_rt s) <= 8 -> ack_type_ok s (RPubRec pid rc) = true ->
  snd (handle_packet s (RPubRec pid rc)) <> HErr EInflightExhausted.
Proof. exact pubrec_never_exhausted. Qed.

(* a PUBREC carrying a failure code ends the exchange without PUBREL: the entry is removed, nothing is queued *)
Theorem C03_failed_pubrec : forall s pid rc o, ack_packet (s_ob s) pid = (o, true) -> rc_success rc = false ->
  handle_packet s (RPubRec pid rc) = (set_rt (set_ob s o) (quota_inc (s_rt s)), HErr (ERejected rc)).
Proof. exact pubrec_rejected_ends_exchange. Qed.

(* replayed PUBRELs keep the order in which the PUBRECs were received: the release list grows at the tail,
   PUBCOMP deletes one element in place, and the engine serves fresh entries in list order *)
Theorem C03_release_tail : forall o pid rc o', queue_release o pid rc = Some o' ->
  ob_rel o' = ob_rel o ++ [{| le_pid := pid; le_rc := rc; le_st := SWrite 0 |}].
Proof. exact queue_release_tail. Qed.
Theorem C03_pubcomp_keeps_order : forall pid es es', remove_first_rel pid es = Some es' ->
  exists a x b, es = a ++ x :: b /\ es' = a ++ b /\ le_pid x = pid.
Proof. exact remove_first_rel_order. Qed.
Theorem C03_served_in_order : forall (l : list lentry) e, find (fun e => matches_priority (le_st e) false) l = Some e ->
  exists a b, l = a ++ e :: b /\ Forall (fun x => is_fresh (le_st x) = false) a.
Proof. exact find_first_fresh. Qed.

(* replay: every owed PUBREL restarts from byte 0 on a new connection, and is written once *)
Theorem C03_replay_armed : forall o, has_pending_state o = true ->
  Forall (fun e => re_st e = SWrite 0) (ob_ret (arm_replay o)) /\
  Forall (fun e => le_st e = SWrite 0) (ob_rel (arm_replay o)) /\
  Forall (fun e => ce_st e = SWrite 0) (ob_ctl (arm_replay o)) /\
  map re_pid (ob_ret (arm_replay o)) = map re_pid (ob_ret o) /\
  map le_pid (ob_rel (arm_replay o)) = map le_pid (ob_rel o).
Proof. exact arm_replay_states. Qed.

From Minimq Require Import Machine Run WireInv Wire PingQuiet Healthy Owed Replay.

(* ---- the replay on the wire: after a resumed connect every pending PUBREL is written once, in the order of the
   release list (= PUBREC order), after the owed acknowledgements and before the retained publishes — on any transport,
   however it cuts the writes *)
Theorem C03_replay_layout : forall o, replay_bytes o =
  concat (map (fun e => ctl_bytes (ce_act e)) (ob_ctl o)) ++
  concat (map (fun e => rel_bytes (le_pid e) (le_rc e)) (ob_rel o)) ++
  concat (map (fun e => dup_bytes (sliceN (re_off e) (re_len e) (ob_buf o))) (ob_ret o)).
Proof. exact replay_bytes_unfold. Qed.

Theorem C03_pubrels_replayed_in_order : forall f1 f2 w w1 w1' w2,
  Inv (w_sess w) -> op_connect f1 w = (w1, ODone 1) -> w_sess w1' = w_sess w1 ->
  WInv (w_sess w1') -> PQ w1' -> flush_outbound f2 w1' = (w2, ODone tt) ->
  w_wire w2 = w_wire w1' ++ replay_bytes (s_ob (w_sess w)) /\ next_step (s_ob (w_sess w2)) = None.
Proof. exact reconnect_replays_any_transport. Qed.

Print Assumptions C03_pubrec_atomic.
Print Assumptions C03_release_has_room.
Print Assumptions C03_failed_pubrec.
Print Assumptions C03_release_tail.
Print Assumptions C03_pubcomp_keeps_order.
Print Assumptions C03_served_in_order.
Print Assumptions C03_replay_armed.
Print Assumptions C03_replay_layout.
Print Assumptions C03_pubrels_replayed_in_order.
