(* C02 — An accepted QoS 1 publish is never lost: replayed on each resume until PUBACK.  Statements only. *)
From Coq Require Import List NArith.
From Minimq Require Import Bytes Varint Utf8 Props Ser De Reader Arena Core.
From Minimq Require Import ArenaOps Inv Lts Status Persist.
Import ListNotations.

(* has_entry o pid ub: the retained list holds a packet with identifier pid whose bytes, with the DUP bit (bit 3
   of the first byte) cleared, are ub.  One step of any operation, under any schedule, keeps it there unless
   the step processes an acknowledgement naming pid or establishes a fresh broker session — cancellation,
   transport faults, reconnects, compaction, other acknowledgements in any order, later publishes, DUP marking
   and replay do not lose it and do not change its content. *)
Theorem C02_never_lost : forall s l s' pid ub, sstep s l s' -> Inv s -> has_entry (s_ob s) pid ub ->
  has_entry (s_ob s') pid ub \/
  (exists p ok, l = LPacket ok /\ names p pid /\ s' = fst (handle_packet s p)) \/
  (exists u m, l = LConnack false u m).
Proof. exact entry_persist. Qed.

(* a new connection (and every disconnect) rewinds every queued entry to byte 0 and marks DUP: it will be
   written again, completely, on the next connection ... *)
Theorem C02_replay_armed : forall o, has_pending_state o = true ->
  Forall (fun e => re_st e = SWrite 0) (ob_ret (arm_replay o)) /\
  Forall (fun e => le_st e = SWrite 0) (ob_rel (arm_replay o)) /\
  Forall (fun e => ce_st e = SWrite 0) (ob_ctl (arm_replay o)) /\
  map re_pid (ob_ret (arm_replay o)) = map re_pid (ob_ret o) /\
  map le_pid (ob_rel (arm_replay o)) = map le_pid (ob_rel o).
Proof. exact arm_replay_states. Qed.

(* ... and only once: the engine never picks an entry that is marked Sent *)
Theorem C02_not_twice : forall o st, next_step o = Some st -> step_state st <> SSent.
Proof. exact next_step_not_sent. Qed.

(* the DUP poke changes bit 3 of the first byte and nothing else *)
Theorem C02_dup_only : forall b, undup (dup_bytes b) = undup b.
Proof. exact undup_dup. Qed.

(* order: removal from the retained list keeps the order of the others; new packets join at the tail *)
Theorem C02_order_kept : forall pid es es', remove_first_ret pid es = Some es' ->
  exists a x b, es = a ++ x :: b /\ es' = a ++ b /\ re_pid x = pid.
Proof. exact remove_first_ret_order. Qed.

Print Assumptions C02_never_lost.
Print Assumptions C02_replay_armed.
Print Assumptions C02_not_twice.
Print Assumptions C02_dup_only.
Print Assumptions C02_order_kept.
